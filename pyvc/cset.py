"""Abstract view of pkgcore.fs.contents.contentsSet: a map location -> entry.

Entries are a z3 record (kind, location, mode, uid, gid, mtime, target, data, dev, inode);
the set is (dom: Set[str], ent: Array[str -> Entry]) with the representation
invariant `l in dom => location(ent[l]) == l` (the key is the entry's location,
contentsSet.add / update).  The contentsSet methods used here follow their C22
contracts (assumed at these call sites, proved in contracts/c22.py).
"""
import ast
import z3

from .models import ModelHost, Model, _raise
from .interp import _NeedPure
from .sym import (Kind, SRef, SBool, SInt, SStr, SBV, BV, OutOfSubset, fresh_name, has_sym, kind_of, KStr, I, S, And, Or, Not)

KINDS = {"file": 0, "dir": 1, "sym": 2, "fifo": 3, "dev": 4}

_E = z3.Datatype("Entry")
_E.declare("mk", ("kind", z3.IntSort()), ("location", z3.StringSort()), ("mode", z3.BitVecSort(32)), ("uid", z3.IntSort()),
           ("gid", z3.IntSort()), ("mtime", z3.IntSort()), ("target", z3.StringSort()), ("data", z3.IntSort()),
           ("dev", z3.IntSort()), ("inode", z3.IntSort()))
Entry = _E.create()
KEntry = Kind("Entry", Entry, lambda t: SRef(t, KEntry), lambda v: v.t if isinstance(v, SRef) and v.kind is KEntry else None)
FIELDS = ["kind", "location", "mode", "uid", "gid", "mtime", "target", "data", "dev", "inode"]
_WRAP = {"kind": SInt, "location": SStr, "mode": SBV, "uid": SInt, "gid": SInt, "mtime": SInt, "target": SStr, "data": SInt,
         "dev": SInt, "inode": SInt}


def field(e_t, name):
    return getattr(Entry, name)(e_t)


def update_entry(e_t, **kw):
    args = []
    for f in FIELDS:
        if f in kw:
            v = kw[f]
            if f == "mode":
                args.append(BV(v))
            elif f in ("location", "target"):
                args.append(S(v))
            else:
                args.append(I(v))
        else:
            args.append(field(e_t, f))
    return Entry.mk(*args)


def entry_attr(it, ref, name):
    """attribute access on an abstract entry (the fsBase attribute contract)."""
    t = ref.t
    if name in _WRAP and name != "kind":
        return _WRAP[name](field(t, name))
    flags = {"is_reg": 0, "is_dir": 1, "is_sym": 2, "is_fifo": 3, "is_dev": 4}
    if name in flags:
        return SBool(field(t, "kind") == flags[name])
    if name == "change_attributes":
        def change(it_, **kw):
            bad = set(kw) - set(FIELDS) - {"chksums"}
            if bad:
                raise OutOfSubset(f"change_attributes({sorted(bad)})")
            kw.pop("chksums", None)
            return SRef(update_entry(t, **kw), KEntry)
        return Model(change, "fsBase.change_attributes")
    raise OutOfSubset(f"entry attribute {name}")


class CSet(ModelHost):
    """mutable abstract contentsSet"""

    def __init__(self, ex, name="cset"):
        self.name = name
        self.dom = z3.Const(fresh_name(name + "_dom"), z3.SetSort(z3.StringSort()))
        self.ent = z3.Const(fresh_name(name + "_ent"), z3.ArraySort(z3.StringSort(), Entry))
        self.dom0, self.ent0 = self.dom, self.ent

    # the iteration protocol used by comprehensions
    def quant_bind(self, it, pred=None):
        l = z3.Const(fresh_name("loc"), z3.StringSort())
        e = self.ent[l]
        dom = z3.And(z3.IsMember(l, self.dom), field(e, "location") == l)
        if pred is not None:
            dom = z3.And(dom, pred(e))
        return self, l, dom, SRef(e, KEntry)

    def getattr(self, it, name):
        kinds = {"iterfiles": 0, "iterdirs": 1, "iterlinks": 2, "iterfifos": 3, "iterdevs": 4,
                 "files": 0, "dirs": 1, "links": 2, "fifos": 3, "devs": 4}
        if name in kinds:
            k = kinds[name]

            def typed(it_, invert=False):
                if has_sym(invert):
                    raise OutOfSubset("symbolic invert flag")
                if invert:
                    return Filtered(self, lambda e, _k=k: field(e, "kind") != _k)
                return Filtered(self, lambda e, _k=k: field(e, "kind") == _k)
            return Model(typed, f"contentsSet.{name}")
        if name == "update":
            return Model(lambda it_, src: self.update(it_, src), "contentsSet.update")
        if name == "difference_update":
            return Model(lambda it_, src: self.difference_update(it_, src), "contentsSet.difference_update")
        raise OutOfSubset(f"contentsSet.{name} on the abstract set")

    def update(self, it, src):
        """d[x.location] = x for x in src; src must be a quantified comprehension over this set
        whose elements keep their location (checked as an obligation)."""
        if not isinstance(src, QComp) or src.host is not self:
            raise OutOfSubset("contentsSet.update from a foreign iterable")
        l, dom, elt = src.var, src.dom, src.elt
        if not (isinstance(elt, SRef) and elt.kind is KEntry):
            raise OutOfSubset("contentsSet.update with non-entry elements")
        keeps = z3.ForAll([l], z3.Implies(dom, field(elt.t, "location") == l))
        it.ex.oblige(f"{it.label}.update.keeps_location", SBool(keeps), kind="callee-precondition")
        if not it.ex.must(SBool(keeps)):
            raise OutOfSubset("contentsSet.update moves entries (not modelled pointwise)")
        self.ent = z3.Lambda([l], z3.If(dom, elt.t, self.ent[l]))

    def difference_update(self, it, src):
        if not isinstance(src, QComp) or src.host is not self:
            raise OutOfSubset("contentsSet.difference_update from a foreign iterable")
        l, dom = src.var, src.dom
        self.dom = z3.SetDifference(self.dom, z3.Lambda([l], dom))

    def iterate(self, it):
        raise OutOfSubset("statement-level iteration over the abstract contents set")


class Filtered(ModelHost):
    def __init__(self, host, pred):
        self.host, self.pred = host, pred

    def quant_bind(self, it):
        return self.host.quant_bind(it, self.pred)


class QComp(ModelHost):
    """{ elt(l) : l in dom } over an abstract contents set (list or generator)."""

    def __init__(self, host, var, dom, elt, kind):
        self.host, self.var, self.dom, self.elt, self.kind = host, var, dom, elt, kind

    def quant_bind(self, it):
        if not (isinstance(self.elt, SRef) and self.elt.kind is KEntry):
            raise OutOfSubset("iteration over a comprehension of non-entries")
        return self.host, self.var, self.dom, self.elt

    def truth_term(self, it):
        return z3.Exists([self.var], self.dom)

    def _elt_truth(self):
        t = self.it_truth(self.elt)
        return z3.BoolVal(t) if isinstance(t, bool) else t

    def exists(self):
        return SBool(z3.Exists([self.var], z3.And(self.dom, self._elt_truth())))

    def forall(self):
        return SBool(z3.ForAll([self.var], z3.Implies(self.dom, self._elt_truth())))

    def iterate(self, it):
        # statement-level loops over the selection (reporting only) are outside the contracts
        raise OutOfSubset("statement-level iteration over a selection of the abstract contents set")


def quant_comprehension(it, e, frame, cframe, src, kind):
    if len(e.generators) != 1 or kind == "dict":
        raise OutOfSubset("nested/dict comprehension over the abstract contents set")
    g = e.generators[0]
    host, l, dom, elem = src.quant_bind(it)
    it.pure += 1
    try:
        it.assign(g.target, elem, cframe)
        terms = [dom]
        for c in g.ifs:
            t = it.truth_term(it.eval(c, cframe))
            terms.append(z3.BoolVal(t) if isinstance(t, bool) else t)
        elt = it.eval(e.elt, cframe)
    except _NeedPure:
        raise OutOfSubset("comprehension body over the abstract contents set needs forking")
    finally:
        it.pure -= 1
    q = QComp(host, l, z3.And(*terms), elt, kind)
    q.it_truth = it.truth_term
    return q


def install_entry_attrs(it):
    if not hasattr(it, "ref_attrs"):
        it.ref_attrs = {}
    it.ref_attrs = _EntryAttrs(it.ref_attrs)


class _EntryAttrs(dict):
    def get(self, key, default=None):
        if key[0] == "Entry":
            return lambda it, ref, _n=key[1]: entry_attr(it, ref, _n)
        return super().get(key, default)
