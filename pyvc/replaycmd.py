"""./check <Cnn> --replay <replay file>: run a recorded violation again on /repo's current working tree.

A replay file names the failed obligation, the task that generated it and, where the verifier or the bounded enumeration gave one,
the failing input.  Replaying means (1) running the contract module's replay function for that obligation on the recorded input
against the real code, when the module has one, and (2) re-generating the obligation from the current source (the task that owns it
is run again, nothing else) and reporting whether it still fails.  Exit 1 + a VIOLATION line if the failure is still there, exit 0
if it is gone, exit 2/3 as for a normal run.  Nothing is written to evidence/."""
import importlib
import json
import os
import tempfile
import traceback


def main(prop, path):
    from pyvc import cli
    try:
        d = json.load(open(path))
    except Exception as e:
        print(f"CHECKER-ERROR property={prop} cannot read replay file {path}: {e}")
        return 3
    obligation, task = d.get("obligation"), d.get("task")
    if not obligation or not task:
        print(f"CHECKER-ERROR property={prop} {path} is not a replay file (no obligation/task)")
        return 3
    print(f"replay: obligation {obligation} (task {task}); recorded input: {json.dumps(d.get('model'))[:600]}")
    mod = importlib.import_module(f"contracts.{prop.lower()}")
    # (1) the recorded input on the real code
    fn = None
    for k, f in getattr(mod, "REPLAY", {}).items():
        if obligation.startswith(k):
            fn = f
    native = None
    if fn is not None and d.get("model") is not None:
        try:
            native = fn(d["model"])
            print(f"replay: recorded input on the real code: {'still fails' if native.get('confirmed') else 'no longer fails' if native.get('confirmed') is False else 'undetermined'}: {str(native.get('detail'))[:400]}")
        except Exception:
            print("replay: the replay function crashed:\n" + traceback.format_exc(limit=4))
    # (2) the obligation re-generated from the current source
    os.environ.setdefault("VERIF_TIER", "quick")
    seed = int(os.environ.get("VERIF_SEED", "0") or 0)
    scratch = tempfile.mkdtemp(prefix="replay-", dir=os.environ.get("PYVC_SCRATCH", "/var/tmp"))
    cli.OUT = scratch  # replay files of this run go to scratch, evidence is not written
    try:
        mod, results, wall = cli.run_property(prop, os.environ["VERIF_TIER"], seed, task.split("[")[0], None)
        ev, lines, code = cli.decide(prop, mod, results, os.environ["VERIF_TIER"], seed, wall)
    except Exception:
        print(f"CHECKER-ERROR property={prop} {traceback.format_exc()}")
        return 3
    finally:
        import shutil
        shutil.rmtree(scratch, ignore_errors=True)
    again = [v for v in ev["coverage"].get("violation_details", []) if v.get("obligation") == obligation]
    known = [k for k in ev["coverage"].get("known_findings_hit", []) if k.get("obligation") == obligation]
    if again or (native or {}).get("confirmed"):
        detail = (again[0].get("detail") if again else None) or (native or {}).get("detail") or ""
        print(f"replay: {obligation} fails again on the current tree: {str(detail)[:500]}")
        print(f"VIOLATION property={prop} replay={path}" + ("" if (again and again[0].get("confirmed")) or (native or {}).get("confirmed") else " no-failing-input-found"))
        return 1
    if known:
        print(f"KNOWN-FINDING: property={prop} {known[0].get('what', '')[:300]} [{known[0].get('id')}]")
        return 0
    und = [u for u in ev["coverage"].get("undecided", []) if task.split("[")[0] in str(u.get("task", ""))]
    if code in (2, 3) and und:
        print(f"replay: undecided on the current tree: {json.dumps(und[0])[:400]}")
        return code
    print(f"replay: {obligation} does not fail on the current tree (not reproduced)")
    return 0
