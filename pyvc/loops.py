"""Loops (invariant cut / concrete unrolling / bounded unrolling) and comprehensions."""
import ast
import z3

from .explore import PathEnd
from .interp import (Frame, NS, PyRaise, _Break, _Continue, _Return, _NeedPure, Chunk, GenResult, LoopSpec)
from .models import (ModelHost, iter_concrete, model, MODELS, gen_items, set_term, PureComp, make_set, setitem, truthy)
from .sym import (Sym, SBool, SInt, SStr, SSeq, SSet, MutSet, OutOfSubset, B, I, And, Not, kind_of, KSeq, KSet, KInt,
                  KBool, KStr, fresh_name, has_sym, concrete_of)

MAX_UNROLL = 256


class IterView(ModelHost):
    """A symbolic-length iterable given by its length and an index function."""

    def __init__(self, length, at, desc="view"):
        self.length_, self.at, self.desc = length, at, desc

    def iterate(self, it):
        n = concrete_of(self.length_)
        if isinstance(n, int):
            return [self.at(i) for i in range(n)]
        raise OutOfSubset("iteration over a symbolic collection needs a loop contract")


def as_view(it, v):
    """-> IterView for symbolic-length iterables, or None."""
    v = it.deopt(v)
    if isinstance(v, GenResult):
        v = gen_items(it, v)
    if isinstance(v, IterView):
        return v
    from .models import SymIter
    from .sym import SObj
    if isinstance(v, SObj):
        import inspect
        import types
        m = inspect.getattr_static(v.cls, "__iter__", None)
        if isinstance(m, types.FunctionType):
            v = it.call(m, (v,), {})
    if isinstance(v, SymIter) and isinstance(v.pos, int) and v.pos == 0:
        return v.view  # iter(seq) not yet advanced: iterating it is iterating seq
    if isinstance(v, MutList):
        v = v.val  # snapshot: python also iterates the live list, loops that mutate it while iterating are out of subset
    from .sym import SArr
    if isinstance(v, (SSeq, SArr)):
        return IterView(v.length(), lambda k, _v=v: _v.at(k), "seq")
    if isinstance(v, SStr):
        return IterView(v.length(), lambda k, _v=v: _v.char_at(k), "str")
    if isinstance(v, (MutSet, SSet)):
        sv = v.val if isinstance(v, MutSet) else v
        if sv is None:
            return None
        order = sv.kind.elem
        seq = KSeq(order, "list").fresh("setorder")
        it.ex.assume(seq.as_set() == sv)
        return IterView(seq.length(), lambda k, _v=seq: _v.at(k), "set")
    return None


def _install_view_models():
    base_rev, base_enum, base_zip = MODELS[reversed], MODELS[enumerate], MODELS[zip]

    def m_reversed(it, v):
        w = as_view(it, v)
        if w is None or isinstance(concrete_of(w.length_), int):
            return base_rev(it, v if w is None else w.iterate(it))
        return IterView(w.length_, lambda k, _w=w: _w.at(_w.length_ - 1 - k), "reversed")

    def m_enumerate(it, v, start=0):
        w = as_view(it, v)
        if w is None or isinstance(concrete_of(w.length_), int):
            return base_enum(it, v if w is None else w.iterate(it), start)
        return IterView(w.length_, lambda k, _w=w: (k + start, _w.at(k)), "enumerate")

    def m_zip(it, *vs, strict=False):
        ws = [as_view(it, v) for v in vs]
        if all(w is None or isinstance(concrete_of(w.length_), int) for w in ws):
            return base_zip(it, *[v if w is None else w.iterate(it) for v, w in zip(vs, ws)])
        # mixed: concrete ones become views too
        views = []
        for v, w in zip(vs, ws):
            if w is None:
                items = iter_concrete(it, v)
                w = IterView(len(items), (lambda k, _i=items: _index_concrete(it, _i, k)), "concrete")
            views.append(w)
        n = views[0].length_
        for w in views[1:]:
            from .sym import Ite
            a, b = n, w.length_
            n = Ite(SBool(I(a) <= I(b)), a if isinstance(a, Sym) else SInt(I(a)), b if isinstance(b, Sym) else SInt(I(b)))
        return IterView(n, lambda k, _ws=views: tuple(w.at(k) for w in _ws), "zip")

    MODELS[reversed], MODELS[enumerate], MODELS[zip] = m_reversed, m_enumerate, m_zip


def _index_concrete(it, items, k):
    from .models import getitem
    return getitem(it, items, k)


_install_view_models()


# ------------------------------------------------------------------ for ----
def assigned_names(nodes):
    out = []
    for root in nodes:
        for n in ast.walk(root):
            if isinstance(n, ast.Name) and isinstance(n.ctx, (ast.Store, ast.Del)):
                if n.id not in out:
                    out.append(n.id)
            elif isinstance(n, ast.ExceptHandler) and n.name and n.name not in out:
                out.append(n.name)
    return out


def _has_yield(nodes):
    return any(isinstance(n, (ast.Yield, ast.YieldFrom)) for r in nodes for n in ast.walk(r))


def spec_for(it, s, frame):
    ext = frame.closure.ext if frame.closure is not None else None
    if ext is None:
        return None, None
    ordn = ext.loop_ordinal(s)
    return it.loops.get((ext.qualname, ordn)), ordn


def havoc(it, spec, s, frame, extra_nodes=()):
    ex = it.ex
    names = assigned_names([s] if not extra_nodes else list(extra_nodes))
    target_names = assigned_names([s.target]) if isinstance(s, ast.For) else []
    for n in names:
        if n in target_names:
            continue
        if n in spec.havoc:
            h = spec.havoc[n]
            frame.locals[n] = h.fresh(n) if hasattr(h, "fresh") else h(it)
            continue
        if n not in frame.locals:
            continue  # loop-local
        cur = frame.locals[n]
        if isinstance(cur, MutSet):
            continue  # rebinding of a set name: treated via mutates
        k = kind_of(cur)
        if k is None:
            raise OutOfSubset(f"loop havoc: no kind for local {n}={cur!r}; give LoopSpec.havoc")
        frame.locals[n] = k.fresh(n)
    # containers mutated through method calls / item assignment in the loop body:
    # detected syntactically so that an edit adding a new accumulator cannot
    # silently escape the havoc (soundness of the cut)
    from .models import _MUTATORS
    mutated = list(spec.mutates)
    for root in ([s] if not extra_nodes else list(extra_nodes)):
        for nd in ast.walk(root):
            tgt = None
            if isinstance(nd, ast.Call) and isinstance(nd.func, ast.Attribute) and nd.func.attr in _MUTATORS:
                tgt = nd.func.value
            elif isinstance(nd, ast.Call) and isinstance(nd.func, ast.Name) and nd.func.id == "next" and nd.args:
                tgt = nd.args[0]
            elif isinstance(nd, ast.Subscript) and isinstance(nd.ctx, (ast.Store, ast.Del)):
                tgt = nd.value
            elif isinstance(nd, ast.Attribute) and isinstance(nd.ctx, (ast.Store, ast.Del)):
                tgt = nd.value
            if tgt is None:
                continue
            if isinstance(tgt, ast.Name):
                if tgt.id not in mutated and tgt.id not in names:
                    mutated.append(tgt.id)
                elif tgt.id in names and tgt.id not in mutated and tgt.id in frame.locals:
                    mutated.append(tgt.id)
            elif ast.unparse(tgt) not in getattr(spec, "frame_ok", ()):
                raise OutOfSubset(f"loop mutates {ast.unparse(tgt)}: not covered by the loop contract's frame")
    for n in mutated:
        try:
            obj = frame.lookup(n)
        except PyRaise:
            continue  # created inside the loop body
        from .models import SymIter, IterHost
        if n in spec.havoc and callable(spec.havoc[n]) and not hasattr(spec.havoc[n], "fresh"):
            frame.store(n, spec.havoc[n](it))
            continue
        if isinstance(obj, SymIter):
            p = KInt.fresh("iterpos")
            ex.assume(And(p >= 0, SBool(I(p) >= I(obj.pos))))
            obj.pos = p
            continue
        if n not in spec.mutates and not isinstance(obj, (MutSet, MutList)):
            if isinstance(obj, (list, dict, set)) or has_sym(obj):
                raise OutOfSubset(f"loop mutates {n}={type(obj).__name__}: not covered by the loop contract")
            continue
        if isinstance(obj, MutSet):
            if n in spec.havoc:
                obj.val = spec.havoc[n].fresh(n)
            elif obj.val is not None:
                obj.val = obj.val.kind.fresh(n)
            else:
                raise OutOfSubset(f"loop havoc: set {n} has unknown element kind; give LoopSpec.havoc")
        elif isinstance(obj, MutList):
            obj.val = obj.val.kind.fresh(n)
        else:
            raise OutOfSubset(f"loop havoc: cannot havoc {n}={obj!r}")
    if spec.on_havoc is not None:
        spec.on_havoc(it)


def _out_seq(it, frame, spec):
    """all items yielded so far as one SSeq (generator frames)."""
    if frame.yields is None:
        return None
    k = spec.out_kind
    if k is None:
        return None
    seq = None
    for x in frame.yields:
        part = x.seq if isinstance(x, Chunk) else SSeq(z3.Unit(k.elem.lift(x)), k)
        seq = part if seq is None else seq + part
    if seq is None:
        seq = SSeq(z3.Empty(k.sort), k)
    return seq


def _ns(it, frame, spec, extra=None):
    d = {}
    f = frame
    chain = []
    while f is not None:
        chain.append(f)
        f = f.parent
    for f in reversed(chain):
        d.update(f.locals)
    out = _out_seq(it, frame, spec)
    if out is not None:
        d["_out"] = out
    if extra:
        d.update(extra)
    return NS(d)


def exec_for(it, s, frame):
    ex = it.ex
    iterable = it.eval(s.iter, frame)
    spec, ordn = spec_for(it, s, frame)
    view = as_view(it, iterable)
    if view is not None and isinstance(concrete_of(view.length_), int):
        iterable, view = view.iterate(it), None
    if view is None:
        items = iter_concrete(it, iterable)
        if len(items) > MAX_UNROLL:
            raise OutOfSubset("concrete loop too long")
        broke = False
        for x in items:
            it.assign(s.target, x, frame)
            try:
                it.exec_block(s.body, frame)
            except _Continue:
                continue
            except _Break:
                broke = True
                break
        if not broke:
            it.exec_block(s.orelse, frame)
        return
    n = view.length_
    label = f"{it.label}.loop{ordn}"
    if it.bounded:  # bounded mode ignores loop contracts: plain unrolling
        return bounded_for(it, s, frame, view)
    if spec is None:
        raise OutOfSubset(f"loop {ordn} of {frame.closure.name} over a symbolic collection has no invariant")
    extra = {"_n": n, "_at": view.at}
    ex.oblige(f"{label}.inv_entry", spec.inv(_ns(it, frame, spec, extra), 0), kind="loop-invariant-entry")
    which = ex.choose(2)
    has_y = frame.yields is not None and _has_yield(s.body)
    if has_y:
        if spec.out_kind is None:
            raise OutOfSubset("loop with yield needs LoopSpec.out_kind")
    havoc(it, spec, s, frame)
    if has_y:
        frame.yields = [Chunk(spec.out_kind.fresh("out"))]
    if which == 0:
        k = KInt.fresh("k")
        ex.assume(And(k >= 0, k < n))
        ex.assume(spec.inv(_ns(it, frame, spec, extra), k))
        ex.cover(f"{label}.iteration")
        elem = view.at(k)
        if spec.elem_assume is not None:
            ex.assume(spec.elem_assume(elem))  # type invariant of the elements (a stated precondition)
        it.loop_k[(frame.closure.ext.qualname, ordn)] = k
        it.assign(s.target, elem, frame)
        try:
            it.exec_block(s.body, frame)
        except _Continue:
            pass
        except _Break:
            return
        ex.oblige(f"{label}.inv_preserved", spec.inv(_ns(it, frame, spec, extra), k + 1), kind="loop-invariant-step")
        raise PathEnd("loop cut")
    ex.assume(spec.inv(_ns(it, frame, spec, extra), n))
    ex.cover(f"{label}.exit")
    # python leaves the loop variable bound to the last element: if the function reads it outside the loop, give it that value
    # (one case split on "at least one iteration"); otherwise it is never looked at and keeps whatever it held
    if _target_read_outside(frame, s):
        if it.truth(SBool(I(n) > 0)):
            it.assign(s.target, view.at(n - 1), frame)
    it.exec_block(s.orelse, frame)


def _target_read_outside(frame, s):
    names = set(assigned_names([s.target]))
    fn = frame.closure.node if frame.closure is not None else None
    if fn is None or not names:
        return False
    inside = {id(n) for n in ast.walk(s)} - {id(x) for o in s.orelse for x in ast.walk(o)}
    # reads under another binder of the same name (a later `for x in ...`, a comprehension over x, a nested def/lambda parameter) see that binding
    rebound = set()
    for n in ast.walk(fn):
        if n is s:
            continue
        if isinstance(n, ast.For) and set(assigned_names([n.target])) & names:
            rebound |= {id(x) for st in n.body for x in ast.walk(st)}
        elif isinstance(n, (ast.ListComp, ast.SetComp, ast.GeneratorExp, ast.DictComp)):
            if any(set(assigned_names([g.target])) & names for g in n.generators):
                rebound |= {id(x) for x in ast.walk(n)}
        elif isinstance(n, (ast.FunctionDef, ast.Lambda)) and n is not fn:
            if {a.arg for a in n.args.args + n.args.kwonlyargs} & names:
                rebound |= {id(x) for x in ast.walk(n)}
    for n in ast.walk(fn):
        if isinstance(n, ast.Name) and n.id in names and isinstance(n.ctx, ast.Load) and id(n) not in inside and id(n) not in rebound:
            return True
    return False


def bounded_for(it, s, frame, view):
    K = it.bounded.get("unroll", 3)
    ex = it.ex
    n = view.length_
    for i in range(K):
        if not ex.branch(SBool(I(n) > i)):
            it.exec_block(s.orelse, frame)
            return
        it.assign(s.target, view.at(i), frame)
        try:
            it.exec_block(s.body, frame)
        except _Continue:
            continue
        except _Break:
            return
    ex.assume(SBool(I(n) <= K))
    if f"unroll<={K}" not in ex.bounded:
        ex.bounded.append(f"unroll<={K}")
    it.exec_block(s.orelse, frame)


def exec_while(it, s, frame):
    ex = it.ex
    spec, ordn = spec_for(it, s, frame)
    label = f"{it.label}.loop{ordn}"
    if spec is None or it.bounded:
        count = 0
        limit = it.bounded.get("unroll", 3) if it.bounded else MAX_UNROLL
        while True:
            t = it.truth_term(it.eval(s.test, frame))
            if not isinstance(t, bool):
                if count >= limit:
                    if it.bounded:
                        ex.assume(SBool(z3.Not(t)))
                        ex.bounded.append(f"while-unroll<={limit}")
                        t = False
                    else:
                        raise OutOfSubset(f"while loop {ordn} of {frame.closure.name} needs an invariant")
                else:
                    t = ex.branch(t)
            if not t:
                it.exec_block(s.orelse, frame)
                return
            count += 1
            if count > MAX_UNROLL:
                raise OutOfSubset("concrete while loop too long")
            try:
                it.exec_block(s.body, frame)
            except _Continue:
                continue
            except _Break:
                return
    ex.oblige(f"{label}.inv_entry", spec.inv(_ns(it, frame, spec), 0), kind="loop-invariant-entry")
    has_y = frame.yields is not None and _has_yield(s.body)
    havoc(it, spec, s, frame)
    if has_y:
        frame.yields = [Chunk(spec.out_kind.fresh("out"))]
    k = KInt.fresh("k")
    ex.assume(k >= 0)
    ex.assume(spec.inv(_ns(it, frame, spec), k))
    if it.truth(it.eval(s.test, frame)):
        ex.cover(f"{label}.iteration")
        try:
            it.exec_block(s.body, frame)
        except _Continue:
            pass
        except _Break:
            return
        ex.oblige(f"{label}.inv_preserved", spec.inv(_ns(it, frame, spec), k + 1), kind="loop-invariant-step")
        raise PathEnd("loop cut")
    ex.cover(f"{label}.exit")
    it.exec_block(s.orelse, frame)


from .sym import MutList  # noqa: E402  (mutable symbolic list)


# -------------------------------------------------------- comprehensions ----
class SymComp(ModelHost):
    """Comprehension over a symbolic collection, kept symbolic: for a bound index
    i into the source view, `cond(i)` and `elt(i)`; consumers choose the encoding."""

    def __init__(self, it, view, ivar, cond, elt, elt_is_var, kind):
        self.it, self.view, self.ivar, self.cond, self.elt, self.elt_is_var, self.kind = it, view, ivar, cond, elt, elt_is_var, kind

    def _dom(self):
        return z3.And(self.ivar >= 0, self.ivar < I(self.view.length_))

    def exists(self):
        return SBool(z3.Exists([self.ivar], z3.And(self._dom(), self.cond, B(self.it.truth_term(self.elt)) if not isinstance(self.it.truth_term(self.elt), bool) else z3.BoolVal(self.it.truth_term(self.elt)))))

    def forall(self):
        t = self.it.truth_term(self.elt)
        t = z3.BoolVal(t) if isinstance(t, bool) else t
        return SBool(z3.ForAll([self.ivar], z3.Implies(z3.And(self._dom(), self.cond), t)))

    def as_set(self):
        k = kind_of(self.elt)
        if k is None:
            raise OutOfSubset("comprehension element kind")
        r = KSet(k).fresh("comp")
        y = z3.Const(fresh_name("y"), k.sort)
        self.it.ex.assume(SBool(z3.ForAll([y], z3.IsMember(y, r.t) == z3.Exists([self.ivar], z3.And(self._dom(), self.cond, k.lift(self.elt) == y)))))
        return r

    def as_seq(self, py):
        k = kind_of(self.elt)
        if k is None:
            raise OutOfSubset("comprehension element kind")
        r = KSeq(k, py).fresh("comp")
        ex = self.it.ex
        n = I(self.view.length_)
        ex.assume(SBool(z3.Length(r.t) <= n))
        always = z3.is_true(z3.simplify(self.cond))
        if always:
            ex.assume(SBool(z3.Length(r.t) == n))
            j = self.ivar
            ex.assume(SBool(z3.ForAll([j], z3.Implies(self._dom(), r.t[j] == k.lift(self.elt)))))
        else:
            y = z3.Const(fresh_name("y"), k.sort)
            ex.assume(SBool(z3.ForAll([y], z3.Contains(r.t, z3.Unit(y)) == z3.Exists([self.ivar], z3.And(self._dom(), self.cond, k.lift(self.elt) == y)))))
        return r

    def iterate(self, it):
        raise OutOfSubset("iteration over a symbolic comprehension")


def _filter_seq(it, src, pred_of_elem, py):
    """[x for x in src if p(x)] for an SSeq source: fresh r with
    (forall y. y in r <=> y in src and p(y)), len(r) <= len(src)."""
    k = src.kind.elem
    r = KSeq(k, py).fresh("filt")
    y = z3.Const(fresh_name("y"), k.sort)
    p = pred_of_elem(k.wrap(y))
    it.ex.assume(r.as_set() == SSet(z3.SetIntersect(src.as_set().t, z3.Lambda([y], p)), KSet(k)))
    it.ex.assume(SBool(z3.Length(r.t) <= z3.Length(src.t)))
    # a filter keeps the length exactly when it drops nothing (what `if len(l) == len(src)` tests after a filtering comprehension)
    keeps_all = z3.ForAll([y], z3.Implies(z3.IsMember(y, src.as_set().t), p))
    it.ex.assume(SBool((z3.Length(r.t) == z3.Length(src.t)) == keeps_all))
    return r


def comprehension(it, e, frame, kind):
    gens = e.generators
    cframe = Frame(frame.closure, {}, frame)
    cframe.globals = frame.globals
    first = it.deopt(it.eval(gens[0].iter, frame))
    if hasattr(first, "quant_bind"):
        from . import cset
        return cset.quant_comprehension(it, e, frame, cframe, first, kind)
    view = as_view(it, first)
    if view is not None and isinstance(concrete_of(view.length_), int):
        first, view = view.iterate(it), None
    if view is not None:
        if len(gens) != 1 or kind == "dict":
            raise OutOfSubset("nested/dict comprehension over symbolic collection")
        g = gens[0]
        src = gen_items(it, first) if isinstance(first, GenResult) else first
        elt_is_var = isinstance(e.elt, ast.Name) and isinstance(g.target, ast.Name) and e.elt.id == g.target.id
        it.pure += 1
        try:
            src_set = src.val if isinstance(src, MutSet) else (src if isinstance(src, SSet) else None)
            if elt_is_var and src_set is not None:
                # [x for x in S if p(x)] over a symbolic set: the members of S satisfying p (quantifier-free: S intersected with lambda p)
                k = src_set.kind.elem
                y = z3.Const(fresh_name("y"), k.sort)
                cframe.locals[g.target.id] = k.wrap(y)
                terms = []
                for c in g.ifs:
                    t = it.truth_term(it.eval(c, cframe))
                    terms.append(z3.BoolVal(t) if isinstance(t, bool) else t)
                filt = SSet(z3.SetIntersect(src_set.t, z3.Lambda([y], z3.And(*terms) if terms else z3.BoolVal(True))), KSet(k))
                if kind == "set":
                    return MutSet(filt)
                r = KSeq(k, "list" if kind == "list" else "tuple").fresh("filt")
                it.ex.assume(r.as_set() == filt)
                return r if kind == "list" else GenResult([Chunk(r)])
            if elt_is_var and isinstance(src, SSeq):
                def pred(x):
                    cframe.locals[g.target.id] = x
                    terms = []
                    for c in g.ifs:
                        t = it.truth_term(it.eval(c, cframe))
                        terms.append(z3.BoolVal(t) if isinstance(t, bool) else t)
                    return z3.And(*terms) if terms else z3.BoolVal(True)
                py = "list" if kind == "list" else "tuple"
                if kind == "set":
                    return MutSet(_filter_seq(it, src, pred, "list").as_set())
                r = _filter_seq(it, src, pred, py)
                return r if kind == "list" else GenResult([Chunk(r)])
            ivar = z3.Int(fresh_name("ci"))
            it.assign(g.target, view.at(SInt(ivar)), cframe)
            terms = []
            for c in g.ifs:
                t = it.truth_term(it.eval(c, cframe))
                terms.append(z3.BoolVal(t) if isinstance(t, bool) else t)
            cond = z3.And(*terms) if terms else z3.BoolVal(True)
            elt = it.eval(e.elt, cframe)
        except _NeedPure:
            raise OutOfSubset("comprehension body over a symbolic collection needs forking")
        finally:
            it.pure -= 1
        # [f(x) for x in src] where f(x) is x itself (e.g. str() of a str): src
        if (isinstance(src, SSeq) and z3.is_true(z3.simplify(cond)) and isinstance(elt, Sym)
                and kind_of(elt) is src.kind.elem and z3.simplify(elt.t).eq(z3.simplify(src.t[ivar]))):
            same = SSeq(src.t, KSeq(src.kind.elem, "list"))
            if kind == "list":
                return same
            if kind == "set":
                return MutSet(same.as_set())
            return GenResult([Chunk(same)])
        if kind in ("list", "gen") and not g.ifs and not isinstance(elt, Sym) and kind_of(elt) is None:
            # [f(x) for x in src] with engine-side (non-term) elements, e.g. bound methods: a lazily indexed view of the same length
            def at(k, _g=g, _e=e, _view=view):
                fr = Frame(frame.closure, {}, frame)
                fr.globals = frame.globals
                it.assign(_g.target, _view.at(k), fr)
                return it.eval(_e.elt, fr)
            return IterView(view.length_, at, "comprehension")
        sc = SymComp(it, view, ivar, cond, elt, elt_is_var, kind)
        if kind == "gen":
            return sc
        if kind == "set":
            return MutSet(sc.as_set())
        return sc.as_seq("list")
    # concrete spine: run it
    out = []
    dict_out = {} if kind == "dict" else None

    def rec(i):
        if i == len(gens):
            if kind == "dict":
                setitem(it, dict_out, it.eval(e.key, cframe), it.eval(e.value, cframe))
            else:
                out.append(it.eval(e.elt, cframe))
            return
        g = gens[i]
        src = first if i == 0 else it.eval(g.iter, cframe)
        for x in iter_concrete(it, src):
            it.assign(g.target, x, cframe)
            if all(it.truth(it.eval(c, cframe)) for c in g.ifs):
                rec(i + 1)

    rec(0)
    if kind == "dict":
        return dict_out
    if kind == "list":
        return out
    if kind == "set":
        return make_set(it, out)
    return GenResult(out)


def _install_comp_consumers():
    b_any, b_all, b_tuple, b_list, b_set, b_fset = (MODELS[any], MODELS[all], MODELS[tuple], MODELS[list], MODELS[set], MODELS[frozenset])

    def m_any(it, v):
        return v.exists() if hasattr(v, "exists") else b_any(it, v)

    def m_all(it, v):
        return v.forall() if hasattr(v, "forall") else b_all(it, v)

    def m_tuple(it, v=()):
        return v.as_seq("tuple") if isinstance(v, SymComp) else b_tuple(it, v)

    def m_list(it, v=()):
        return v.as_seq("list") if isinstance(v, SymComp) else b_list(it, v)

    def m_set(it, v=()):
        return MutSet(v.as_set()) if isinstance(v, SymComp) else b_set(it, v)

    def m_fset(it, v=()):
        return MutSet(v.as_set(), True) if isinstance(v, SymComp) else b_fset(it, v)

    MODELS[any], MODELS[all], MODELS[tuple], MODELS[list], MODELS[set], MODELS[frozenset] = m_any, m_all, m_tuple, m_list, m_set, m_fset


_install_comp_consumers()
