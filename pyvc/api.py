"""What a contract file uses: Task, Outcome, call(), input builders."""
import time
import traceback

from . import extract, solve
from .explore import Explorer, PathEnd, Undecided, NeedFork
from .interp import Interp, PyRaise, Contract, LoopSpec, Closure, GenResult
from .sym import OutOfSubset, SymbolicTruth


class Outcome:
    def __init__(self, value=None, exc=None):
        self.value, self.exc = value, exc

    @property
    def raised(self):
        return self.exc is not None

    def raised_cls(self, cls):
        return self.exc is not None and issubclass(self.exc.cls, cls)


def call(it, f, *args, **kwargs):
    """Run f symbolically; python exceptions of the program become an Outcome."""
    try:
        return Outcome(value=it.call(f, args, kwargs))
    except PyRaise as e:
        it.ex.last_exc = f"{e.cls.__name__}: {e.exc!r}"[:300]
        return Outcome(exc=e)


class Task:
    """One exploration: `fn(ex)` builds symbolic inputs, runs the extracted code
    and states obligations.  `functions`: (relpath, qualname) under contract.

    bounded:  None for an unbounded proof task; a dict like {"unroll": 3, "note": "..."}
              for a bounded stand-in (never counted as proved).
    fallback: bounds to retry with when the unbounded run leaves the subset
              (e.g. an edit introduced a loop without invariant): only
              refutations of the fallback run matter, the task stays undecided.
    """

    def __init__(self, name, fn, functions=(), bounded=None, max_paths=None, fallback=None, enumerate=None, preset=None, group=None):
        self.name, self.fn, self.functions = name, fn, list(functions)
        self.bounded = bounded
        self.max_paths = max_paths
        self.fallback = fallback
        # enumerate(seed) -> {"name", "bound", "cases", "failures": [{"model", "detail"}]}: exhaustive native runs of the
        # real function over a small stated domain against the executable spec (bounded stand-in, never "proved")
        self.enumerate = enumerate
        self.preset = preset  # leading choose() results fixed for this sub-task (parallel split of one exploration)
        self.group = group    # name under which the sub-tasks are reported as one


def _explore(task, mode, deadline_s=None):
    ex = Explorer(task.name, max_paths=task.max_paths)
    ex.mode = mode
    ex.forced = list(task.preset or ())
    if task.fn is None:  # enumeration-only task (bounded stand-in)
        ex.wall = 0
        return ex, "ok", None
    if deadline_s:
        ex.deadline = time.time() + deadline_s
    status, error = "ok", None
    try:
        ex.run(task.fn)
    except Undecided as e:
        status, error = "undecided", str(e)
    except OutOfSubset as e:
        status, error = "out-of-subset", f"{e}\n{traceback.format_exc(limit=6)}"
    except NeedFork as e:
        status, error = "crash", f"engine: stray NeedFork {e}\n{traceback.format_exc(limit=8)}"
    except SymbolicTruth as e:
        status, error = "crash", f"engine: {e}\n{traceback.format_exc(limit=8)}"
    except RecursionError as e:
        status, error = "out-of-subset", f"recursion limit: {e}"
    except Exception as e:  # engine crash: exit 3, never a violation
        status, error = "crash", f"{type(e).__name__}: {e}\n{traceback.format_exc(limit=12)}"
    return ex, status, error


def _bound_text(b):
    if not b:
        return None
    if isinstance(b, str):
        return b
    return ", ".join(f"{k}<={v}" if k != "note" else str(v) for k, v in b.items())


def run_task(task):
    """Executed in a worker process.  Returns a plain dict."""
    t0 = time.time()
    extract.USED.clear()
    for k in solve.STATS:
        solve.STATS[k] = 0 if isinstance(solve.STATS[k], int) else 0.0
    ex, status, error = _explore(task, task.bounded)
    res = {"task": task.name, "group": task.group, "bounded": _bound_text(task.bounded), "status": status, "error": error}
    fallback_res = None
    if status == "out-of-subset" and task.fallback and not task.bounded:
        import os
        old = os.environ.get("PYVC_QUERY_TIMEOUT_S")
        os.environ["PYVC_QUERY_TIMEOUT_S"] = "4"  # the fallback only looks for refutations: short budget
        try:
            ex2, st2, err2 = _explore(task, task.fallback, deadline_s=90)
        finally:
            if old is None:
                os.environ.pop("PYVC_QUERY_TIMEOUT_S", None)
            else:
                os.environ["PYVC_QUERY_TIMEOUT_S"] = old
        fallback_res = {"bounded": "fallback after out-of-subset: " + _bound_text(task.fallback), "status": st2, "error": err2,
                        "obligations": [o.to_json() for o in ex2.obligations.values()], "paths": ex2.paths}
    res["obligations"] = [o.to_json() for o in ex.obligations.values()]
    res["fallback"] = fallback_res
    # bounded enumeration of the real function against the executable spec: a labelled stand-in,
    # used when the deductive run is undecided (and always in the thorough tier)
    res["enumeration"] = None
    import os
    # also when an obligation failed: the enumeration may supply the concrete failing input
    undec = status != "ok" or any(o.status in ("undecided", "failed") for o in ex.obligations.values())
    # (the enumerations are cheap and are run in both tiers, so that listed known findings they exercise are reported every run)
    if task.enumerate is not None:
        try:
            import json
            seed0 = int(os.environ.get("VERIF_SEED", "0") or 0)
            t_en = time.time()
            en = json.loads(json.dumps(task.enumerate(seed0), default=repr))  # plain data only: the result crosses a process boundary and goes into the evidence
            first = time.time() - t_en
            # thorough tier: the seeded part of every enumeration is repeated with further seeds within a time budget
            budget = float(os.environ.get("PYVC_THOROUGH_ENUM_S", "90"))
            extra = 0
            if os.environ.get("VERIF_TIER") == "thorough" and not en.get("failures") and first < budget / 3:
                while time.time() - t_en + first < budget and extra < 400 and not en["failures"]:
                    extra += 1
                    en2 = json.loads(json.dumps(task.enumerate(seed0 * 1000 + 7919 * extra), default=repr))
                    en["cases"] = en.get("cases", 0) + en2.get("cases", 0)
                    en["failures"] = en.get("failures", []) + en2.get("failures", [])
                    if en2.get("error"):
                        en["error"] = en2["error"]
                        break
                en["bound"] = str(en.get("bound", "")) + f"; thorough tier: the whole enumeration repeated with {extra} further seeds"
            res["enumeration"] = en
        except Exception as e:
            res["enumeration"] = {"name": task.name + ".bounded_enumeration", "bound": "crashed", "cases": 0, "failures": [],
                                  "error": f"{type(e).__name__}: {e}\n{traceback.format_exc(limit=6)}"}
    res["samples"] = {o.name: o.sample for o in list(ex.obligations.values())[:2] if o.sample}
    res["paths"] = ex.paths
    res["covers"] = ex.covers
    res["bounds_applied"] = ex.bounded
    res["functions"] = list(extract.USED.values())
    res["declared_functions"] = task.functions
    res["solver"] = dict(solve.STATS)
    res["wall_s"] = round(time.time() - t0, 3)
    res["notes"] = ex.notes
    return res
