"""What a contract file uses: Task, Outcome, call(), input builders."""
import time
import traceback

from . import extract, solve
from .explore import Explorer, PathEnd, Undecided
from .interp import Interp, PyRaise, Contract, LoopSpec, Closure, GenResult
from .sym import OutOfSubset, SymbolicTruth


class Outcome:
    def __init__(self, value=None, exc=None):
        self.value, self.exc = value, exc

    @property
    def raised(self):
        return self.exc is not None

    def raised_cls(self, cls):
        return self.exc is not None and issubclass(self.exc.cls, cls)


def call(it, f, *args, **kwargs):
    """Run f symbolically; python exceptions of the program become an Outcome."""
    try:
        return Outcome(value=it.call(f, args, kwargs))
    except PyRaise as e:
        return Outcome(exc=e)


class Task:
    """One exploration: `fn(ex)` builds symbolic inputs, runs the extracted code
    and states obligations.  `functions`: (relpath, qualname) under contract."""

    def __init__(self, name, fn, functions=(), bounded=None, max_paths=None, proves=True, timeout_s=None):
        self.name, self.fn, self.functions = name, fn, list(functions)
        self.bounded = bounded  # None = unbounded proof; else a description string of the bound
        self.max_paths = max_paths
        self.timeout_s = timeout_s


def run_task(task):
    """Executed in a worker process.  Returns a plain dict."""
    t0 = time.time()
    extract.USED.clear()
    for k in solve.STATS:
        solve.STATS[k] = 0 if isinstance(solve.STATS[k], int) else 0.0
    ex = Explorer(task.name, max_paths=task.max_paths)
    res = {"task": task.name, "bounded": task.bounded, "status": "ok", "error": None}
    interps = []

    def fn(ex_):
        return task.fn(ex_)

    try:
        ex.run(fn)
    except Undecided as e:
        res["status"], res["error"] = "undecided", str(e)
    except OutOfSubset as e:
        res["status"], res["error"] = "out-of-subset", f"{e}\n{traceback.format_exc(limit=6)}"
    except SymbolicTruth as e:
        res["status"], res["error"] = "crash", f"engine: {e}\n{traceback.format_exc(limit=8)}"
    except Exception as e:  # engine crash: exit 3, never a violation
        res["status"], res["error"] = "crash", f"{type(e).__name__}: {e}\n{traceback.format_exc(limit=12)}"
    res["obligations"] = [o.to_json() for o in ex.obligations.values()]
    res["samples"] = {o.name: o.sample for o in list(ex.obligations.values())[:2] if o.sample}
    res["paths"] = ex.paths
    res["covers"] = ex.covers
    res["bounds_applied"] = ex.bounded
    res["functions"] = list(extract.USED.values())
    res["declared_functions"] = task.functions
    res["solver"] = dict(solve.STATS)
    res["wall_s"] = round(time.time() - t0, 3)
    res["notes"] = ex.notes
    return res
