"""Symbolic values: thin Python wrappers around z3 terms.

A symbolic execution manipulates ordinary Python values whose *leaves* may be
symbolic (SInt, SBool, SStr, SSeq, SSet, SMap, SRef) and whose spine (tuples,
lists, dicts with concrete keys, SObj records) is concrete.  Python ints are
unbounded, so z3 `Int` is exact; strings are z3 Unicode strings.
"""
import itertools
import z3

_counter = itertools.count()


def fresh_name(base):
    return f"{base}!{next(_counter)}"


class SymbolicTruth(Exception):
    """bool() of a symbolic value outside the interpreter (engine misuse)."""


class OutOfSubset(Exception):
    """The construct is outside what the encoder models (verdict: undecided)."""


class Sym:
    t = None

    def __bool__(self):
        raise SymbolicTruth(f"truth value of symbolic {self!r} needs the interpreter")

    def __repr__(self):
        return f"<{type(self).__name__} {self.t}>"

    __hash__ = None


# ---------------------------------------------------------------- kinds ----
class Kind:
    """Describes how python values of one type map to a z3 sort."""

    def __init__(self, name, sort, wrap, lift):
        self.name, self.sort, self.wrap, self._lift = name, sort, wrap, lift

    def lift(self, v):
        """python or symbolic value -> z3 term of this sort, or None if the
        value cannot be of this kind (then == is False)."""
        return self._lift(v)

    def fresh(self, base):
        return self.wrap(z3.Const(fresh_name(base), self.sort))

    def __repr__(self):
        return f"K<{self.name}>"


def _lift_int(v):
    if isinstance(v, SInt):
        return v.t
    if isinstance(v, SBool):
        return z3.If(v.t, z3.IntVal(1), z3.IntVal(0))
    if isinstance(v, bool):
        return z3.IntVal(int(v))
    if isinstance(v, int):
        return z3.IntVal(v)
    return None


def _lift_bool(v):
    if isinstance(v, SBool):
        return v.t
    if isinstance(v, bool):
        return z3.BoolVal(v)
    return None


def _lift_str(v):
    if isinstance(v, SStr):
        return v.t
    if isinstance(v, str):
        return z3.StringVal(v)
    return None


KInt = Kind("int", z3.IntSort(), lambda t: SInt(t), _lift_int)
KBool = Kind("bool", z3.BoolSort(), lambda t: SBool(t), _lift_bool)
KStr = Kind("str", z3.StringSort(), lambda t: SStr(t), _lift_str)

_ref_kinds = {}


def KRef(name):
    """An uninterpreted sort: packages, restrictions, file handles..."""
    if name not in _ref_kinds:
        sort = z3.DeclareSort(name)

        def wrap(t, _n=name):
            return SRef(t, _ref_kinds[_n])

        def lift(v, _n=name):
            if isinstance(v, SRef) and v.kind.name == _n:
                return v.t
            return None

        _ref_kinds[name] = Kind(name, sort, wrap, lift)
    return _ref_kinds[name]


_seq_kinds = {}


def KSeq(elem, py="tuple"):
    key = (elem.name, py)
    if key not in _seq_kinds:
        sort = z3.SeqSort(elem.sort)
        k = Kind(f"{py}[{elem.name}]", sort, None, None)
        k.elem, k.py = elem, py
        k.wrap = lambda t, _k=k: SSeq(t, _k)

        def lift(v, _k=k):
            if isinstance(v, SSeq) and v.kind.elem.name == _k.elem.name and v.kind.py == _k.py:
                return v.t
            if isinstance(v, (tuple, list)) and type(v).__name__ == _k.py:
                parts = []
                for x in v:
                    e = _k.elem.lift(x)
                    if e is None:
                        return None
                    parts.append(z3.Unit(e))
                if not parts:
                    return z3.Empty(_k.sort)
                if len(parts) == 1:
                    return parts[0]
                return z3.Concat(*parts)
            return None

        k._lift = lift
        _seq_kinds[key] = k
    return _seq_kinds[key]


_set_kinds = {}


def KSet(elem, py="set"):
    key = (elem.name, py)
    if key not in _set_kinds:
        sort = z3.SetSort(elem.sort)
        k = Kind(f"{py}[{elem.name}]", sort, None, None)
        k.elem, k.py = elem, py
        k.wrap = lambda t, _k=k: SSet(t, _k)

        def lift(v, _k=k):
            if isinstance(v, SSet) and v.kind.elem.name == _k.elem.name:
                return v.t
            if isinstance(v, (set, frozenset)):
                t = z3.EmptySet(_k.elem.sort)
                for x in v:
                    e = _k.elem.lift(x)
                    if e is None:
                        return None
                    t = z3.SetAdd(t, e)
                return t
            return None

        k._lift = lift
        _set_kinds[key] = k
    return _set_kinds[key]


def kind_of(v):
    """Kind of a (symbolic or simple concrete) value, or None."""
    if isinstance(v, SInt):
        return KInt
    if isinstance(v, SBool):
        return KBool
    if isinstance(v, SStr):
        return KStr
    if isinstance(v, SBV):
        return KBV
    if isinstance(v, (SSeq, SSet, SRef)):
        return v.kind
    if isinstance(v, bool):
        return KBool
    if isinstance(v, int):
        return KInt
    if isinstance(v, str):
        return KStr
    return None


def wrap_term(t):
    s = t.sort()
    if s == z3.IntSort():
        return SInt(t)
    if s == z3.BoolSort():
        return SBool(t)
    if s == z3.StringSort():
        return SStr(t)
    raise OutOfSubset(f"cannot wrap term of sort {s}")


def simp(t):
    return z3.simplify(t)


def concrete_of(v):
    """If the symbolic value is actually a literal, return the python value."""
    if isinstance(v, SBool):
        s = simp(v.t)
        if z3.is_true(s):
            return True
        if z3.is_false(s):
            return False
    elif isinstance(v, SInt):
        s = simp(v.t)
        if z3.is_int_value(s):
            return s.as_long()
    elif isinstance(v, SStr):
        s = simp(v.t)
        if z3.is_string_value(s):
            return s.as_string()
    return v


# ------------------------------------------------------------- booleans ----
def B(v):
    """Coerce python bool / SBool to a z3 BoolRef."""
    if isinstance(v, SBool):
        return v.t
    if isinstance(v, bool):
        return z3.BoolVal(v)
    if isinstance(v, z3.BoolRef):
        return v
    raise OutOfSubset(f"not a boolean: {v!r}")


class SBool(Sym):
    def __init__(self, t):
        self.t = t

    def __and__(self, o):
        return SBool(z3.And(self.t, B(o)))

    __rand__ = __and__

    def __or__(self, o):
        return SBool(z3.Or(self.t, B(o)))

    __ror__ = __or__

    def __invert__(self):
        return SBool(z3.Not(self.t))

    def __xor__(self, o):
        return SBool(z3.Xor(self.t, B(o)))

    __rxor__ = __xor__

    def __eq__(self, o):
        return SBool(self.t == B(o))

    def __ne__(self, o):
        return SBool(self.t != B(o))

    def implies(self, o):
        return SBool(z3.Implies(self.t, B(o)))

    # python bools are ints in comparisons and arithmetic: False < True, (a > b) - (a < b)
    def __lt__(self, o):
        return SBool(_lift_int(self) < I(o))

    def __le__(self, o):
        return SBool(_lift_int(self) <= I(o))

    def __gt__(self, o):
        return SBool(_lift_int(self) > I(o))

    def __ge__(self, o):
        return SBool(_lift_int(self) >= I(o))

    def __sub__(self, o):
        return SInt(_lift_int(self) - I(o))

    def __rsub__(self, o):
        return SInt(I(o) - _lift_int(self))

    def __add__(self, o):
        return SInt(_lift_int(self) + I(o))

    __radd__ = __add__


def And(*xs):
    xs = [B(x) for x in xs]
    return SBool(z3.And(*xs)) if xs else SBool(z3.BoolVal(True))


def Or(*xs):
    xs = [B(x) for x in xs]
    return SBool(z3.Or(*xs)) if xs else SBool(z3.BoolVal(False))


def Not(x):
    return SBool(z3.Not(B(x)))


def Implies(a, b):
    return SBool(z3.Implies(B(a), B(b)))


def Ite(c, a, b):
    k = kind_of(a) or kind_of(b)
    if k is None:
        raise OutOfSubset("ite over non-simple values")
    return k.wrap(z3.If(B(c), k.lift(a), k.lift(b)))


# ------------------------------------------------------------- integers ----
def I(v):
    t = _lift_int(v)
    if t is None:
        raise OutOfSubset(f"not an int: {v!r}")
    return t


class SInt(Sym):
    def __init__(self, t):
        self.t = t

    def __add__(self, o):
        return SInt(self.t + I(o))

    def __radd__(self, o):
        return SInt(I(o) + self.t)

    def __sub__(self, o):
        return SInt(self.t - I(o))

    def __rsub__(self, o):
        return SInt(I(o) - self.t)

    def __mul__(self, o):
        return SInt(self.t * I(o))

    __rmul__ = __mul__

    def __neg__(self):
        return SInt(-self.t)

    def __floordiv__(self, o):
        # z3 int division is euclidean; python floors.  equal for positive divisor.
        o_t = I(o)
        return SInt(z3.If(o_t > 0, self.t / o_t, (-self.t) / (-o_t)))

    def __mod__(self, o):
        o_t = I(o)
        return SInt(self.t - o_t * z3.If(o_t > 0, self.t / o_t, (-self.t) / (-o_t)))

    def __lt__(self, o):
        return SBool(self.t < I(o))

    def __le__(self, o):
        return SBool(self.t <= I(o))

    def __gt__(self, o):
        return SBool(self.t > I(o))

    def __ge__(self, o):
        return SBool(self.t >= I(o))

    def __eq__(self, o):
        t = _lift_int(o)
        if t is None:
            return False
        return SBool(self.t == t)

    def __ne__(self, o):
        t = _lift_int(o)
        if t is None:
            return True
        return SBool(self.t != t)


# -------------------------------------------------------------- strings ----
def S(v):
    t = _lift_str(v)
    if t is None:
        raise OutOfSubset(f"not a str: {v!r}")
    return t


def _norm_index(i, n):
    """python index normalisation for slices: clamp into [0, n]."""
    if isinstance(i, int) and not isinstance(i, bool):
        if i >= 0:
            return z3.If(z3.IntVal(i) < n, z3.IntVal(i), n)
        return z3.If(n + i > 0, n + i, z3.IntVal(0))
    it = I(i)
    return z3.If(it < 0, z3.If(n + it > 0, n + it, z3.IntVal(0)), z3.If(it < n, it, n))


class SStr(Sym):
    def __init__(self, t):
        self.t = t

    def length(self):
        return SInt(z3.Length(self.t))

    def __add__(self, o):
        return SStr(z3.Concat(self.t, S(o)))

    def __radd__(self, o):
        return SStr(z3.Concat(S(o), self.t))

    def __eq__(self, o):
        t = _lift_str(o)
        if t is None:
            return False
        return SBool(self.t == t)

    def __ne__(self, o):
        t = _lift_str(o)
        if t is None:
            return True
        return SBool(self.t != t)

    def __lt__(self, o):
        return SBool(self.t < S(o))

    def __le__(self, o):
        return SBool(self.t <= S(o))

    def __gt__(self, o):
        return SBool(S(o) < self.t)

    def __ge__(self, o):
        return SBool(S(o) <= self.t)

    def startswith(self, p):
        if isinstance(p, tuple):
            return Or(*[self.startswith(x) for x in p])
        return SBool(z3.PrefixOf(S(p), self.t))

    def endswith(self, p):
        if isinstance(p, tuple):
            return Or(*[self.endswith(x) for x in p])
        return SBool(z3.SuffixOf(S(p), self.t))

    def contains(self, sub):
        return SBool(z3.Contains(self.t, S(sub)))

    def find(self, sub, start=0):
        return SInt(z3.IndexOf(self.t, S(sub), I(start)))

    def char_at(self, i):
        """s[i] for 0 <= i < len (bounds are the caller's obligation)."""
        return SStr(z3.SubString(self.t, I(i), 1))

    def slice(self, lo, hi):
        n = z3.Length(self.t)
        a = z3.IntVal(0) if lo is None else _norm_index(lo, n)
        b = n if hi is None else _norm_index(hi, n)
        return SStr(z3.SubString(self.t, a, z3.If(b - a > 0, b - a, z3.IntVal(0))))

    def replace_first(self, old, new):
        return SStr(z3.Replace(self.t, S(old), S(new)))

    def to_int(self):
        return SInt(z3.StrToInt(self.t))

    def in_re(self, regex):
        return SBool(z3.InRe(self.t, regex))


def str_of_int(v):
    """str(int) for a non-negative int (z3 int.to.str gives "" on negatives)."""
    t = I(v)
    return SStr(z3.If(t >= 0, z3.IntToStr(t), z3.Concat(z3.StringVal("-"), z3.IntToStr(-t))))


# ------------------------------------------------------------ sequences ----
class SSeq(Sym):
    def __init__(self, t, kind):
        self.t, self.kind = t, kind

    def length(self):
        return SInt(z3.Length(self.t))

    def at(self, i):
        from . import theory
        theory.note_at(self.t, I(i), self.kind.elem.sort)
        return self.kind.elem.wrap(self.t[I(i)])

    def contains(self, x):
        e = self.kind.elem.lift(x)
        if e is None:
            return False
        return SBool(z3.IsMember(e, self.as_set().t))

    def __add__(self, o):
        t = self.kind.lift(o)
        if t is None:
            raise OutOfSubset(f"cannot concatenate {self.kind} and {o!r}")
        return SSeq(z3.Concat(self.t, t), self.kind)

    def __radd__(self, o):
        t = self.kind.lift(o)
        if t is None:
            raise OutOfSubset(f"cannot concatenate {o!r} and {self.kind}")
        return SSeq(z3.Concat(t, self.t), self.kind)

    def __eq__(self, o):
        t = self.kind.lift(o)
        if t is None:
            return False
        return SBool(self.t == t)

    def __ne__(self, o):
        r = self.__eq__(o)
        return True if r is False else Not(r)

    def slice(self, lo, hi):
        n = z3.Length(self.t)
        a = z3.IntVal(0) if lo is None else _norm_index(lo, n)
        b = n if hi is None else _norm_index(hi, n)
        return SSeq(z3.Extract(self.t, a, z3.If(b - a > 0, b - a, z3.IntVal(0))), self.kind)

    def as_set(self, py="set"):
        """The set of elements (uninterpreted `elems` with its defining axiom
        instantiated by a quantifier; see Explorer.axioms)."""
        from . import theory
        return theory.elems(self, py)


# ----------------------------------------------------------------- sets ----
class SSet(Sym):
    def __init__(self, t, kind):
        self.t, self.kind = t, kind

    def _e(self, x):
        return self.kind.elem.lift(x)

    def contains(self, x):
        e = self._e(x)
        if e is None:
            return False
        return SBool(z3.IsMember(e, self.t))

    def _o(self, o):
        t = self.kind.lift(o)
        if t is None and isinstance(o, SSeq):
            t = o.as_set().t
        if t is None and isinstance(o, (tuple, list)):
            t = self.kind.lift(set(o)) if all(not isinstance(x, Sym) for x in o) else None
            if t is None:
                t = z3.EmptySet(self.kind.elem.sort)
                for x in o:
                    t = z3.SetAdd(t, self.kind.elem.lift(x))
        if t is None:
            raise OutOfSubset(f"set operand {o!r}")
        return t

    def union(self, o):
        return SSet(z3.SetUnion(self.t, self._o(o)), self.kind)

    def intersection(self, o):
        return SSet(z3.SetIntersect(self.t, self._o(o)), self.kind)

    def difference(self, o):
        return SSet(z3.SetDifference(self.t, self._o(o)), self.kind)

    def with_(self, x):
        return SSet(z3.SetAdd(self.t, self._e(x)), self.kind)

    def without(self, x):
        e = self._e(x)
        if e is None:
            return self
        return SSet(z3.SetDel(self.t, e), self.kind)

    def issubset(self, o):
        return SBool(z3.IsSubset(self.t, self._o(o)))

    def is_empty(self):
        return SBool(self.t == z3.EmptySet(self.kind.elem.sort))

    __or__ = union
    __and__ = intersection
    __sub__ = difference

    def __eq__(self, o):
        try:
            return SBool(self.t == self._o(o))
        except OutOfSubset:
            return False

    def __ne__(self, o):
        r = self.__eq__(o)
        return True if r is False else Not(r)


class MutSet:
    """A python `set` object whose content is symbolic: identity is concrete
    (aliases see each other's updates), content is an SSet term."""

    def __init__(self, val, frozen=False):
        self._val, self.frozen = val, frozen

    @property
    def val(self):
        return self._val

    @val.setter
    def val(self, new):
        # inside a merged `if` every write is conditional on the active guards
        from . import theory
        ex = theory.CURRENT
        if ex is not None and ex.guards and new is not self._val:
            old = self._val
            if old is None or new is None:
                from .explore import NeedFork
                raise NeedFork("set of unknown kind written inside a merged if")
            new = SSet(z3.If(ex.guard_term(), new.t, old.t), old.kind)
            jr = getattr(ex, "journal", None)
            if jr is not None:
                jr.append(lambda s=self, o=old: object.__setattr__(s, "_val", o))
        self._val = new

    def __repr__(self):
        return f"<MutSet {None if self._val is None else self._val.t}>"


# ------------------------------------------------------------ bit vectors --
BVW = 32


def BV(v):
    if isinstance(v, SBV):
        return v.t
    if isinstance(v, bool):
        return z3.BitVecVal(int(v), BVW)
    if isinstance(v, int):
        return z3.BitVecVal(v & ((1 << BVW) - 1), BVW)
    raise OutOfSubset(f"not a bit-vector operand: {v!r}")


class SBV(Sym):
    """A non-negative python int < 2**31 used with bit operations (file modes):
    32-bit vector; `~` and `&` agree with python's on that range."""

    def __init__(self, t):
        self.t = t

    def __and__(self, o):
        return SBV(self.t & BV(o))

    __rand__ = __and__

    def __or__(self, o):
        return SBV(self.t | BV(o))

    __ror__ = __or__

    def __xor__(self, o):
        return SBV(self.t ^ BV(o))

    __rxor__ = __xor__

    def __invert__(self):
        return SBV(~self.t)

    def __eq__(self, o):
        try:
            return SBool(self.t == BV(o))
        except OutOfSubset:
            return False

    def __ne__(self, o):
        r = self.__eq__(o)
        return True if r is False else Not(r)


KBV = Kind("mode", z3.BitVecSort(BVW), lambda t: SBV(t), lambda v: BV(v) if isinstance(v, (SBV, int)) and not isinstance(v, bool) else None)


# ------------------------------------------------------------ opaque refs --
class SRef(Sym):
    def __init__(self, t, kind):
        self.t, self.kind = t, kind

    def __eq__(self, o):
        t = self.kind.lift(o)
        if t is None:
            return False
        return SBool(self.t == t)

    def __ne__(self, o):
        r = self.__eq__(o)
        return True if r is False else Not(r)


# -------------------------------------------------------------- records ----
class SObj:
    """An object with a concrete class and concrete field *names*; field
    values are arbitrary (symbolic) values.  Identity is python identity."""

    def __init__(self, cls, fields=None):
        object.__setattr__(self, "cls", cls)
        object.__setattr__(self, "fields", dict(fields or {}))

    def __repr__(self):
        return f"<SObj {getattr(self.cls, '__name__', self.cls)} {self.fields}>"


class EngineValue:
    """marker: a value only the symbolic interpreter can handle (never passed to native code)."""


class Opt(EngineValue):
    """`None | T` with symbolic None-ness: isnone is a z3 BoolRef, val the value when not None."""

    def __init__(self, isnone, val):
        self.isnone, self.val = isnone, val

    def __repr__(self):
        return f"<Opt none={self.isnone} val={self.val!r}>"

    __hash__ = None


class SArr(Sym):
    """A sequence given by (length, index -> element array): the light-weight alternative to z3
    sequences for code that only indexes, stores and deletes (no concatenation/search)."""

    def __init__(self, n, arr, elem, py="list"):
        self.n, self.arr, self.elem, self.py = n, arr, elem, py
        self.t = arr

    def length(self):
        return SInt(self.n)

    def at(self, i):
        return self.elem.wrap(z3.Select(self.arr, I(i)))

    def set(self, idx_t, v):
        e = self.elem.lift(v)
        if e is None:
            raise OutOfSubset(f"list element {v!r} of a different kind")
        return SArr(self.n, z3.Store(self.arr, idx_t, e), self.elem, self.py)

    def delete(self, idx_t):
        j = z3.Int(fresh_name("j"))
        return SArr(self.n - 1, z3.Lambda([j], z3.If(j < idx_t, self.arr[j], self.arr[j + 1])), self.elem, self.py)

    def append(self, v):
        e = self.elem.lift(v)
        if e is None:
            raise OutOfSubset(f"list element {v!r} of a different kind")
        return SArr(self.n + 1, z3.Store(self.arr, self.n, e), self.elem, self.py)

    @staticmethod
    def fresh(name, elem, py="list"):
        n = z3.Int(fresh_name(name + "_len"))
        return SArr(n, z3.Const(fresh_name(name), z3.ArraySort(z3.IntSort(), elem.sort)), elem, py)

    def __eq__(self, o):
        raise OutOfSubset("equality of array-backed sequences")

    __hash__ = None


class MutList(EngineValue):
    """A python list whose content is a symbolic sequence (identity concrete, content an SSeq)."""

    def __init__(self, val):
        self._val = val

    @property
    def val(self):
        return self._val

    @val.setter
    def val(self, new):
        from . import theory
        ex = theory.CURRENT
        if ex is not None and ex.guards:
            from .explore import NeedFork
            raise NeedFork("list mutation inside a merged if")
        self._val = new

    def __repr__(self):
        return f"<MutList {self._val.t}>"

    __hash__ = None


class Maybe(EngineValue):
    """A dict entry (or attribute) that exists only under a condition (merged `if`)."""

    def __init__(self, present, val):
        self.present, self.val = present, val

    def __repr__(self):
        return f"<Maybe {self.present}: {self.val!r}>"

    __hash__ = None


def has_sym(v, _depth=0):
    """Does the value contain anything the native interpreter cannot handle?"""
    if isinstance(v, (Sym, SObj, MutSet, EngineValue)):
        return True
    if _depth > 6:
        return False
    if isinstance(v, (tuple, list, set, frozenset)):
        return any(has_sym(x, _depth + 1) for x in v)
    if isinstance(v, dict):
        return any(has_sym(k, _depth + 1) or has_sym(x, _depth + 1) for k, x in v.items())
    return False


# --------------------------------------------------- model concretisation --
def conc(v, model):
    """Evaluate a (symbolic) value in a z3 model to a plain python value."""
    if isinstance(v, SBool):
        return z3.is_true(model.eval(v.t, model_completion=True))
    if isinstance(v, SInt):
        return model.eval(v.t, model_completion=True).as_long()
    if isinstance(v, SStr):
        return model.eval(v.t, model_completion=True).as_string()
    if isinstance(v, SSeq):
        n = model.eval(z3.Length(v.t), model_completion=True).as_long()
        items = [conc(v.at(i), model) for i in range(n)]
        return tuple(items) if v.kind.py == "tuple" else items
    if isinstance(v, SSet):
        return _conc_set(v, model)
    if isinstance(v, MutSet):
        return set(conc(v.val, model)) if v.val is not None else set()
    if isinstance(v, MutList):
        return list(conc(v.val, model))
    if isinstance(v, SArr):
        n = model.eval(v.n, model_completion=True).as_long()
        return [conc(v.at(i), model) for i in range(max(0, min(n, 12)))]
    if isinstance(v, Opt):
        return None if z3.is_true(model.eval(v.isnone, model_completion=True)) else conc(v.val, model)
    if isinstance(v, Maybe):
        return conc(v.val, model) if z3.is_true(model.eval(v.present, model_completion=True)) else "<absent>"
    if isinstance(v, SRef):
        return f"{v.kind.name}:{model.eval(v.t, model_completion=True)}"
    if isinstance(v, SObj):
        return {"__class__": getattr(v.cls, "__name__", str(v.cls)),
                **{k: conc(x, model) for k, x in v.fields.items()}}
    if isinstance(v, tuple):
        return tuple(conc(x, model) for x in v)
    if isinstance(v, list):
        return [conc(x, model) for x in v]
    if isinstance(v, dict):
        return {k: conc(x, model) for k, x in v.items()}
    return v


def _conc_set(v, model):
    val = model.eval(v.t, model_completion=True)
    out = set()
    ek = v.kind.elem
    # decode store chains over a constant array
    cur = val
    seen_default = None
    stores = []
    while True:
        if z3.is_store(cur):
            stores.append((cur.arg(1), cur.arg(2)))
            cur = cur.arg(0)
        elif z3.is_const_array(cur):
            seen_default = z3.is_true(cur.arg(0))
            break
        else:
            break
    cands = [k for k, _ in stores]
    # plus every element constant of that sort mentioned in the model
    for d in model.decls():
        if d.arity() == 0 and d.range() == ek.sort:
            cands.append(model[d])
    for c in cands:
        if z3.is_true(model.eval(z3.IsMember(c, v.t), model_completion=True)):
            out.add(conc(ek.wrap(c), model))
    if seen_default:
        out.add("<...and every other value>")
    return out
