"""./check <Cnn> [--tier quick|thorough] [--replay path] -- runs the contracts of one property.

Exit codes: 0 held; 1 violation (VIOLATION line); 2 undecided / out of subset; 3 checker crash.
"""
import argparse
import importlib
import json
import multiprocessing as mp
import os
import sys
import time
import traceback

ROOT = os.path.dirname(os.path.dirname(os.path.abspath(__file__)))
OUT = os.environ.get("PYVC_OUT", ROOT)  # where evidence/ and replays/ are written (seed runs against scratch copies use their own)
sys.path.insert(0, ROOT)

GLOBAL_ASSUMPTIONS = [
    "the pyvc encoder (AST -> z3) is itself unverified; mitigations: CPython cross-check, seeded-fault self-test, cvc5 second opinion",
    "python ints are modelled as mathematical integers (exact for CPython); strings as sequences of code points",
    "str.isdigit/lower/isalnum are modelled for ASCII only",
    "generators are collected eagerly (no consumer-observable interleaving of side effects)",
    "dropped by extraction: docstrings, annotations, decorators (listed per function), logger.* calls, text of exception messages",
    "callees without a contract are inlined from their real source on disk; builtins/stdlib follow pyvc/models.py + pyvc/strtheory.py axioms (differential-tested against CPython by `./check selftest`)",
    "elements of a python sequence form a finite set; a z3 counter-model with an infinite set cannot be concretised and is reported as no-failing-input-found",
]


def load_known():
    p = os.path.join(ROOT, "known_findings.json")
    if not os.path.exists(p):
        return {"findings": [], "fixed": []}
    with open(p) as f:
        return json.load(f)


def _worker(args):
    modname, idx, env = args
    os.environ.update(env)
    sys.setrecursionlimit(20000)
    try:
        from pyvc.api import run_task
        mod = importlib.import_module(modname)
        task = mod.tasks()[idx]
        r = run_task(task)
        return r
    except BaseException as e:  # noqa
        return {"task": f"{modname}[{idx}]", "status": "crash", "error": traceback.format_exc(), "obligations": [],
                "paths": 0, "covers": {}, "functions": [], "solver": {}, "wall_s": 0, "bounded": None,
                "bounds_applied": [], "samples": {}, "declared_functions": [], "notes": []}


def run_property(prop, tier, seed, only=None, jobs=None):
    t0 = time.time()
    modname = f"contracts.{prop.lower()}"
    mod = importlib.import_module(modname)
    tasks = mod.tasks()
    idxs = [i for i, t in enumerate(tasks) if only is None or only in t.name]
    env = {"VERIF_TIER": tier, "VERIF_SEED": str(seed)}
    jobs = jobs or min(16, max(1, len(idxs)))
    budget = 1500 if tier == "thorough" else 600
    results = []
    if jobs == 1 or os.environ.get("PYVC_SERIAL"):
        for i in idxs:
            results.append(_worker((modname, i, env)))
    else:
        results = _run_parallel(modname, tasks, idxs, env, jobs, budget, t0)
    return mod, results, time.time() - t0


def _child(conn, args):
    try:
        if os.environ.get("PYVC_TEST_KILL_FIRST_ATTEMPT") == f"{args[1]}:{args[3]}":
            os.kill(os.getpid(), 11)      # self-test of the retry below
        conn.send(_worker(args[:3]))
    finally:
        conn.close()


def _run_parallel(modname, tasks, idxs, env, jobs, budget, t0):
    """one process per task (fork), at most `jobs` at a time.  A process that dies without handing back a result -- a solver library
    crashing under it -- is started again (three attempts); a multiprocessing.Pool would lose the task and wait for ever."""
    from multiprocessing.connection import wait
    ctx = mp.get_context("fork")
    pending, running, done, attempts, died = list(idxs), {}, {}, {i: 0 for i in idxs}, {}

    def blank(i, status, error):
        return {"task": tasks[i].name, "status": status, "error": error, "obligations": [], "paths": 0, "covers": {}, "functions": [], "solver": {},
                "wall_s": round(time.time() - t0, 1), "bounded": tasks[i].bounded, "bounds_applied": [], "samples": {}, "declared_functions": tasks[i].functions, "notes": []}
    while pending or running:
        while pending and len(running) < jobs:
            i = pending.pop(0)
            attempts[i] += 1
            parent, child = ctx.Pipe(duplex=False)
            p = ctx.Process(target=_child, args=(child, (modname, i, env, attempts[i])))
            p.start()
            child.close()
            running[i] = (p, parent)
        ready = wait([c for _p, c in running.values()], timeout=1.0)
        for i, (p, c) in list(running.items()):
            if c not in ready:
                continue
            try:
                r = c.recv()
            except (EOFError, OSError):
                r = None
            c.close()
            p.join(5)
            del running[i]
            if r is not None:
                if died.get(i):
                    r.setdefault("notes", []).append(f"the task's process died {died[i]} time(s) without a result and was run again")
                done[i] = r
            else:
                died[i] = died.get(i, 0) + 1
                sys.stderr.write(f"pyvc: the process of task {tasks[i].name} died without a result (exit code {p.exitcode}); attempt {attempts[i]} of 3\n")
                if attempts[i] < 3:
                    pending.append(i)
                else:
                    done[i] = blank(i, "crash", f"the task's process died three times without a result (last exit code {p.exitcode})")
        if time.time() - t0 > budget:
            for i, (p, c) in running.items():
                p.terminate()
                c.close()
                done[i] = blank(i, "undecided", f"task exceeded {budget}s")
            for i in pending:
                done[i] = blank(i, "undecided", f"not started within {budget}s")
            for p, _c in running.values():
                p.join(5)
            break
    return [done[i] for i in idxs]


_RANK = {"discharged": 0, "undecided": 1, "failed": 2}


def merge_results(results):
    """sub-tasks that split one exploration by its leading choices (Task.preset) report as one task"""
    out, groups = [], {}
    for r in results:
        g = r.get("group")
        if not g:
            out.append(r)
            continue
        if g not in groups:
            m = dict(r, task=g, obligations=[dict(o) for o in r["obligations"]], covers=dict(r.get("covers", {})),
                     functions=list(r.get("functions", [])), solver=dict(r.get("solver", {})))
            groups[g] = m
            out.append(m)
            continue
        m = groups[g]
        byname = {o["name"]: o for o in m["obligations"]}
        for o in r["obligations"]:
            if o["name"] not in byname:
                m["obligations"].append(dict(o))
                continue
            t = byname[o["name"]]
            t["paths"] += o["paths"]
            t["queries"] = t.get("queries", 0) + o.get("queries", 0)
            t["solver_s"] = round(t.get("solver_s", 0) + o.get("solver_s", 0), 3)
            t["backends"] = sorted(set(t.get("backends", [])) | set(o.get("backends", [])))
            if _RANK[o["status"]] > _RANK[t["status"]]:
                t["status"] = o["status"]
                for k in ("failure", "undecided_reason"):
                    if k in o:
                        t[k] = o[k]
        for k, v in r.get("covers", {}).items():
            m["covers"][k] = m["covers"].get(k, False) or v
        m["paths"] += r.get("paths", 0)
        for k, v in r.get("solver", {}).items():
            m["solver"][k] = m["solver"].get(k, 0) + v
        seen = {(f["file"], f["function"]) for f in m["functions"]}
        m["functions"] += [f for f in r.get("functions", []) if (f["file"], f["function"]) not in seen]
        if r["status"] != "ok" and m["status"] == "ok":
            m["status"], m["error"] = r["status"], r["error"]
        for k in ("fallback", "enumeration"):
            if not m.get(k) and r.get(k):
                m[k] = r[k]
    return out


def decide(prop, mod, results, tier, seed, wall):
    results = merge_results(results)
    # a split task whose merged result has failed/undecided obligations gets its bounded enumeration here
    # (the sub-task carrying it may not have been the one that failed)
    for r in results:
        if r.get("group") and not r.get("enumeration") and (
                r["status"] != "ok" or any(o["status"] in ("failed", "undecided") for o in r["obligations"])):
            for t in mod.tasks():
                if t.group == r["group"] and t.enumerate is not None:
                    try:
                        r["enumeration"] = json.loads(json.dumps(t.enumerate(seed), default=repr))
                    except Exception:
                        r["enumeration"] = {"name": r["group"] + ".bounded_enumeration", "bound": "crashed", "cases": 0,
                                            "failures": [], "error": traceback.format_exc(limit=6)}
                    break
    known = load_known()
    open_ids = {f["id"]: f for f in known.get("findings", []) if f.get("property") == prop}
    lines, exit_code = [], 0
    obligations, discharged = 0, 0
    ob_rows, violations, known_hits, undecided, bounded_rows = [], [], [], [], []
    functions = {}
    solver_s = 0.0
    crash = []
    replays_dir = os.path.join(OUT, "replays")
    for r in results:
        for f in r.get("functions", []):
            functions[(f["file"], f["function"])] = f
        solver_s += r.get("solver", {}).get("z3_s", 0) + r.get("solver", {}).get("cvc5_s", 0)
        if r["status"] == "crash":
            crash.append(r)
            continue
        if r["status"] in ("undecided", "out-of-subset"):
            undecided.append({"task": r["task"], "reason": r["status"], "detail": (r["error"] or "")[:1500]})
        for label, ok in r.get("covers", {}).items():
            if not ok:
                crash.append({"task": r["task"], "error": f"vacuity: cover point {label} unreachable under the contract's preconditions"})
        is_bounded = bool(r.get("bounded")) or bool(r.get("bounds_applied"))
        obs = list(r["obligations"])
        fb = r.get("fallback")
        if fb:
            # the unbounded run left the subset; only refutations of the bounded retry are used
            for o in fb["obligations"]:
                if o["status"] == "failed":
                    o = dict(o, fallback_bound=fb["bounded"])
                    obs = [x for x in obs if x["name"] != o["name"]] + [o]
        en = r.get("enumeration")
        if en:
            if en.get("error"):
                crash.append({"task": r["task"], "error": "bounded enumeration crashed: " + en["error"]})
            # failures that are listed known findings are reported as such (once each); the first one
            # that is not listed is the violation
            fresh = []
            for fl in en["failures"]:
                hit = None
                for kid, kf_ in open_ids.items():
                    if kf_.get("obligation") == en["name"] or en["name"] in kf_.get("also_obligations", ()):
                        w = getattr(mod, "WITNESSES", {}).get(kf_.get("witness"))
                        try:
                            if w is not None and w(fl["model"]):
                                hit = kf_
                                break
                        except Exception:
                            pass
                if hit is None:
                    fresh.append(fl)
                elif not any(h["id"] == hit["id"] for h in known_hits):
                    known_hits.append({"id": hit["id"], "obligation": en["name"], "what": hit["what"], "model": fl["model"],
                                       "replay": {"confirmed": True, "detail": fl["detail"]}})
                    lines.append(f"KNOWN-FINDING: property={prop} {hit['what']} [{hit['id']}; obligation {en['name']}]")
            st = "failed" if fresh else "discharged"
            f0 = fresh[0] if fresh else None
            obs.append({"name": en["name"], "kind": "bounded-enumeration", "deciding": True, "status": st, "paths": en["cases"],
                        "queries": 0, "solver_s": 0, "backends": ["cpython"], "enum_bound": en["bound"],
                        "failure": ({"model": f0["model"], "native": f0["detail"], "violated": f0["detail"], "decisions": None, "backend": "cpython"} if f0 else None)})
        for o in obs:
            row = dict(o, task=r["task"])
            if o.get("enum_bound"):
                row["bounded"] = "exhaustive native enumeration: " + o["enum_bound"]
                bounded_rows.append(row)
            elif is_bounded:
                row["bounded"] = r.get("bounded") or ", ".join(r.get("bounds_applied", []))
                bounded_rows.append(row)
            else:
                ob_rows.append(row)
            if not o.get("deciding", True):
                row["informational"] = True
                continue
            counted = not is_bounded and not o.get("enum_bound")
            # witnesses of listed known findings that still violate the obligation (its residual is proved separately)
            for h in o.get("known_hits", []):
                kf_ = open_ids.get(h["id"])
                if kf_ is not None and (kf_.get("obligation") == o["name"] or o["name"] in kf_.get("also_obligations", ())):
                    if not any(x["id"] == h["id"] for x in known_hits):
                        rep_ = {"confirmed": None, "detail": "no replay function"}
                        fn_ = _lookup(getattr(mod, "REPLAY", {}), o["name"])
                        if fn_ is not None and h.get("model") is not None:
                            try:
                                c_, d_ = fn_(h["model"])
                                rep_ = {"confirmed": bool(c_), "detail": d_}
                            except Exception:
                                rep_ = {"confirmed": False, "detail": "replay crashed"}
                        known_hits.append({"id": h["id"], "obligation": o["name"], "what": kf_["what"], "model": h.get("model"), "replay": rep_})
                        lines.append(f"KNOWN-FINDING: property={prop} {kf_['what']} [{h['id']}; obligation {o['name']}]")
                else:
                    # the contract names a finding that known_findings.json does not list: that is a violation
                    os.makedirs(replays_dir, exist_ok=True)
                    path_ = os.path.join(replays_dir, _fname(f"{o['name']}.{h['id']}"))
                    with open(path_, "w") as fh_:
                        json.dump({"property": prop, "obligation": o["name"], "model": h.get("model"),
                                   "note": f"violates the obligation inside witness {h['id']}, which known_findings.json does not list"}, fh_, indent=1, default=str)
                    lines.append(f"VIOLATION property={prop} replay={path_} no-failing-input-found")
                    violations.append({"obligation": o["name"], "replay": path_, "confirmed": None, "model": h.get("model")})
                    exit_code = 1
            if counted:
                obligations += 1
            if o["status"] == "discharged":
                if counted:
                    discharged += 1
            elif o["status"] == "undecided":
                undecided.append({"task": r["task"], "obligation": o["name"], "reason": o.get("undecided_reason", "unknown")})
            elif o["status"] == "failed":
                fail = o.get("failure") or {}
                rep = {"confirmed": None, "detail": "no replay function for this obligation"}
                fn = _lookup(getattr(mod, "REPLAY", {}), o["name"])
                if fail.get("native"):
                    rep = {"confirmed": True, "detail": fail["native"]}
                elif fn is not None and fail.get("model") is not None:
                    try:
                        c, d = fn(fail["model"])
                        rep = {"confirmed": bool(c), "detail": d}
                    except Exception:
                        rep = {"confirmed": False, "detail": "replay crashed: " + traceback.format_exc(limit=4)}
                # known finding?
                kf = None
                for kid, f in open_ids.items():
                    if f.get("obligation") == o["name"]:
                        w = getattr(mod, "WITNESSES", {}).get(f.get("witness"))
                        try:
                            if w is not None and fail.get("model") is not None and w(fail["model"]):
                                kf = f
                        except Exception:
                            kf = None
                if kf is not None:
                    known_hits.append({"id": kf["id"], "obligation": o["name"], "what": kf["what"], "model": fail.get("model"), "replay": rep})
                    lines.append(f"KNOWN-FINDING: property={prop} {kf['what']} [{kf['id']}; obligation {o['name']}]")
                    continue
                os.makedirs(replays_dir, exist_ok=True)
                path = os.path.join(replays_dir, _fname(o['name']))
                srcs = [f for f in r.get("functions", [])]
                with open(path, "w") as fh:
                    json.dump({"property": prop, "obligation": o["name"], "kind": o.get("kind"), "task": r["task"],
                               "functions": srcs, "model": fail.get("model"), "violated_condition": fail.get("violated"),
                               "path_decisions": fail.get("decisions"), "solver": fail.get("backend"),
                               "last_exception_on_path": fail.get("last_exception"),
                               "replay_on_real_code": rep, "bounded": row.get("bounded")}, fh, indent=1, default=str)
                suffix = "" if rep["confirmed"] else " no-failing-input-found"
                lines.append(f"VIOLATION property={prop} replay={path}{suffix}")
                violations.append({"obligation": o["name"], "replay": path, "confirmed": rep["confirmed"], "detail": rep["detail"], "model": fail.get("model")})
                exit_code = 1
    if crash:
        for c in crash:
            lines.append(f"CHECKER-ERROR property={prop} task={c.get('task')} {str(c.get('error'))[:3000]}")
        if exit_code == 0:
            exit_code = 3
    total_any = obligations + len([b for b in bounded_rows if b.get("deciding", True)])
    if total_any == 0 and exit_code == 0:
        lines.append(f"CHECKER-ERROR property={prop} zero obligations generated (vacuous run)")
        exit_code = 3
    if undecided and exit_code == 0:
        exit_code = 2
    for u in undecided:
        lines.append(f"UNDECIDED property={prop} obligation={u.get('obligation', u.get('task'))} reason={u['reason']} {(u.get('detail', '') or '').splitlines()[0][:400] if u.get('detail') else ''}")
    level = getattr(mod, "LEVEL", "proof")
    bounded_dis = len([b for b in bounded_rows if b["status"] == "discharged"])
    cov = {
        "obligations": obligations, "discharged": discharged,
        "checker_cmd": f"./check {prop} --tier {tier}",
        "trusted_base": GLOBAL_ASSUMPTIONS[:1] + list(getattr(mod, "TRUSTED", [])),
        "functions_under_contract": sorted(functions.values(), key=lambda f: (f["file"], f["function"])),
        "obligation_table": ob_rows,
        "bounded_standins": [{"obligation": b["name"], "bound": b["bounded"], "status": b["status"], "paths": b["paths"]} for b in bounded_rows],
        "bounded_standins_note": "bounded stand-ins are never counted in obligations/discharged",
        "solver_seconds": round(solver_s, 3),
        "paths_explored": sum(r.get("paths", 0) for r in results),
        "known_findings_hit": known_hits, "violation_details": violations,
        "undecided": undecided,
        "samples": _samples(results),
        "evaluations": sum(r.get("paths", 0) for r in results) + sum((r.get("enumeration") or {}).get("cases", 0) for r in results),
        "distinct_nontrivial": len({o["name"] for o in ob_rows + bounded_rows}),
        "rule": "one case = one named obligation (all paths of the extracted function); non-trivial = needed a solver or simplifier verdict",
    }
    if level != "proof" or obligations == 0:
        level = "other" if obligations == 0 else level
        cov["explanation"] = getattr(mod, "EXPLANATION", "") or (
            f"bounded stand-in only: {bounded_dis}/{len(bounded_rows)} bounded obligations held within their bounds; nothing is counted as proved")
        if obligations == 0:
            cov["obligations"] = cov["discharged"] = 0
            del cov["obligations"], cov["discharged"]
    ev = {"property_id": prop, "tier": tier, "seed": seed, "level": level, "coverage": cov,
          "assumptions": GLOBAL_ASSUMPTIONS + list(getattr(mod, "ASSUMPTIONS", [])),
          "wall_s": round(wall, 2), "violations": len(violations)}
    return ev, lines, exit_code


def _fname(name):
    """replay file name for an obligation: '/' replaced; long names cut with a digest so that they stay unique and below the 255-byte limit"""
    import hashlib
    import re
    n = re.sub(r"[^A-Za-z0-9._\-\[\]=+~,]", "_", name)  # no blanks or quotes: the VIOLATION line is `replay=<path>` followed by optional words
    if len(n.encode()) > 180:
        n = n.encode()[:150].decode(errors="ignore") + "~" + hashlib.sha1(name.encode()).hexdigest()[:12]
    return n + ".json"


def _lookup(table, name):
    best = None
    for k, v in table.items():
        if name.startswith(k) and (best is None or len(k) > len(best[0])):
            best = (k, v)
    return best[1] if best else None


def _samples(results):
    out = []
    for r in results:
        for name, smt in (r.get("samples") or {}).items():
            out.append({"obligation": name, "smtlib_head": smt[:700]})
            if len(out) >= 3:
                return out
    if not out:
        for r in results:
            for o in r["obligations"][:2]:
                out.append({"obligation": o["name"], "status": o["status"], "note": "closed by the simplifier on every path"})
    return out or [{"note": "no obligations"}]


def main(argv=None):
    ap = argparse.ArgumentParser()
    ap.add_argument("prop")
    ap.add_argument("--tier", default=os.environ.get("VERIF_TIER", "quick"))
    ap.add_argument("--only", default=None)
    ap.add_argument("--jobs", type=int, default=None)
    ap.add_argument("--replay", default=None)
    ap.add_argument("-v", action="store_true")
    a = ap.parse_args(argv)
    seed = int(os.environ.get("VERIF_SEED", "0") or 0)
    if a.prop == "selftest":
        from pyvc import selftest
        return selftest.main(a.tier, seed)
    prop = a.prop.upper()
    if a.replay:
        from pyvc import replaycmd
        return replaycmd.main(prop, a.replay)
    os.environ["VERIF_TIER"] = a.tier
    import glob
    for old in glob.glob(os.path.join(OUT, "replays", f"{prop}.*.json")):
        os.unlink(old)  # replay files of earlier runs of this property
    try:
        mod, results, wall = run_property(prop, a.tier, seed, a.only, a.jobs)
        ev, lines, code = decide(prop, mod, results, a.tier, seed, wall)
    except Exception:
        print(f"CHECKER-ERROR property={prop} {traceback.format_exc()}")
        return 3
    if a.only is None:
        os.makedirs(os.path.join(OUT, "evidence"), exist_ok=True)
        with open(os.path.join(OUT, "evidence", f"{prop}.json"), "w") as f:
            json.dump(ev, f, indent=1, default=str)
    for ln in lines:
        print(ln)
    c = ev["coverage"]
    print(f"{prop}: exit={code} obligations={c.get('obligations', 0)} discharged={c.get('discharged', 0)} "
          f"bounded={len(c['bounded_standins'])} paths={c['paths_explored']} solver_s={c['solver_seconds']} wall_s={ev['wall_s']}")
    if a.v:
        for o in c["obligation_table"] + [dict(b, name=b["obligation"]) for b in c["bounded_standins"]]:
            print("   ", o["status"], o["name"], o.get("backends", ""), o.get("solver_s", ""))
    return code


if __name__ == "__main__":
    sys.exit(main())
