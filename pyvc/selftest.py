"""`./check selftest`: keeps the trusted base of pyvc honest.

1. Differential test of the interpreter and of the builtin / string / container models against CPython: every function of
   pyvc/selftest_corpus.py is extracted from its file like a function of /repo and run symbolically on inputs that are
   fresh symbolic values *pinned by an assumption* to a sample; the obligation is that the symbolic result equals what CPython
   returns for that sample (same exception class if it raises).  A wrong model or a wrong AST rule fails the obligation.
2. Contract probes: for each pair f_ok / f_mut the engine must discharge the stated postcondition for f_ok and must report it
   as violated for f_mut (a verifier that proves everything, or nothing, is caught here).

exit 0: everything agrees; exit 3: a model disagrees with CPython or a probe gives the wrong verdict (checker error, never a
property violation); functions or samples that leave the modelled subset are counted and listed, not failed."""
import itertools
import json
import multiprocessing as mp
import os
import random
import sys
import time

import z3

CORPUS = os.path.join(os.path.dirname(os.path.abspath(__file__)), "selftest_corpus.py")
MOD = "pyvc.selftest_corpus"

# function -> (argument kinds, fixed samples)
INTS = [0, 1, -1, 2, 7, -13, 100, 255, 0o755, 0o4755]
STRS = ["", "a", "-", "ab", "a-b", "--x/", "/usr//lib/", "A1b2", "123", "007", "key:val:x", " pad ", "aaa", "x-1.2-r3", "+-a"]
INTLISTS = [[], [1], [1, 2], [2, 1, 2], [0, -1, 5, 5], [3, 101, 3], [-2, 0, 2, -2, 0]]
STRLISTS = [[], ["a"], ["a", "b"], ["b", "a", "b"], ["x-y", "z"], ["-a", "a", "-*", "b"], ["q", "zz", "q"]]
CASES = {
    "s_concat_slice": ("str str", None), "s_prefix_suffix": ("str str", None), "s_strip": ("str", None), "s_case_digit": ("str", None),
    "s_split_join": ("str", None), "s_partition": ("str", None), "s_replace_first": ("str", None), "s_replace_all": ("str", None), "s_find_index": ("str", None),
    "s_int_text": ("str", None), "s_format": ("str int", None), "s_lower_concrete_pieces": ("str", None),
    "s_index_chars": ("str", None), "s_compare_chain": ("int int int", None),
    "i_arith": ("int int", None), "i_minmax": ("int int int", None), "i_bits": ("mode", [(m,) for m in (0, 1, 0o644, 0o755, 0o4755, 0o2777, 0o100644)]),
    "i_loop_sum": ("int", [(n,) for n in (0, 1, 2, 5, 6)]),
    "q_basic": ("ints int", None), "q_comprehension": ("ints int", None), "q_enumerate_zip": ("ints ints", None), "q_accumulate": ("ints", None),
    "q_reversed": ("ints", None), "q_sum": ("ints int", None), "q_sorted": ("ints", None),
    "q_early_exit": ("ints int", None), "q_strings": ("strs str", None),
    "t_sets": ("strs strs str", None), "t_set_update": ("strs strs", None), "t_dict": ("strs str", None), "t_incremental": ("strs", None),
    "c_exceptions": ("ints int", None), "c_generator": ("ints", None), "c_nested_closure": ("int int", None),
    "c_unpack_ternary": ("tuple3", [((1, 2, 0),), ((5, 3, 9),), ((0, 0, 0),)]),
}
POOL = {"int": INTS, "str": STRS, "ints": INTLISTS, "strs": STRLISTS}


def samples(kinds, fixed, rnd, n):
    if fixed is not None:
        return list(fixed)
    ks = [k.rstrip("*") for k in kinds.split()]
    out = [tuple(rnd.choice(POOL[k]) for k in ks) for _ in range(n)]
    # a few systematic ones: every pool value in first position
    out += [tuple(v if i == 0 else POOL[k][(j + i) % len(POOL[k])] for i, k in enumerate(ks)) for j, v in enumerate(POOL[ks[0]])]
    seen, uniq = set(), []
    for s in out:
        key = json.dumps(s)
        if key not in seen:
            seen.add(key)
            uniq.append(s)
    return uniq


def _pin(ex, kind, value, name):
    from .sym import KInt, KStr, KSeq, SBool
    if kind == "int":
        x = KInt.fresh(name)
        ex.assume(x == value)
        return x
    if kind == "mode":
        from .sym import KBV
        x = KBV.fresh(name)
        ex.assume(x == value)
        return x
    if kind == "str":
        x = KStr.fresh(name)
        ex.assume(x == value)
        return x
    if kind in ("ints*", "strs*"):  # concrete spine, pinned symbolic elements
        return [_pin(ex, "int" if kind == "ints*" else "str", v, f"{name}_{i}") for i, v in enumerate(value)]
    if kind in ("ints", "strs"):
        k = KSeq(KInt if kind == "ints" else KStr, "list")
        x = k.fresh(name)
        lit = z3.Empty(k.sort)
        for v in value:
            lit = z3.Concat(lit, z3.Unit(z3.IntVal(v) if kind == "ints" else z3.StringVal(v)))
        ex.assume(SBool(x.t == lit))
        return x
    if kind == "tuple3":
        xs = []
        for i, v in enumerate(value):
            y = KInt.fresh(f"{name}{i}")
            ex.assume(y == v)
            xs.append(y)
        return tuple(xs)
    raise ValueError(kind)


def _agree(it, got, want):
    """engine value vs CPython value -> bool | SBool (raises OutOfSubset when not comparable)"""
    from . import models as M
    from .sym import SSeq, MutList, MutSet, SSet, And, OutOfSubset
    from .interp import GenResult
    got = it.deopt(got)
    if isinstance(got, GenResult):
        got = M.gen_items(it, got)
    if isinstance(want, (list, tuple)):
        if isinstance(got, (list, tuple)):
            if type(got) is not type(want) or len(got) != len(want):
                return False
            rs = [_agree(it, g, w) for g, w in zip(got, want)]
            if any(r is False for r in rs):
                return False
            rs = [r for r in rs if r is not True]
            return And(*rs) if rs else True
        if isinstance(got, MutList):
            got = got.val
        if isinstance(got, SSeq):
            if (got.kind.py == "tuple") != isinstance(want, tuple):
                return False
            items = M.iter_concrete(it, got)
            return _agree(it, type(want)(items), want)
        return False
    if isinstance(want, (set, frozenset)):
        return M.eq(it, got, want)
    r = M.eq(it, got, want)
    if r is True and type(it.deopt(got)) in (bool, int, str) and type(want) in (bool, int, str) and type(it.deopt(got)) is not type(want):
        return False  # True == 1 in python; the models must also agree on the type
    return r


def _diff_task(fname, kinds, sample):
    from .api import call, Interp
    from .sym import SBool, OutOfSubset
    import importlib
    native = getattr(importlib.import_module(MOD), fname)

    def fn(ex):
        it = Interp(ex, label=f"selftest.{fname}")
        args = [_pin(ex, k, v, f"a{i}") for i, (k, v) in enumerate(zip(kinds.split(), sample))]
        try:
            want, wexc = native(*[list(v) if isinstance(v, list) else v for v in sample]), None
        except Exception as e:
            want, wexc = None, type(e)
        out = call(it, it.target(CORPUS, fname, module=MOD), *args)
        if wexc is not None or out.raised:
            ex.oblige(f"{fname}{sample!r}.same_exception", wexc is not None and out.raised and issubclass(out.exc.cls, wexc),
                      kind="selftest")
            return
        r = _agree(it, out.value, want)
        ex.inputs["cpython"] = repr(want)
        ex.inputs["engine"] = repr(out.value)[:300]
        from .sym import Not
        ex.oblige(f"{fname}{sample!r}.same_result", r if not isinstance(r, bool) else bool(r), kind="selftest")
        # a model that leaves the result open (uninterpreted lower(), ...) is incomplete, not wrong; wrong is: it *excludes* CPython's result
        ex.oblige(f"{fname}{sample!r}.contradicts_cpython", (not r) if isinstance(r, bool) else Not(r), kind="selftest")
    return fn


# ------------------------------------------------------------------ probes ----
def _probe_tasks():
    from .api import Task, call, Interp, LoopSpec
    from .sym import KInt, KStr, KSeq, SBool, SInt, And, Or, Not, Implies

    def p_max_index(which):
        def fn(ex):
            xs = KSeq(KInt, "list").fresh("xs")
            ex.assume(xs.length() >= 1)

            def inv(L, k):
                j = z3.Int("j!inv")
                b = L.best.t if hasattr(L.best, "t") else z3.IntVal(L.best)
                return And(SBool(z3.And(b >= 0, b < z3.Length(xs.t))),
                           SBool(z3.ForAll([j], z3.Implies(z3.And(j >= 0, j < k.t if hasattr(k, "t") else j < k), xs.t[b] >= xs.t[j]))))
            it = Interp(ex, label=f"probe.{which}", loops={(which, 0): LoopSpec(inv)})
            out = call(it, it.target(CORPUS, which, module=MOD), xs)
            ex.oblige("probe.raises.nothing", not out.raised)
            if out.raised:
                return
            r = out.value.t if hasattr(out.value, "t") else z3.IntVal(out.value)
            j = z3.Int("j!post")
            ex.oblige("probe.ensures.index_of_a_maximum", SBool(z3.And(r >= 0, r < z3.Length(xs.t), z3.ForAll([j], z3.Implies(z3.And(j >= 0, j < z3.Length(xs.t)), xs.t[r] >= xs.t[j])))))
        return fn

    def p_clamp(which):
        def fn(ex):
            x, lo, hi = KInt.fresh("x"), KInt.fresh("lo"), KInt.fresh("hi")
            ex.assume(lo <= hi)
            it = Interp(ex, label=f"probe.{which}")
            out = call(it, it.target(CORPUS, which, module=MOD), x, lo, hi)
            ex.oblige("probe.raises.nothing", not out.raised)
            if out.raised:
                return
            r = out.value
            ex.oblige("probe.ensures.within_bounds_and_identity_inside", And(lo <= r, r <= hi, Implies(And(lo <= x, x <= hi), r == x)))
        return fn

    def p_strip(which):
        def fn(ex):
            s, p = KStr.fresh("s"), KStr.fresh("p")
            it = Interp(ex, label=f"probe.{which}")
            out = call(it, it.target(CORPUS, which, module=MOD), s, p)
            ex.oblige("probe.raises.nothing", not out.raised)
            if out.raised:
                return
            r = out.value
            ex.oblige("probe.ensures.prefix_plus_result_is_the_string", Implies(s.startswith(p), (p + r) == s))
        return fn

    def p_dedup(which):
        def fn(ex):
            xs = KSeq(KInt, "list").fresh("xs")
            ex.assume(xs.length() <= 4)
            it = Interp(ex, label=f"probe.{which}")
            out = call(it, it.target(CORPUS, which, module=MOD), xs)
            ex.oblige("probe.raises.nothing", not out.raised)
            if out.raised:
                return
            from . import models as M
            j = KInt.fresh("j")
            ex.assume(And(j >= 0, j < xs.length()))
            r = out.value
            ex.oblige("probe.ensures.keeps_every_value", M.contains(it, r, xs.at(j)))
        return fn
    out = []
    for base, mk, bounded in (("max_index", p_max_index, None), ("clamp", p_clamp, None), ("strip_prefix", p_strip, None), ("dedup", p_dedup, {"unroll": 5})):
        for suffix in ("ok", "mut"):
            out.append((f"{base}_{suffix}", suffix == "ok", Task(f"probe.{base}_{suffix}", mk(f"{base}_{suffix}"), [], bounded=bounded)))
    return out


def _run(job):
    kind, payload = job
    sys.setrecursionlimit(20000)
    from .api import Task, run_task
    if kind == "diff":
        fname, kinds, sample = payload
        res = run_task(Task(f"selftest.{fname}{sample!r}", _diff_task(fname, kinds, sample), [], bounded={"unroll": 12, "note": "inputs pinned to a sample"}))
        obs = res["obligations"]
        st = res["status"]
        if st in ("out-of-subset", "undecided"):
            return ("unmodelled", fname, sample, (res["error"] or "").splitlines()[0][:200])
        if st != "ok" or not obs:
            return ("crash", fname, sample, (res["error"] or "no obligation reached")[-600:])
        by = {o["name"].rsplit(".", 1)[1]: o for o in obs}
        if "same_exception" in by:
            o = by["same_exception"]
            return ("agree" if o["status"] == "discharged" else "disagree", fname, sample, json.dumps((o.get("failure") or {}).get("model") or {})[:400])
        same, contra = by.get("same_result"), by.get("contradicts_cpython")
        if same is None or contra is None:
            return ("crash", fname, sample, f"obligations {sorted(by)}")
        if contra["status"] == "discharged":
            return ("disagree", fname, sample, json.dumps((same.get("failure") or {}).get("model") or {})[:500])
        if same["status"] == "discharged":
            return ("agree", fname, sample, "")
        if same["status"] == "failed":
            return ("underdetermined", fname, sample, ((same.get("failure") or {}).get("violated") or "")[:200])
        return ("unmodelled", fname, sample, "solver undecided")
    name, expect_ok = payload
    task = {n: t for n, _, t in _probe_tasks()}[name]
    res = run_task(task)
    obs = res["obligations"]
    failed = [o["name"] for o in obs if o["status"] == "failed"]
    undec = [o["name"] for o in obs if o["status"] not in ("failed", "discharged")]
    if res["status"] != "ok":
        return ("probe-error", name, None, (res["error"] or "")[-400:])
    if expect_ok:
        return ("probe-ok" if not failed and not undec and obs else "probe-wrong", name, None, f"failed={failed} undecided={undec}")
    return ("probe-ok" if failed else "probe-wrong", name, None, f"failed={failed} undecided={undec}")


def main(tier="quick", seed=0):
    t0 = time.time()
    rnd = random.Random(seed)
    jobs = []
    for fname, (kinds, fixed) in CASES.items():
        for s in samples(kinds, fixed, rnd, 25 if tier == "thorough" else 6):
            jobs.append(("diff", (fname, kinds, s)))
            if "ints" in kinds or "strs" in kinds:
                jobs.append(("diff", (fname, kinds.replace("ints", "ints*").replace("strs", "strs*"), s)))
    for name, expect_ok, _ in _probe_tasks():
        jobs.append(("probe", (name, expect_ok)))
    ctx = mp.get_context("fork")
    with ctx.Pool(min(16, os.cpu_count() or 4), maxtasksperchild=20) as pool:
        results = pool.map(_run, jobs, chunksize=4)
    tally = {}
    for r in results:
        tally[r[0]] = tally.get(r[0], 0) + 1
    bad = [r for r in results if r[0] in ("disagree", "crash", "probe-wrong", "probe-error")]
    unm = sorted({(r[1], r[3]) for r in results if r[0] in ("unmodelled", "underdetermined")})
    for r in bad[:20]:
        print(f"SELFTEST-FAIL {r[0]} {r[1]} sample={r[2]!r} {r[3]}")
    for f, why in unm[:30]:
        print(f"selftest: outside the modelled subset: {f}: {why}")
    per_fn = {}
    for r in results:
        if r[0] in ("agree", "unmodelled", "disagree", "underdetermined"):
            d = per_fn.setdefault(r[1], {"agree": 0, "unmodelled": 0, "disagree": 0, "underdetermined": 0})
            d[r[0]] += 1
    out = {"tier": tier, "seed": seed, "tally": tally, "per_function": per_fn, "wall_s": round(time.time() - t0, 1)}
    root = os.environ.get("PYVC_OUT", os.path.dirname(os.path.dirname(os.path.abspath(__file__))))
    with open(os.path.join(root, "selftest_report.json"), "w") as f:
        json.dump(out, f, indent=1)
    print(f"selftest: {tally} wall_s={out['wall_s']}")
    if bad:
        print("CHECKER-ERROR selftest: the engine disagrees with CPython or a probe has the wrong verdict")
        return 3
    return 0
