"""pyvc -- a small contract-based deductive verifier for a subset of Python.

The verified text is re-extracted from /repo's working tree on every run
(pyvc.extract), executed symbolically (pyvc.interp) over z3 terms (pyvc.sym),
cut at loops by invariants and at calls by contracts from the sidecar files in
/verif/contracts, and every resulting verification condition is discharged by
z3 with cvc5 as second opinion (pyvc.solve).
"""
