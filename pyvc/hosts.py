"""Engine-side stand-ins for abstract arguments (maps, opaque callables)."""
import z3

from . import theory
from .models import ModelHost, Model, _raise, set_term
from .sym import SBool, SSet, SStr, KSet, KStr, OutOfSubset, fresh_name


class MapHost(ModelHost):
    """An arbitrary read-only mapping key -> value given by two uninterpreted
    functions has(k) and val(k)."""

    def __init__(self, name, key_kind, val_kind):
        self.name, self.kk, self.vk = name, key_kind, val_kind
        self.has_f = theory.ufun(f"{name}_has", key_kind.sort, z3.BoolSort())
        self.val_f = theory.ufun(f"{name}_val", key_kind.sort, val_kind.sort)

    def has(self, k):
        return SBool(self.has_f(self.kk.lift(k)))

    def val(self, k):
        return self.vk.wrap(self.val_f(self.kk.lift(k)))

    def contains(self, it, k):
        return self.has(k)

    def getitem(self, it, k):
        if not it.truth(self.has(k)):
            _raise(KeyError(k))
        return self.val(k)

    def getattr(self, it, name):
        if name == "get":
            def get(it_, k, default=None):
                if it_.truth(self.has(k)):
                    return self.val(k)
                return default
            return Model(get, f"{self.name}.get")
        raise OutOfSubset(f"mapping method {name}")
