"""Path exploration by deterministic replay, obligations, counter-models."""
import time
import z3
from . import solve, theory
from .sym import B, SBool, conc, simp


class PathEnd(Exception):
    """The current path stops here (infeasible, pruned, or cut at a loop head)."""


class Undecided(Exception):
    pass


class NeedFork(Exception):
    """Raised inside a merged `if` when merging is not possible; the interpreter
    undoes the attempt and forks instead."""


class Obligation:
    def __init__(self, name, kind="ensures", deciding=True):
        self.name, self.kind, self.deciding = name, kind, deciding
        self.paths = 0
        self.queries = 0
        self.seconds = 0.0
        self.backends = set()
        self.status = "discharged"  # discharged | failed | undecided
        self.failure = None  # dict(model inputs, path, note)
        self.unknown_note = None
        self.sample = None
        self.known_hits = []

    def to_json(self):
        d = {"name": self.name, "kind": self.kind, "deciding": self.deciding, "status": self.status,
             "paths": self.paths, "queries": self.queries, "solver_s": round(self.seconds, 3),
             "backends": sorted(self.backends)}
        if self.failure:
            d["failure"] = self.failure
        if self.unknown_note:
            d["undecided_reason"] = self.unknown_note
        if self.known_hits:
            d["known_hits"] = self.known_hits
        return d


class Explorer:
    """Runs `fn(ex)` once per path.  All nondeterminism goes through choose()/
    branch(), which replay a decision trail; the trail is advanced depth-first
    until every feasible combination has been run."""

    MAX_PATHS = 20000

    def __init__(self, name, max_paths=None):
        self.name = name
        self.trail = []  # [index, options]
        self.pos = 0
        self.pc = []
        self.axioms = []
        self.axiom_keys = set()
        self.obligations = {}
        self.paths = 0
        self.path_log = []
        self.notes = []
        self.covers = {}
        self.max_paths = max_paths or self.MAX_PATHS
        self.bounded = []  # bounds applied (bounded mode)
        self.inputs = {}
        self.guards = []  # conditions of merged ifs being executed
        self.feas_ms = 1500  # budget of one path-feasibility query

    # -- nondeterminism -----------------------------------------------------
    def _decide(self, compute_options):
        forced = getattr(self, "forced", None)
        if forced and self.forced_pos < len(forced):
            # this sub-task explores one fixed combination of the first decisions (parallel split)
            opts = compute_options()
            i = forced[self.forced_pos]
            self.forced_pos += 1
            if i >= len(opts):
                raise PathEnd("preset beyond the feasible options")
            return opts[i]
        if self.pos < len(self.trail):
            idx, opts = self.trail[self.pos]
        else:
            opts = compute_options()
            if not opts:
                raise PathEnd("infeasible")
            self.trail.append([0, opts])
            idx = 0
        self.pos += 1
        return opts[idx]

    def choose(self, n, label=None):
        if self.guards and n > 1:
            raise NeedFork("choose inside a merged if")
        return self._decide(lambda: list(range(n)))

    def guard_term(self):
        return z3.And(*self.guards) if self.guards else z3.BoolVal(True)

    def branch(self, cond):
        """Fork on a symbolic condition; returns the python bool for this path."""
        c = simp(B(cond))
        if z3.is_true(c):
            return True
        if z3.is_false(c):
            return False
        if self.guards:
            # inside a merged `if`: decide under pc and guards, never fork, never extend pc
            g = self.guard_term()
            if not solve.feasible(self.axioms + self.pc + [g, z3.Not(c)]):
                return True
            if not solve.feasible(self.axioms + self.pc + [g, c]):
                return False
            raise NeedFork("undetermined condition inside a merged if")

        def options():
            # only a definite `unsat` prunes a side; the budget is small because an infeasible side is
            # usually refuted at once while proving the other side satisfiable can be arbitrarily hard
            t = self.feas_ms
            if not solve.feasible(self.axioms + self.pc + [c], t):
                return [False]
            if not solve.feasible(self.axioms + self.pc + [z3.Not(c)], t):
                return [True]
            return [True, False]

        r = self._decide(options)
        self.pc.append(c if r else z3.Not(c))
        return r

    def assume(self, cond):
        c = simp(B(cond))
        if self.guards:
            c = simp(z3.Implies(self.guard_term(), c))
        if z3.is_false(c):
            raise PathEnd("assumption false")
        if not z3.is_true(c):
            self.pc.append(c)

    def prune(self, why=""):
        raise PathEnd(why)

    def is_feasible(self):
        return solve.feasible(self.axioms + self.pc)

    def must(self, cond):
        """Is cond valid on this path? (used for concrete-ising decisions)"""
        c = simp(B(cond))
        if z3.is_true(c):
            return True
        if z3.is_false(c):
            return False
        return not solve.feasible(self.axioms + self.pc + self.guards + [z3.Not(c)])

    # -- obligations -----------------------------------------------------------
    def oblige(self, name, cond, inputs=None, kind="ensures", deciding=True, note=None, _split=False, known=None):
        if known:
            # known findings (known_findings.json): the obligation is discharged *outside* the listed witnesses
            # (residual: cond or witness), so any other violation of it still fails; where a witness itself
            # still violates cond, the finding is reported as live
            c0 = B(cond) if not isinstance(cond, bool) else z3.BoolVal(cond)
            wit = [(kid, B(w) if not isinstance(w, bool) else z3.BoolVal(w)) for kid, w in known]
            ok = self.oblige(name, SBool(z3.Or(c0, *[w for _, w in wit])), inputs, kind, deciding, note)
            ob = self.obligations[name]
            for kid, w in wit:
                if any(h["id"] == kid for h in ob.known_hits):
                    continue
                v, m, _, _, _ = solve.check(self.axioms + self.pc + [z3.Not(c0), w], timeout_ms=5000, use_cvc5=False)
                if v == "sat":
                    ins = inputs if inputs is not None else self.inputs
                    try:
                        cm = {k: _jsonable(conc(x, m)) for k, x in ins.items()} if m is not None else None
                    except Exception as e:
                        cm = {"_concretisation_error": repr(e)}
                    ob.known_hits.append({"id": kid, "model": cm})
            return ok
        ob = self.obligations.get(name)
        if ob is None:
            ob = self.obligations[name] = Obligation(name, kind, deciding)
        ob.paths += 1
        if ob.status == "failed":
            return False  # one counterexample per obligation is enough
        if isinstance(cond, bool):
            c = z3.BoolVal(cond)
        else:
            c = simp(B(cond))
        if self.guards:
            c = simp(z3.Implies(self.guard_term(), c))
        if z3.is_true(c):
            ob.backends.add("simplifier")
            return True
        if z3.is_and(c) and not _split:
            # one query per conjunct: smaller, more stable queries
            ok = True
            for part in c.children():
                ob.paths -= 1
                ok = self.oblige(name, part, inputs, kind, deciding, note, _split=False) and ok
            ob.paths += 1
            return ok
        assertions = self.axioms + self.pc + [z3.Not(c)]
        if ob.sample is None:
            s = z3.Solver()
            s.add(*assertions)
            ob.sample = s.to_smt2()[:1500]
        verdict, model, dt, backend, _ = solve.check(assertions)
        ob.queries += 1
        ob.seconds += dt
        ob.backends.add(backend)
        if verdict == "unsat":
            return True
        if verdict in ("sat", "sat-nomodel"):
            ob.status = "failed"
            refs = getattr(self, "refinements", None)
            if refs:
                # counter-model refinement: ask again with the inputs' full type invariants and small sizes,
                # so that the model concretises to a well-formed input for the replay (the verdict is unchanged)
                v2, m2, dt2, b2, _ = solve.check(assertions + list(refs), timeout_ms=15000, use_cvc5=False)
                if v2 == "sat" and m2 is not None:
                    model = m2
            ins = inputs if inputs is not None else self.inputs
            cm = None
            if model is not None:
                try:
                    cm = {k: _jsonable(conc(v, model)) for k, v in ins.items()}
                except Exception as e:  # concretisation is best effort
                    cm = {"_concretisation_error": repr(e)}
            ob.failure = {"path": self.paths, "decisions": [o[i] if isinstance(o[i], (bool, int)) else str(o[i]) for i, o in self.trail[:self.pos]],
                          "model": cm, "note": note, "backend": backend, "last_exception": getattr(self, "last_exc", None),
                          "violated": str(c)[:600]}
            return False
        import os
        if os.environ.get("PYVC_DUMP"):
            s = z3.Solver()
            s.add(*assertions)
            with open(os.path.join(os.environ["PYVC_DUMP"], f"{name}.p{self.paths}.q{ob.queries}.smt2"), "w") as fh:
                fh.write(f"; decisions {[o[i] for i, o in self.trail[:self.pos]]}\n; goal {c}\n" + s.to_smt2())
        if ob.status != "failed":
            ob.status = "undecided"
            ob.unknown_note = f"solver answered unknown within {solve.tier_timeout_ms()} ms on path {self.paths} ({backend})"
        return False

    def cover(self, label):
        """Reachability witness (vacuity guard): the label was reached on a feasible path."""
        if label not in self.covers:
            self.covers[label] = False
        if not self.covers[label]:
            if solve.feasible(self.axioms + self.pc, timeout_ms=5000):
                self.covers[label] = True

    # -- driver -------------------------------------------------------------------
    def run(self, fn):
        t0 = time.time()
        while True:
            self.pos = 0
            self.pc = []
            self.inputs = {}
            self.guards = []
            self.axioms = []  # definitional axioms are re-stated by each path (they mention that path's fresh symbols)
            self.axiom_keys = set()
            self._elems_used, self._pending_at = False, []
            self.forced_pos = 0
            self.refinements = []
            prev = theory.CURRENT
            theory.CURRENT = self
            try:
                fn(self)
                self.path_log.append("end")
            except PathEnd as e:
                self.path_log.append(f"cut:{e}")
            finally:
                theory.CURRENT = prev
            self.paths += 1
            if getattr(self, "deadline", None) and time.time() > self.deadline:
                raise Undecided(f"{self.name}: exploration deadline reached after {self.paths} paths")
            if self.paths > self.max_paths:
                raise Undecided(f"{self.name}: more than {self.max_paths} paths")
            # advance trail
            del self.trail[self.pos:]
            while self.trail and self.trail[-1][0] == len(self.trail[-1][1]) - 1:
                self.trail.pop()
            if not self.trail:
                break
            self.trail[-1][0] += 1
        self.wall = time.time() - t0
        return self


def _jsonable(v):
    if isinstance(v, (str, int, bool, float)) or v is None:
        return v
    if isinstance(v, (tuple, list)):
        return [_jsonable(x) for x in v]
    if isinstance(v, (set, frozenset)):
        return {"__set__": sorted((_jsonable(x) for x in v), key=repr)}
    if isinstance(v, dict):
        return {str(k): _jsonable(x) for k, x in v.items()}
    return repr(v)
