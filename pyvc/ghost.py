"""Ghost effect trace and assumed contracts of file-system primitives (DESIGN 1.5).

Every primitive appends one Effect to `it.trace` and may fail (raise OSError)
nondeterministically when `faults=True`; "crash at any point" properties are
obligations over every prefix of the trace.
"""
import z3

from .models import ModelHost, Model
from .interp import PyRaise
from .sym import OutOfSubset, SBool


class Effect:
    def __init__(self, kind, **kw):
        self.kind = kind
        self.__dict__.update(kw)

    def __repr__(self):
        return f"Effect({self.kind}, {', '.join(f'{k}={v!r}' for k, v in self.__dict__.items() if k != 'kind')})"


class AtomicWriteFileModel(ModelHost):
    """snakeoil.fileutils.AtomicWriteFile (assumed contract): data goes to a
    sibling temp file; the target changes only in close(), by one rename;
    discard() removes the temp file.  write()/close() may fail."""

    def __init__(self, it, path, faults=True, **kw):
        self.it, self.path, self.faults = it, path, faults
        self.state = "open"
        self.kw = kw
        it.trace.append(Effect("awf_open", path=path, file=self, **kw))

    def _maybe_fail(self, what):
        if self.faults and self.it.ex.choose(2) == 1:
            self.it.trace.append(Effect("fault", at=what, file=self))
            raise PyRaise(OSError(f"injected failure in {what}"))

    def getattr(self, it, name):
        if name == "write":
            def write(it_, data):
                self._maybe_fail("write")
                it.trace.append(Effect("awf_write", data=data, file=self))
            return Model(write, "AtomicWriteFile.write")
        if name == "close":
            def close(it_):
                self._maybe_fail("close")
                self.state = "closed"
                it.trace.append(Effect("awf_close", file=self))
            return Model(close, "AtomicWriteFile.close")
        if name == "discard":
            def discard(it_):
                self.state = "discarded"
                it.trace.append(Effect("awf_discard", file=self))
            return Model(discard, "AtomicWriteFile.discard")
        if name == "writelines":
            def writelines(it_, lines):
                self._maybe_fail("writelines")
                it.trace.append(Effect("awf_write", data=lines, file=self))
            return Model(writelines, "AtomicWriteFile.writelines")
        raise OutOfSubset(f"AtomicWriteFile.{name}")


def awf_contract(faults=True, ctor_faults=True):
    """model to install for snakeoil.fileutils.AtomicWriteFile."""
    def ctor(it, path, *a, **kw):
        if ctor_faults and it.ex.choose(2) == 1:
            it.trace.append(Effect("fault", at="open"))
            raise PyRaise(OSError("injected failure opening the temp file"))
        return AtomicWriteFileModel(it, path, faults=faults, **kw)
    return ctor
