"""Models of builtins and of operations on symbolic values."""
import ast
import builtins
import inspect
import types
import typing
import z3

from .explore import NeedFork
from .sym import (SArr, MutList, EngineValue, Opt, Maybe, Sym, SBool, SInt, SStr, SSeq, SSet, SRef, SObj, MutSet, OutOfSubset, B, I, S, And, Or, Not, Ite,
                  has_sym, kind_of, concrete_of, KSet, KSeq, KStr, KInt, KBool, simp, str_of_int)


class Model(EngineValue):
    """A callable implemented by the engine: fn(interp, *args, **kw)."""

    def __init__(self, fn, name=None, pure=None):
        self.fn, self.name = fn, name or fn.__name__
        # the engine's own method models (this module) are aware of the guards of a merged `if`; a contract's models are not
        self.pure = (getattr(fn, "__module__", None) == __name__) if pure is None else pure

    def __repr__(self):
        return f"<Model {self.name}>"


class ModelHost(EngineValue):
    """Base for engine-side objects that interpreted code may hold (ghost files...).
    Whatever a contract's ghost object does not model is outside the subset (undecided), never a crash of the checker."""

    def truth_term(self, it):
        return True

    def _unmodelled(self, what):
        raise OutOfSubset(f"{what} of the ghost object {type(self).__name__} is not modelled by this contract")

    def getattr(self, it, name):
        self._unmodelled(f"attribute {name!r}")

    def len(self, it):
        self._unmodelled("len()")

    def getitem(self, it, k):
        self._unmodelled("subscript")

    def setitem(self, it, k, v):
        self._unmodelled("item assignment")

    def delitem(self, it, k):
        self._unmodelled("item deletion")

    def contains(self, it, x):
        self._unmodelled("membership test")

    def iterate(self, it):
        self._unmodelled("iteration")


def _raise(exc):
    from .interp import PyRaise
    raise PyRaise(exc)


# ------------------------------------------------------------ equality ----
def eq(it, a, b):
    """python == on possibly symbolic values -> bool | SBool."""
    if a is b and not isinstance(a, float):
        return True
    if isinstance(a, Opt) or isinstance(b, Opt):
        if isinstance(b, Opt) and not isinstance(a, Opt):
            a, b = b, a
        if b is None:
            return concrete_of(SBool(a.isnone))
        if isinstance(b, Opt):
            inner = eq(it, a.val, b.val) if (a.val is not None and b.val is not None) else True
            return concrete_of(Or(And(SBool(a.isnone), SBool(b.isnone)), And(Not(SBool(a.isnone)), Not(SBool(b.isnone)), inner)))
        inner = eq(it, a.val, b) if a.val is not None else False
        return concrete_of(And(Not(SBool(a.isnone)), inner))
    if isinstance(a, MutSet):
        a = a.val if a.val is not None else (set() if not isinstance(b, (MutSet, SSet)) else None)
    if isinstance(b, MutSet):
        b = b.val if b.val is not None else set()
    if a is None and isinstance(b, SSet):
        return b.is_empty()
    if isinstance(a, Sym):
        r = a.__eq__(b)
        if r is NotImplemented:
            return False
        return r
    if isinstance(b, Sym):
        r = b.__eq__(a)
        if r is NotImplemented:
            return False
        return r
    if isinstance(a, SObj) or isinstance(b, SObj):
        return obj_eq(it, a, b)
    if isinstance(a, (tuple, list)) and isinstance(b, (tuple, list)) and (has_sym(a) or has_sym(b)):
        if isinstance(a, tuple) != isinstance(b, tuple) or len(a) != len(b):
            return False
        parts = []
        for x, y in zip(a, b):
            r = eq(it, x, y)
            if r is False:
                return False
            if r is not True:
                parts.append(r)
        return And(*parts) if parts else True
    from .interp import GenResult
    if isinstance(a, GenResult) or isinstance(b, GenResult):
        return a is b
    try:
        return bool(a == b)
    except Exception:
        return a is b


def obj_eq(it, a, b):
    import dataclasses
    for x, y in ((a, b), (b, a)):
        if isinstance(x, SObj):
            m = inspect.getattr_static(x.cls, "__eq__", None)
            if isinstance(m, types.FunctionType) and m.__qualname__ != "__create_fn__.<locals>.__eq__":
                r = it.call(m, (x, y), {})
                if r is NotImplemented:
                    continue
                return r
            if dataclasses.is_dataclass(x.cls):
                if not isinstance(y, SObj) or y.cls is not x.cls:
                    if not isinstance(y, SObj) and type(y) is x.cls:
                        y = SObj(x.cls, {f.name: getattr(y, f.name) for f in dataclasses.fields(x.cls)})
                    else:
                        return False
                parts = []
                for f in dataclasses.fields(x.cls):
                    if not f.compare:
                        continue
                    r = eq(it, x.fields[f.name], y.fields[f.name])
                    if r is False:
                        return False
                    if r is not True:
                        parts.append(r)
                return And(*parts) if parts else True
            return x is y
    return a is b


def truthy(it, v):
    t = it.truth_term(v)
    return t if isinstance(t, bool) else SBool(t)


# ------------------------------------------------------------ operators ----
_BIN = {ast.Add: "__add__", ast.Sub: "__sub__", ast.Mult: "__mul__", ast.FloorDiv: "__floordiv__", ast.Mod: "__mod__",
        ast.BitOr: "__or__", ast.BitAnd: "__and__", ast.BitXor: "__xor__", ast.LShift: "__lshift__",
        ast.RShift: "__rshift__", ast.Div: "__truediv__", ast.Pow: "__pow__"}


def binop(it, op, a, b, inplace=False):
    name = _BIN[type(op)]
    a, b = it.deopt(a), it.deopt(b)
    if isinstance(a, MutSet) or isinstance(b, MutSet):
        return set_binop(it, op, a, b, inplace)
    if (isinstance(a, MutList) or isinstance(b, MutList)) and isinstance(op, ast.Add):
        # list + list builds a new list; `a += b` extends the list object a in place (aliases see it)
        sa = a.val if isinstance(a, MutList) else a
        sb = b.val if isinstance(b, MutList) else b
        if inplace and isinstance(a, MutList) and isinstance(sb, SSeq) and sb.kind.py != "list":
            sb = SSeq(sb.t, KSeq(sb.kind.elem, "list"))  # list += any iterable (list + tuple would be a TypeError)
        r = binop(it, op, sa, sb)
        if not isinstance(r, SSeq):
            raise OutOfSubset("list concatenation with a non-sequence")
        r = SSeq(r.t, KSeq(r.kind.elem, "list"))
        if inplace and isinstance(a, MutList):
            a.val = r
            return a
        return MutList(r)
    if isinstance(a, SObj):
        m = inspect.getattr_static(a.cls, name, None)
        if isinstance(m, types.FunctionType):
            return it.call(m, (a, b), {})
        raise OutOfSubset(f"binary {name} on {a}")
    if isinstance(op, ast.Mod) and isinstance(a, str) and has_sym(b):
        return percent_format(it, a, b)
    if isinstance(a, Sym) or isinstance(b, Sym):
        if isinstance(op, ast.Add) and isinstance(a, (tuple, list)) and isinstance(b, SSeq):
            return b.__radd__(a)
        if isinstance(a, Sym):
            m = getattr(a, name, None)
            if m is not None:
                r = m(b)
                if r is not NotImplemented:
                    return r
        rname = "__r" + name[2:]
        m = getattr(b, rname, None)
        if m is not None and isinstance(b, Sym):
            r = m(a)
            if r is not NotImplemented:
                return r
        raise OutOfSubset(f"binary {name} on {a!r}, {b!r}")
    if isinstance(b, SObj):
        m = inspect.getattr_static(b.cls, "__r" + name[2:], None)
        if isinstance(m, types.FunctionType):
            return it.call(m, (b, a), {})
    import operator
    fn = {ast.Add: operator.add, ast.Sub: operator.sub, ast.Mult: operator.mul, ast.FloorDiv: operator.floordiv,
          ast.Mod: operator.mod, ast.BitOr: operator.or_, ast.BitAnd: operator.and_, ast.BitXor: operator.xor,
          ast.LShift: operator.lshift, ast.RShift: operator.rshift, ast.Div: operator.truediv, ast.Pow: operator.pow}[type(op)]
    try:
        return fn(a, b)
    except Exception as e:
        _raise(e)


def percent_format(it, fmt, b):
    if isinstance(b, dict):
        import re
        out = ""
        pos = 0
        for m in re.finditer(r"%\((\w+)\)s|%%", fmt):
            lit = fmt[pos:m.start()]
            if "%" in lit:
                raise OutOfSubset("only %(name)s formatting is modelled")
            out = out + lit if not (isinstance(out, str) and out == "") else lit
            if m.group(0) == "%%":
                out = out + "%"
            else:
                if m.group(1) not in b:
                    _raise(KeyError(m.group(1)))
                out = out + str_(it, b[m.group(1)])
            pos = m.end()
        lit = fmt[pos:]
        if "%" in lit:
            raise OutOfSubset("only %(name)s formatting is modelled")
        return out + lit
    args = list(b) if isinstance(b, tuple) else [b]
    out = ""
    i = 0
    pieces = fmt.split("%s")
    if len(pieces) - 1 != len(args) or "%" in "".join(pieces).replace("%%", ""):
        raise OutOfSubset("only plain %s formatting is modelled")
    for j, p in enumerate(pieces):
        p = p.replace("%%", "%")
        out = out + p if not (isinstance(out, str) and out == "") else p
        if j < len(args):
            out = out + str_(it, args[j])
    return out


def set_term(it, v, like=None):
    """coerce v to SSet (or None for an empty set of unknown kind)."""
    if isinstance(v, MutSet):
        return v.val
    if isinstance(v, SSet):
        return v
    if isinstance(v, SSeq):
        return v.as_set()
    from .interp import GenResult
    if isinstance(v, GenResult):
        v = gen_items(it, v)
        if isinstance(v, SSeq):
            return v.as_set()
    if isinstance(v, (set, frozenset, tuple, list, dict)) or isinstance(v, type({}.keys())):
        items = list(v)
        if not items:
            return None
        k = None
        for x in items:
            k = kind_of(x)
            if k is not None:
                break
        if like is not None:
            k = like.kind.elem
        if k is None:
            raise OutOfSubset(f"set of {items[0]!r}")
        ks = KSet(k)
        t = z3.EmptySet(k.sort)
        for x in items:
            e = k.lift(x)
            if e is None:
                raise OutOfSubset(f"heterogeneous set element {x!r}")
            t = z3.SetAdd(t, e)
        return SSet(t, ks)
    raise OutOfSubset(f"not a set-like value: {v!r}")


def _both(it, a, b):
    ta = set_term(it, a)
    tb = set_term(it, b, like=ta)
    if ta is None and tb is not None:
        ta = set_term(it, a, like=tb) if not isinstance(a, MutSet) else None
    return ta, tb


def set_binop(it, op, a, b, inplace=False):
    ta, tb = _both(it, a, b)
    if isinstance(op, ast.BitOr):
        r = tb if ta is None else (ta if tb is None else ta.union(tb))
    elif isinstance(op, ast.BitAnd):
        r = None if (ta is None or tb is None) else ta.intersection(tb)
    elif isinstance(op, ast.Sub):
        r = None if ta is None else (ta if tb is None else ta.difference(tb))
    elif isinstance(op, ast.BitXor):
        if ta is None or tb is None:
            r = ta if tb is None else tb
        else:
            r = ta.difference(tb).union(tb.difference(ta))
    else:
        raise OutOfSubset("set operator")
    if inplace and isinstance(a, MutSet):
        a.val = r
        return a
    frozen = isinstance(a, MutSet) and a.frozen
    return MutSet(r, frozen=frozen)


def compare(it, op, a, b):
    if isinstance(op, ast.Eq):
        return eq(it, a, b)
    if isinstance(op, ast.NotEq):
        if isinstance(a, SObj):
            m = inspect.getattr_static(a.cls, "__ne__", None)
            if isinstance(m, types.FunctionType):
                return it.call(m, (a, b), {})
        r = eq(it, a, b)
        if isinstance(r, bool):
            return not r
        if not isinstance(r, SBool):
            r = truthy(it, r)
            if isinstance(r, bool):
                return not r
        return Not(r)
    if isinstance(op, ast.Is):
        return is_(a, b)
    if isinstance(op, ast.IsNot):
        r = is_(a, b)
        return (not r) if isinstance(r, bool) else Not(r)
    if isinstance(op, ast.In):
        return contains(it, b, a)
    if isinstance(op, ast.NotIn):
        r = contains(it, b, a)
        if isinstance(r, bool):
            return not r
        return Not(r)
    name = {ast.Lt: "__lt__", ast.LtE: "__le__", ast.Gt: "__gt__", ast.GtE: "__ge__"}[type(op)]
    refl = {"__lt__": "__gt__", "__le__": "__ge__", "__gt__": "__lt__", "__ge__": "__le__"}[name]
    a, b = it.deopt(a), it.deopt(b)
    if isinstance(a, SObj):
        m = inspect.getattr_static(a.cls, name, None)
        if isinstance(m, types.FunctionType):
            r = it.call(m, (a, b), {})
            if r is not NotImplemented:
                return r
    if isinstance(b, SObj):
        m = inspect.getattr_static(b.cls, refl, None)
        if isinstance(m, types.FunctionType):
            r = it.call(m, (b, a), {})
            if r is not NotImplemented:
                return r
    if isinstance(a, MutSet) or isinstance(b, MutSet):
        ta, tb = _both(it, a, b)
        if name == "__le__":
            return True if ta is None else (ta.is_empty() if tb is None else ta.issubset(tb))
        if name == "__ge__":
            return True if tb is None else (tb.is_empty() if ta is None else tb.issubset(ta))
        raise OutOfSubset("strict set comparison")
    if isinstance(a, Sym):
        try:
            r = getattr(a, name)(b)
        except OutOfSubset:
            r = NotImplemented
        if r is not NotImplemented:
            return r
    if isinstance(b, Sym):
        try:
            r = getattr(b, refl)(a)
        except OutOfSubset:
            r = NotImplemented
        if r is not NotImplemented:
            return r
    if isinstance(a, Sym) or isinstance(b, Sym):
        _raise(TypeError(f"ordering not supported between {type(a).__name__} and {type(b).__name__}"))
    if isinstance(a, SObj) or isinstance(b, SObj):
        raise OutOfSubset(f"ordering of {a!r} and {b!r}")
    if isinstance(a, tuple) and isinstance(b, tuple) and (has_sym(a) or has_sym(b)):
        return tuple_order(it, name, a, b)
    import operator
    try:
        return getattr(operator, name.strip("_"))(a, b)
    except Exception as e:
        _raise(e)


def tuple_order(it, name, a, b):
    """lexicographic comparison of concrete-spine tuples with symbolic leaves."""
    strict = name in ("__lt__", "__gt__")
    lt = name in ("__lt__", "__le__")
    if not a or not b:
        la, lb = len(a), len(b)
        return {"__lt__": la < lb, "__le__": la <= lb, "__gt__": la > lb, "__ge__": la >= lb}[name]
    x, y = a[0], b[0]
    e = eq(it, x, y)
    first = compare(it, ast.Lt() if lt else ast.Gt(), x, y)
    rest = tuple_order(it, name, a[1:], b[1:])
    eb = e if isinstance(e, SBool) else SBool(z3.BoolVal(bool(e)))
    fb = first if isinstance(first, SBool) else SBool(z3.BoolVal(bool(first)))
    rb = rest if isinstance(rest, SBool) else SBool(z3.BoolVal(bool(rest)))
    return concrete_of(Or(And(Not(eb), fb), And(eb, rb)))


def is_(a, b):
    if isinstance(a, Opt) or isinstance(b, Opt):
        if isinstance(b, Opt) and not isinstance(a, Opt):
            a, b = b, a
        if b is None:
            return concrete_of(SBool(a.isnone))
        if a is b:
            return True
        import enum
        if isinstance(b, enum.Enum) and isinstance(b, str) and isinstance(a.val, SStr):
            # an optional field of a string-valued enum type (type invariant: it holds a member of the enum or None): identical to a member
            # exactly when it is set and has that member's value
            return concrete_of(And(Not(SBool(a.isnone)), SBool(a.val.t == z3.StringVal(str(b.value)))))
        raise OutOfSubset("identity of optional values")
    if isinstance(a, Sym) or isinstance(b, Sym):
        if a is None or b is None:
            return False
        if isinstance(a, SRef) and isinstance(b, SRef):
            # identity is sameness of the reference, whatever == a contract's reference type defines (equal packages need not be identical)
            return SBool(a.t == b.t) if a.kind.name == b.kind.name else False
        if a is b:
            return True
        if isinstance(a, SBool) and isinstance(b, bool):
            return a == b
        if isinstance(b, SBool) and isinstance(a, bool):
            return b == a
        raise OutOfSubset(f"identity of symbolic values {a!r} is {b!r}")
    return a is b


def contains(it, container, x):
    if isinstance(container, MutSet):
        if container.val is None:
            return False
        return concrete_of(container.val.contains(x))
    if isinstance(container, (SSet, SSeq)):
        r = container.contains(x)
        return concrete_of(r) if isinstance(r, Sym) else r
    if isinstance(container, SStr):
        return container.contains(x)
    if isinstance(container, str) and isinstance(x, SStr):
        return SBool(z3.Contains(z3.StringVal(container), x.t))
    if isinstance(container, SObj):
        m = inspect.getattr_static(container.cls, "__contains__", None)
        if isinstance(m, types.FunctionType):
            return truthy(it, it.call(m, (container, x), {}))
        raise OutOfSubset(f"in {container}")
    if isinstance(container, ModelHost):
        return container.contains(it, x)
    from .interp import GenResult
    if isinstance(container, GenResult):
        container = gen_items(it, container)
        return contains(it, container, x)
    if has_sym(x) or has_sym(container):
        if isinstance(container, dict):
            container = list(container.keys())
        parts = []
        for e in container:
            r = eq(it, e, x)
            if r is True:
                return True
            if r is not False:
                parts.append(r if isinstance(r, SBool) else truthy(it, r))
        return concrete_of(Or(*parts)) if parts else False
    try:
        r = x in container
    except Exception as e:
        _raise(e)
    if r and isinstance(container, dict) and isinstance(container[x], Maybe):
        return concrete_of(SBool(container[x].present))
    return r


# ----------------------------------------------------------- subscripts ----
def _demaybe(it, v, key):
    if isinstance(v, Maybe):
        if not it.truth(SBool(v.present)):
            _raise(KeyError(key))
        return v.val
    return v


def _norm_idx(it, n, k):
    """index k into a sequence of length n (SInt): IndexError fork, then the non-negative index term"""
    kt = I(k)
    inb = And(SBool(kt < n.t), SBool(kt >= -n.t))
    if not it.truth(inb):
        _raise(IndexError("index out of range"))
    return kt if (isinstance(k, int) and k >= 0) else z3.If(kt < 0, n.t + kt, kt)


def getitem(it, o, k):
    o = it.deopt(o)
    if isinstance(o, MutList):
        o = o.val
    if isinstance(o, SArr):
        if isinstance(k, slice):
            raise OutOfSubset("slice of an array-backed list")
        return o.at(SInt(_norm_idx(it, o.length(), k)))
    if isinstance(o, (SStr, SSeq)):
        if isinstance(k, slice):
            if k.step is not None:
                raise OutOfSubset("slice step on symbolic sequence")
            return o.slice(k.start, k.stop)
        n = o.length()
        kt = I(k)
        inb = And(SBool(kt < n.t), SBool(kt >= -n.t))
        if not it.truth(inb):
            _raise(IndexError("index out of range"))
        idx = kt if (isinstance(k, int) and k >= 0) else z3.If(kt < 0, n.t + kt, kt)
        return o.char_at(SInt(idx)) if isinstance(o, SStr) else o.at(SInt(idx))
    if isinstance(o, SObj):
        m = inspect.getattr_static(o.cls, "__getitem__", None)
        if isinstance(m, types.FunctionType):
            return it.call(m, (o, k), {})
        raise OutOfSubset(f"subscript of {o}")
    if isinstance(o, ModelHost):
        return o.getitem(it, k)
    if isinstance(k, Sym):
        k2 = concrete_of(k)
        if isinstance(k2, Sym):
            if isinstance(o, (tuple, list)) and isinstance(k, SInt):
                # concrete spine, symbolic index: case split
                n = len(o)
                for i in range(n):
                    if it.truth(SBool(z3.Or(k.t == i, k.t == i - n))):
                        return o[i]
                _raise(IndexError("index out of range"))
            if isinstance(o, dict):
                ks = list(o)
                if ks and SYMKEYS not in o and all(isinstance(x, str) for x in ks) and isinstance(k, SStr) \
                        and all(isinstance(v, int) and not isinstance(v, bool) for v in o.values()):
                    # table lookup str -> int: one fork on membership, the value as an ite chain
                    if not it.truth(Or(*[k == x for x in ks])):
                        _raise(KeyError(k))
                    val = z3.IntVal(o[ks[-1]])
                    for x in reversed(ks[:-1]):
                        val = z3.If(k.t == z3.StringVal(x), z3.IntVal(o[x]), val)
                    return SInt(val)
                hit = dict_lookup_symbolic(it, o, k)
                if hit is not _NOHIT:
                    return hit
                _raise(KeyError(k))
            raise OutOfSubset(f"symbolic subscript {k!r} of {type(o).__name__}")
        k = k2
    try:
        return _demaybe(it, o[k], k)
    except Exception as e:
        _raise(e)


_NOHIT = object()


def dict_lookup_symbolic(it, o, k):
    """value stored under a key equal to the symbolic key k (entries stored under symbolic keys, latest first, then the concrete keys), or _NOHIT"""
    for kk, vv in reversed(o.get(SYMKEYS, [])):
        r = eq(it, kk, k)
        if r is True or (r is not False and it.truth(r)):
            return vv
    for kk in o:
        if kk is SYMKEYS:
            continue
        r = eq(it, kk, k)
        if r is True or (r is not False and it.truth(r)):
            return o[kk]
    return _NOHIT


def setitem(it, o, k, v):
    if isinstance(o, MutList):
        if isinstance(k, slice):
            raise OutOfSubset("slice assignment on a symbolic list")
        s = o.val
        idx = _norm_idx(it, s.length(), k)
        if isinstance(s, SArr):
            o.val = s.set(idx, v)
            return
        e = s.kind.elem.lift(v)
        if e is None:
            raise OutOfSubset(f"list element {v!r} of a different kind")
        n = z3.Length(s.t)
        o.val = SSeq(z3.Concat(z3.Extract(s.t, z3.IntVal(0), idx), z3.Unit(e), z3.Extract(s.t, idx + 1, n - idx - 1)), s.kind)
        return
    if it.ex.guards and isinstance(o, dict) and not isinstance(k, Sym):
        from .interp import _MISSING, merge_values
        old = o.get(k, _MISSING)
        g = it.ex.guard_term()
        if old is _MISSING:
            new = Maybe(z3.simplify(g), v)
        elif isinstance(old, Maybe):
            new = Maybe(z3.simplify(z3.Or(old.present, g)), merge_values(g, v, old.val))
        else:
            new = merge_values(g, v, old)
        it.journal.append(lambda o=o, k=k, old=old: (o.pop(k, None) if old is _MISSING else o.__setitem__(k, old)))
        o[k] = new
        return
    if it.ex.guards and not isinstance(o, (SObj, ModelHost)):
        raise NeedFork("container write inside a merged if")
    if isinstance(o, SObj):
        m = inspect.getattr_static(o.cls, "__setitem__", None)
        if isinstance(m, types.FunctionType):
            return it.call(m, (o, k, v), {})
        raise OutOfSubset(f"item assignment on {o}")
    if isinstance(o, ModelHost):
        return o.setitem(it, k, v)
    if isinstance(k, Sym):
        k2 = concrete_of(k)
        if isinstance(k2, Sym):
            if isinstance(o, dict):
                for kk in list(o):
                    r = eq(it, kk, k)
                    if r is True or (r is not False and it.truth(r)):
                        o[kk] = v
                        return
                # a new symbolic key: keep it in an association list under a marker
                o.setdefault(SYMKEYS, []).append((k, v))
                return
            raise OutOfSubset("symbolic key store")
        k = k2
    try:
        o[k] = v
    except Exception as e:
        _raise(e)


class _SymKeys:
    def __repr__(self):
        return "<symbolic keys>"


SYMKEYS = _SymKeys()


def delitem(it, o, k):
    if isinstance(o, MutList):
        if isinstance(k, slice):
            raise OutOfSubset("slice deletion on a symbolic list")
        s = o.val
        idx = _norm_idx(it, s.length(), k)
        if isinstance(s, SArr):
            o.val = s.delete(idx)
            return
        n = z3.Length(s.t)
        o.val = SSeq(z3.Concat(z3.Extract(s.t, z3.IntVal(0), idx), z3.Extract(s.t, idx + 1, n - idx - 1)), s.kind)
        return
    if isinstance(o, SObj):
        m = inspect.getattr_static(o.cls, "__delitem__", None)
        if isinstance(m, types.FunctionType):
            return it.call(m, (o, k), {})
    if isinstance(o, ModelHost):
        return o.delitem(it, k)
    if has_sym(k):
        raise OutOfSubset("del with symbolic key")
    try:
        del o[k]
    except Exception as e:
        _raise(e)


# ----------------------------------------------------------- iteration ----
def gen_items(it, g):
    """GenResult -> python list, or SSeq when it contains symbolic chunks."""
    from .interp import Chunk
    if not g.has_chunks():
        return list(g.items)
    seq = None
    for x in g.items:
        if isinstance(x, Chunk):
            part = x.seq
        else:
            k = None
            for y in g.items:
                if isinstance(y, Chunk):
                    k = y.seq.kind
            part = SSeq(z3.Unit(k.elem.lift(x)), k)
        seq = part if seq is None else seq + part
    return seq


def _literal_set_items(sv):
    """elements of a set term that denotes a finite set of constants (a python set that went through set operations), sorted; else None.
    Independent of how the term happens to be built: the constants occurring in it are the only candidates, membership of each
    is decided by simplification and the equality with the resulting literal is confirmed by the solver."""
    try:
        t = sv.t
        consts, todo, seen = {}, [t], set()
        while todo:
            e = todo.pop()
            if e.get_id() in seen:
                continue
            seen.add(e.get_id())
            if z3.is_string_value(e):
                consts[("s", e.as_string())] = e
            elif z3.is_int_value(e):
                consts[("i", e.as_long())] = e
            elif z3.is_app(e) and e.num_args() == 0 and not (z3.is_true(e) or z3.is_false(e)):
                if e.decl().kind() == z3.Z3_OP_UNINTERPRETED:
                    return None  # a free variable: not a literal
            todo.extend(e.children())
        members = []
        for (kind, val), c in consts.items():
            if c.sort() != t.sort().domain():
                continue
            m = z3.simplify(z3.Select(t, c))
            if z3.is_true(m):
                members.append((val, c))
            elif not z3.is_false(m):
                return None
        lit = z3.EmptySet(t.sort().domain())
        for _, c in members:
            lit = z3.SetAdd(lit, c)
        sol = z3.Solver()
        sol.set("timeout", 2000)
        sol.add(t != lit)
        if sol.check() != z3.unsat:
            return None
        return sorted((v for v, _ in members), key=repr)
    except Exception:
        return None


def iter_concrete(it, v):
    """Items of an iterable with a concrete spine (else OutOfSubset)."""
    from .interp import GenResult
    v = it.deopt(v)
    if isinstance(v, GenResult):
        v = gen_items(it, v)
    if isinstance(v, (tuple, list)):
        return list(v)
    if isinstance(v, (Opt, Maybe)):
        raise OutOfSubset("iteration over an optional value")
    if isinstance(v, SRef):
        h = getattr(it, "ref_unpack", {}).get(v.kind.name)
        if h is None:
            raise OutOfSubset(f"unpacking of opaque {v.kind.name}")
        return list(h(it, v))
    if isinstance(v, (SSeq, SSet, MutSet, SStr)):
        if isinstance(v, MutSet) and v.val is None:
            return []
        lit = _literal_set_items(v.val if isinstance(v, MutSet) else v) if isinstance(v, (MutSet, SSet)) else None
        if lit is not None:
            return lit
        raise OutOfSubset("iteration over a symbolic collection needs a loop contract")
    if isinstance(v, SObj):
        m = inspect.getattr_static(v.cls, "__iter__", None)
        if isinstance(m, types.FunctionType):
            return iter_concrete(it, it.call(m, (v,), {}))
        raise OutOfSubset(f"iteration over {v}")
    if isinstance(v, ModelHost):
        return v.iterate(it)
    if isinstance(v, dict):
        if SYMKEYS in v:
            raise OutOfSubset("iteration over dict with symbolic keys")
        return list(v)
    try:
        return list(v)
    except Exception as e:
        _raise(e)


def make_set(it, items, frozen=False):
    items = list(items)
    if not items:
        return MutSet(None, frozen)
    if not has_sym(items):
        try:
            return frozenset(items) if frozen else set(items)  # a literal set of constants stays a python set
        except TypeError:
            pass
    return MutSet(set_term(it, items), frozen)


def new_dict(it):
    return {}


def dict_items(it, d):
    if isinstance(d, dict):
        return [(k, v) for k, v in d.items() if k is not SYMKEYS]
    raise OutOfSubset("** of non-dict")


# -------------------------------------------------------------- str/repr ----
def str_(it, v):
    v = it.deopt(v)
    if isinstance(v, SStr):
        return v
    if isinstance(v, SInt):
        if it is not None and it.ex.must(SBool(v.t >= 0)):
            return SStr(z3.IntToStr(v.t))  # non-negative on this path: no sign case
        return str_of_int(v)
    if isinstance(v, SBool):
        return SStr(z3.If(v.t, z3.StringVal("True"), z3.StringVal("False")))
    if isinstance(v, SObj):
        m = inspect.getattr_static(v.cls, "__str__", None)
        if isinstance(m, types.FunctionType):
            return it.call(m, (v,), {})
        return OpaqueText(v)
    if isinstance(v, SRef):
        from . import theory
        return SStr(theory.ufun(f"str_of_{v.kind.name}", v.kind.sort, z3.StringSort())(v.t))
    if isinstance(v, Sym):
        return OpaqueText(v)
    if has_sym(v):
        return OpaqueText(v)
    return str(v)


def repr_(it, v):
    if has_sym(v):
        return OpaqueText(v)
    return repr(v)


def OpaqueText(v):
    """Text whose content the contracts never look at (messages)."""
    from .sym import fresh_name
    return SStr(z3.String(fresh_name("text")))


# ------------------------------------------------------- context managers --
def ctx_enter(it, cm):
    if isinstance(cm, ModelHost):
        return cm.enter(it)
    if isinstance(cm, SObj):
        m = inspect.getattr_static(cm.cls, "__enter__", None)
        if isinstance(m, types.FunctionType):
            return it.call(m, (cm,), {})
    if hasattr(cm, "__enter__") and not has_sym(cm):
        return cm.__enter__()
    raise OutOfSubset(f"with {cm!r}")


def ctx_exit(it, cm, pr):
    if isinstance(cm, ModelHost):
        return cm.exit(it, pr)
    if isinstance(cm, SObj):
        m = inspect.getattr_static(cm.cls, "__exit__", None)
        if isinstance(m, types.FunctionType):
            a = (None, None, None) if pr is None else (pr.cls, pr.exc, None)
            return it.truth(it.call(m, (cm,) + a, {}))
    if pr is None:
        return cm.__exit__(None, None, None)
    exc = pr.exc if isinstance(pr.exc, BaseException) else Exception("symbolic")
    return cm.__exit__(type(exc), exc, None)


# ------------------------------------------------------------ attributes ----
STR_METHODS = {}
SET_METHODS = {}
SEQ_METHODS = {}


def method(table, name):
    def deco(fn):
        table[name] = fn
        return fn
    return deco


_MUTATORS = {"append", "extend", "insert", "pop", "remove", "clear", "update", "setdefault", "add", "discard", "sort",
             "reverse", "popitem", "difference_update", "intersection_update", "appendleft", "popleft"}


def getattr_(it, o, name):
    from .interp import BoundMethod, Closure, GenResult
    o = it.deopt(o)
    if it.ex.guards and name in _MUTATORS and not isinstance(o, SObj):
        raise NeedFork("container mutation inside a merged if")
    if isinstance(o, SObj):
        if name in o.fields:
            return o.fields[name]
        if name == "__class__":
            return o.cls
        if name == "__dict__":
            return o.fields
        try:
            d = inspect.getattr_static(o.cls, name)
        except AttributeError:
            ga = inspect.getattr_static(o.cls, "__getattr__", None)
            if isinstance(ga, types.FunctionType):
                return it.call(ga, (o, name), {})
            _raise(AttributeError(name))
        return bind_descriptor(it, o, d, name)
    if isinstance(o, SStr):
        if name in STR_METHODS:
            return Model(lambda it_, *a, _f=STR_METHODS[name], **k: _f(it_, o, *a, **k), f"str.{name}")
        raise OutOfSubset(f"str.{name} on symbolic string")
    if isinstance(o, (MutSet, SSet)):
        if name in SET_METHODS:
            return Model(lambda it_, *a, _f=SET_METHODS[name], **k: _f(it_, o, *a, **k), f"set.{name}")
        raise OutOfSubset(f"set.{name} on symbolic set")
    if isinstance(o, SSeq):
        if name in SEQ_METHODS:
            return Model(lambda it_, *a, _f=SEQ_METHODS[name], **k: _f(it_, o, *a, **k), f"seq.{name}")
        raise OutOfSubset(f"{o.kind.py}.{name} on symbolic sequence")
    if isinstance(o, SRef):
        from . import theory
        h = it.ref_attrs.get((o.kind.name, name)) if hasattr(it, "ref_attrs") else None
        if h is None:
            raise OutOfSubset(f"attribute {name} of opaque {o.kind.name}")
        return h(it, o)
    if isinstance(o, ModelHost):
        return o.getattr(it, name)
    if isinstance(o, GenResult):
        raise OutOfSubset(f"generator attribute {name}")
    if isinstance(o, str) and name in STR_METHODS and False:
        pass
    if isinstance(o, MutList):
        if name in LIST_METHODS:
            return Model(lambda it_, *a, _f=LIST_METHODS[name], **k: _f(it_, o, *a, **k), f"list.{name}")
        raise OutOfSubset(f"list.{name} on symbolic list")
    om = getattr(it, "obj_models", None)
    if om:
        m = om.get(id(o), {}).get(name)
        if m is not None:
            return m
    try:
        v = getattr(o, name)
    except Exception as e:
        _raise(e)
    # methods of concrete str/containers called with symbolic args
    if isinstance(o, (bytes, str)) and name == "join":
        # sep.join(<engine-side sequence>) is answered by the sequence (ghost byte strings etc.)
        _nat = v
        return Model(lambda it_, arg, _o=o: (arg.joined(it_, _o) if hasattr(arg, "joined") else
                                             (STR_METHODS["join"](it_, SStr(z3.StringVal(_o)), arg) if isinstance(_o, str) and has_sym(arg)
                                              else _native(it_, _nat, (arg,), {}))), "join")
    if isinstance(o, str) and name in STR_METHODS:
        return Model(lambda it_, *a, _f=STR_METHODS[name], _n=name, **k:
                     (_f(it_, SStr(z3.StringVal(o)), *a, **k) if (has_sym(a) or has_sym(k)) else _native(it_, getattr(o, _n), a, k)),
                     f"str.{name}")
    if isinstance(o, (set, frozenset)) and name in SET_METHODS:
        return Model(lambda it_, *a, _n=name, **k:
                     (SET_METHODS[_n](it_, MutSet(set_term(it_, o, like=set_term(it_, a[0]) if a else None), isinstance(o, frozenset)), *a, **k)
                      if has_sym(a) else _native(it_, getattr(o, _n), a, k)), f"set.{name}")
    return v


def _native(it, f, a, k):
    return it.native(f, a, k)


def bind_descriptor(it, o, d, name):
    from .interp import BoundMethod
    if isinstance(d, types.FunctionType):
        return BoundMethod(o, d)
    if isinstance(d, property):
        return it.call(d.fget, (o,), {})
    if isinstance(d, classmethod):
        return BoundMethod(o.cls, d.__func__)
    if isinstance(d, staticmethod):
        return d.__func__
    if isinstance(d, types.MemberDescriptorType):  # __slots__ entry not set
        _raise(AttributeError(name))
    # snakeoil jit attrs and similar: descriptor objects with a python __get__
    g = inspect.getattr_static(type(d), "__get__", None)
    if g is not None and not isinstance(d, (int, str, tuple, frozenset, type(None), bool, float, dict, list, set)):
        h = it.descriptor_hook(o, d, name) if hasattr(it, "descriptor_hook") else NotImplemented
        if h is not NotImplemented:
            return h
        if isinstance(g, types.FunctionType):
            return it.call(g, (d, o, o.cls), {})
        raise OutOfSubset(f"descriptor {type(d).__name__} for {name}")
    return d


# --------------------------------------------------------------- builtins ----
MODELS = {}


def model(*targets):
    def deco(fn):
        for t in targets:
            MODELS[t] = fn
        return fn
    return deco


@model(len)
def m_len(it, v):
    if isinstance(v, (SStr, SSeq)):
        return v.length()
    if isinstance(v, MutList):
        return v.val.length()
    if isinstance(v, MutSet):
        if v.val is None:
            return 0
        raise OutOfSubset("len of symbolic set")
    if isinstance(v, SObj):
        m = inspect.getattr_static(v.cls, "__len__", None)
        if isinstance(m, types.FunctionType):
            return it.call(m, (v,), {})
    from .interp import GenResult
    if isinstance(v, GenResult):
        _raise(TypeError("len of generator"))
    if isinstance(v, ModelHost):
        return v.len(it)
    if isinstance(v, dict) and SYMKEYS in v:
        raise OutOfSubset("len of dict with symbolic keys")
    return it.native(len, (v,), {})


@model(str)
def m_str(it, v=""):
    return str_(it, v)


@model(repr)
def m_repr(it, v):
    return repr_(it, v)


@model(bool)
def m_bool(it, v=False):
    return truthy(it, v)


@model(int)
def m_int(it, v=0, base=10):
    if isinstance(v, SInt):
        return v
    if isinstance(v, SBool):
        return SInt(I(v))
    if isinstance(v, SStr):
        if base != 10:
            h = getattr(it, "int_base_model", None)
            if h is not None:
                return h(it, v, base)
            raise OutOfSubset("int(str, base)")
        # terms the contract declares to be digit strings (a stated type invariant): no regex query needed
        vt = z3.simplify(v.t)
        if any(vt.eq(k) for k in getattr(it, "digit_terms", ())):
            return v.to_int()
        # digits only (python also accepts sign/space/underscore: outside the modelled subset)
        digits = z3.Plus(z3.Range("0", "9"))
        if not it.truth(SBool(z3.InRe(v.t, digits))):
            ok_other = SBool(z3.InRe(v.t, z3.Concat(z3.Star(z3.Union(z3.Re(" "), z3.Re("\t"), z3.Re("\n"))),
                                                    z3.Option(z3.Union(z3.Re("+"), z3.Re("-"))),
                                                    z3.Plus(z3.Union(z3.Range("0", "9"), z3.Re("_"))),
                                                    z3.Star(z3.Union(z3.Re(" "), z3.Re("\t"), z3.Re("\n"))))))
            if it.truth(ok_other):
                raise OutOfSubset("int() of signed/spaced digit string")
            _raise(ValueError("invalid literal for int()"))
        return v.to_int()
    return it.native(int, (v,) if base == 10 else (v, base), {})


@model(isinstance)
def m_isinstance(it, v, cls):
    classes = cls if isinstance(cls, tuple) else (cls,)
    if isinstance(v, SObj):
        return any(isinstance(c, type) and issubclass(v.cls, c) for c in classes)
    py = {SStr: str, SInt: int, SBool: bool}
    for k, t in py.items():
        if isinstance(v, k):
            return any(c is t or c is object or (t is bool and c is int) for c in classes)
    if isinstance(v, SSeq):
        t = tuple if v.kind.py == "tuple" else list
        return any(c is t or c is object for c in classes)
    if isinstance(v, MutSet):
        t = frozenset if v.frozen else set
        return any(c is t or c is object for c in classes)
    if isinstance(v, SRef):
        h = getattr(it, "ref_isinstance", None)
        if h is None:
            raise OutOfSubset("isinstance on opaque ref")
        return h(it, v, classes)
    from .interp import Closure
    if isinstance(v, Closure):
        return any(c in (types.FunctionType, object) for c in classes)
    return isinstance(v, cls)


@model(issubclass)
def m_issubclass(it, a, b):
    return issubclass(a, b)


@model(tuple)
def m_tuple(it, v=()):
    from .interp import GenResult
    if isinstance(v, GenResult):
        v = gen_items(it, v)
    if isinstance(v, SSeq):
        return SSeq(v.t, KSeq(v.kind.elem, "tuple"))
    return tuple(iter_concrete(it, v))


@model(list)
def m_list(it, v=()):
    from .interp import GenResult
    if isinstance(v, GenResult):
        v = gen_items(it, v)
    if isinstance(v, SSeq):
        return SSeq(v.t, KSeq(v.kind.elem, "list"))
    return list(iter_concrete(it, v))


@model(set)
def m_set(it, v=()):
    return _mk_set(it, v, False)


@model(frozenset)
def m_frozenset(it, v=()):
    return _mk_set(it, v, True)


def _mk_set(it, v, frozen):
    from .interp import GenResult
    if isinstance(v, GenResult):
        v = gen_items(it, v)
    if isinstance(v, (MutSet, SSet, SSeq)):
        return MutSet(set_term(it, v), frozen)
    items = iter_concrete(it, v)
    return make_set(it, items, frozen)


@model(dict)
def m_dict(it, v=(), **kw):
    d = {}
    if isinstance(v, dict):
        d.update(v)
    else:
        for kv in iter_concrete(it, v):
            k, x = iter_concrete(it, kv)
            setitem(it, d, k, x)
    d.update(kw)
    return d


@model(sorted)
def m_sorted(it, v, key=None, reverse=False):
    from .interp import GenResult
    if isinstance(v, GenResult):
        v = gen_items(it, v)
    if isinstance(v, (MutSet, SSet, SSeq)) and not (isinstance(v, MutSet) and v.val is None):
        if key is not None or reverse:
            raise OutOfSubset("sorted(key=/reverse=) over a symbolic collection")
        # fresh list with the same elements, marked sorted (uninterpreted predicate)
        from . import theory
        src = set_term(it, v)
        r = KSeq(src.kind.elem, "list").fresh("sorted")
        it.ex.assume(r.as_set() == src)
        if isinstance(v, SSeq):
            it.ex.assume(r.length() == v.length())
        it.ex.assume(SBool(theory.ufun(f"is_sorted_{src.kind.elem.name}", r.t.sort(), z3.BoolSort())(r.t)))
        return r
    items = iter_concrete(it, v)
    if not has_sym(items) and key is None:
        return sorted(items, reverse=reverse)
    if not has_sym(items) and callable(key) and not isinstance(key, EngineValue):
        return sorted(items, key=key, reverse=reverse)   # concrete items, native key function (itemgetter / attrgetter)
    if len(items) <= 1:
        return list(items)
    # tuples whose first components are concrete and pairwise distinct: the order is decided by them alone
    if key is None and all(isinstance(x, tuple) and x and not has_sym(x[0]) for x in items):
        firsts = [x[0] for x in items]
        try:
            if len(set(firsts)) == len(firsts):
                order = sorted(range(len(items)), key=lambda i: firsts[i], reverse=reverse)
                return [items[i] for i in order]
        except TypeError:
            pass
    raise OutOfSubset("sorted() over symbolic items")


@model(reversed)
def m_reversed(it, v):
    if isinstance(v, SSeq):
        from . import theory
        raise OutOfSubset("reversed symbolic sequence outside a loop contract")
    return list(reversed(iter_concrete(it, v)))


@model(enumerate)
def m_enumerate(it, v, start=0):
    return [(i, x) for i, x in enumerate(iter_concrete(it, v), start)]


@model(zip)
def m_zip(it, *vs, strict=False):
    return list(zip(*[iter_concrete(it, v) for v in vs]))


@model(range)
def m_range(it, *a):
    if has_sym(a):
        if len(a) == 1 and isinstance(a[0], SInt):
            from .loops import IterView
            n = a[0]
            return IterView(SInt(z3.If(n.t > 0, n.t, z3.IntVal(0))), lambda k: k if isinstance(k, (int, SInt)) else SInt(I(k)), "range")
        raise OutOfSubset("symbolic range(start, stop) outside the modelled forms")
    return range(*a)


@model(iter)
def m_iter(it, v):
    from .loops import as_view
    w = as_view(it, v)
    if w is not None and not isinstance(concrete_of(w.length_), int):
        return SymIter(w)
    return IterHost(iter_concrete(it, v) if w is None else w.iterate(it))


class SymIter(ModelHost):
    """iterator over a symbolic-length view: position is a symbolic int"""

    def __init__(self, view, pos=0):
        self.view, self.pos = view, pos

    def iterate(self, it):
        raise OutOfSubset("draining a symbolic iterator")

    def getattr(self, it, name):
        raise OutOfSubset(f"iterator.{name}")


class IterHost(ModelHost):
    def __init__(self, items):
        self.items, self.pos = items, 0

    def iterate(self, it):
        r = self.items[self.pos:]
        self.pos = len(self.items)
        return r

    def getattr(self, it, name):
        raise OutOfSubset(f"iterator.{name}")


@model(next)
def m_next(it, h, *default):
    if it.ex.guards:
        raise NeedFork("iterator advanced inside a merged if")
    if isinstance(h, IterHost):
        if h.pos < len(h.items):
            h.pos += 1
            return h.items[h.pos - 1]
        if default:
            return default[0]
        _raise(StopIteration())
    if isinstance(h, SymIter):
        if it.truth(SBool(I(h.pos) < I(h.view.length_))):
            x = h.view.at(h.pos if isinstance(h.pos, (int, SInt)) else SInt(I(h.pos)))
            h.pos = h.pos + 1
            return x
        if default:
            return default[0]
        _raise(StopIteration())
    raise OutOfSubset("next() on non-model iterator")


@model(any)
def m_any(it, v):
    from .interp import GenResult
    if isinstance(v, PureComp):
        return v.exists()
    parts = []
    for x in iter_concrete(it, v):
        t = it.truth_term(x)
        if t is True:
            return True
        if t is not False:
            parts.append(t)
    return concrete_of(SBool(z3.Or(*parts))) if parts else False


@model(all)
def m_all(it, v):
    if isinstance(v, PureComp):
        return v.forall()
    parts = []
    for x in iter_concrete(it, v):
        t = it.truth_term(x)
        if t is False:
            return False
        if t is not True:
            parts.append(t)
    return concrete_of(SBool(z3.And(*parts))) if parts else True


@model(sum)
def m_sum(it, v, start=0):
    acc = start
    for x in iter_concrete(it, v):
        if isinstance(x, SBool):
            x = SInt(I(x))
        acc = acc + x
    return acc


@model(min)
def m_min(it, *a, **kw):
    if not has_sym(a) and not has_sym(kw):
        return it.native(min, a, kw)
    items = iter_concrete(it, a[0]) if len(a) == 1 else list(a)
    acc = items[0]
    for x in items[1:]:
        acc = Ite(compare(it, ast.Lt(), x, acc), x, acc)
    return acc


@model(abs)
def m_abs(it, x):
    if isinstance(x, SInt):
        return SInt(z3.If(x.t >= 0, x.t, -x.t))
    return it.native(abs, (x,), {})


@model(max)
def m_max(it, *a, **kw):
    if not has_sym(a) and not has_sym(kw):
        return it.native(max, a, kw)
    items = iter_concrete(it, a[0]) if len(a) == 1 else list(a)
    acc = items[0]
    for x in items[1:]:
        acc = Ite(compare(it, ast.Gt(), x, acc), x, acc)
    return acc


@model(getattr)
def m_getattr(it, o, name, *default):
    from .interp import PyRaise
    if isinstance(name, Sym):
        raise OutOfSubset("getattr with symbolic name")
    try:
        return getattr_(it, o, name)
    except PyRaise as e:
        if default and issubclass(e.cls, AttributeError):
            return default[0]
        raise


@model(hasattr)
def m_hasattr(it, o, name):
    from .interp import PyRaise
    try:
        getattr_(it, o, name)
        return True
    except PyRaise as e:
        if issubclass(e.cls, AttributeError):
            return False
        raise


@model(callable)
def m_callable(it, v):
    from .interp import Closure, BoundMethod
    if isinstance(v, (Closure, BoundMethod, Model)):
        return True
    if isinstance(v, (Sym, MutSet, SObj)):
        if isinstance(v, SObj):
            return inspect.getattr_static(v.cls, "__call__", None) is not None
        return False
    return callable(v)


@model(setattr, object.__setattr__)
def m_setattr(it, o, name, v):
    it.setattr(o, name, v)


@model(typing.cast)
def m_cast(it, t, v):
    return v


@model(hash)
def m_hash(it, v):
    if has_sym(v):
        h = getattr(it, "hash_model", None)
        if h is None:
            raise OutOfSubset("hash of symbolic value")
        return h(it, v)
    return it.native(hash, (v,), {})


@model(map)
def m_map(it, f, *seqs):
    return [it.call(f, xs, {}) for xs in zip(*[iter_concrete(it, s) for s in seqs])]


@model(filter)
def m_filter(it, f, seq):
    if isinstance(seq, SSeq) and f is not None:
        # filter(pred, <symbolic sequence>): the same abstraction as [x for x in seq if pred(x)]
        from .loops import _filter_seq

        def pred(x):
            it.pure += 1
            try:
                t = it.truth_term(it.call(f, (x,), {}))
            finally:
                it.pure -= 1
            return z3.BoolVal(t) if isinstance(t, bool) else t
        return _filter_seq(it, seq, pred, "list")
    out = []
    for x in iter_concrete(it, seq):
        if it.truth(x if f is None else it.call(f, (x,), {})):
            out.append(x)
    return out


@model(type)
def m_type(it, v, *rest):
    if rest:
        raise OutOfSubset("3-argument type()")
    if isinstance(v, SObj):
        return v.cls
    if isinstance(v, SStr):
        return str
    if isinstance(v, SInt):
        return int
    if isinstance(v, SBool):
        return bool
    if isinstance(v, MutSet):
        return frozenset if v.frozen else set
    if isinstance(v, SSeq):
        return tuple if v.kind.py == "tuple" else list
    return type(v)


@model(id)
def m_id(it, v):
    return id(v)


@model(print)
def m_print(it, *a, **k):
    return None


class PureComp:
    """A generator expression over a symbolic collection used only by any()/all():
    kept as (bound variable, domain predicate, body predicate)."""

    def __init__(self, var, domain, body):
        self.var, self.domain, self.body = var, domain, body

    def exists(self):
        return SBool(z3.Exists([self.var], z3.And(self.domain, self.body)))

    def forall(self):
        return SBool(z3.ForAll([self.var], z3.Implies(self.domain, self.body)))


# ------------------------------------------------------------ str methods ----
@method(STR_METHODS, "startswith")
def s_startswith(it, s, p, *a):
    if a:
        raise OutOfSubset("startswith with offsets")
    return concrete_of(s.startswith(p))


@method(STR_METHODS, "endswith")
def s_endswith(it, s, p, *a):
    if a:
        raise OutOfSubset("endswith with offsets")
    return concrete_of(s.endswith(p))


@method(STR_METHODS, "find")
def s_find(it, s, sub, start=0):
    return s.find(sub, start)


@method(STR_METHODS, "index")
def s_index(it, s, sub, start=0):
    r = s.find(sub, start)
    if not it.truth(r >= 0):
        _raise(ValueError("substring not found"))
    return r


@method(STR_METHODS, "__contains__")
def s_contains(it, s, sub):
    return s.contains(sub)


@method(STR_METHODS, "replace")
def s_replace(it, s, old, new, count=-1):
    if count == 1:
        return s.replace_first(old, new)
    if count != -1 or not isinstance(old, str) or old == "":
        # SMT-LIB's str.replace_all leaves the string alone for an empty pattern, Python inserts between all characters: not modelled
        _oos("replace with a count other than 1 / all, or with a symbolic or empty pattern")
    return SStr(replace_all(s.t, S(old), S(new)))


def replace_all(s, old, new):
    """SMT-LIB str.replace_all (every non-overlapping occurrence, left to right: Python's str.replace for a non-empty pattern)"""
    return z3.SeqRef(z3.Z3_mk_seq_replace_all(s.ctx.ref(), s.as_ast(), old.as_ast(), new.as_ast()), s.ctx)


def _oos(msg):
    raise OutOfSubset(msg)


@method(STR_METHODS, "join")
def s_join(it, sep, items):
    from .interp import GenResult
    if isinstance(items, GenResult):
        items = gen_items(it, items)
    if isinstance(items, SSeq):
        from . import strtheory
        return strtheory.join(sep, items)
    items = iter_concrete(it, items)
    out = None
    for i, x in enumerate(items):
        if not isinstance(x, (str, SStr)):
            _raise(TypeError("join of non-str"))
        out = x if out is None else out + sep + x
    return "" if out is None else out


@method(STR_METHODS, "split")
def s_split(it, s, sep=None, maxsplit=-1):
    from . import strtheory
    return strtheory.split(it, s, sep, maxsplit)


@method(STR_METHODS, "rsplit")
def s_rsplit(it, s, sep=None, maxsplit=-1):
    from . import strtheory
    return strtheory.rsplit(it, s, sep, maxsplit)


@method(STR_METHODS, "partition")
def s_partition(it, s, sep):
    from . import strtheory
    return strtheory.partition(it, s, sep)


@method(STR_METHODS, "rpartition")
def s_rpartition(it, s, sep):
    from . import strtheory
    return strtheory.rpartition(it, s, sep)


@method(STR_METHODS, "strip")
def s_strip(it, s, chars=None):
    from . import strtheory
    return strtheory.strip(it, s, chars, True, True)


@method(STR_METHODS, "lstrip")
def s_lstrip(it, s, chars=None):
    from . import strtheory
    return strtheory.strip(it, s, chars, True, False)


@method(STR_METHODS, "rstrip")
def s_rstrip(it, s, chars=None):
    from . import strtheory
    return strtheory.strip(it, s, chars, False, True)


LIST_METHODS = {}


@method(LIST_METHODS, "append")
def list_append(it, o, x):
    if isinstance(o.val, SArr):
        o.val = o.val.append(x)
        return
    e = o.val.kind.elem.lift(x)
    if e is None:
        raise OutOfSubset(f"list.append of a different kind: {x!r}")
    o.val = SSeq(z3.Concat(o.val.t, z3.Unit(e)), o.val.kind)


@method(LIST_METHODS, "copy")
def list_copy(it, o):
    return MutList(o.val)


@model(ord)
def m_ord(it, c):
    if isinstance(c, SStr):
        from . import theory
        f = theory.ufun("py_ord", z3.StringSort(), z3.IntSort())
        r = f(c.t)
        theory._add_axiom(("ord", r.get_id()), r >= 0)
        return SInt(r)
    return it.native(ord, (c,), {})


@method(STR_METHODS, "isalpha")
def s_isalpha(it, s):
    # ASCII model (assumption listed in the evidence)
    return s.in_re(z3.Plus(z3.Union(z3.Range("a", "z"), z3.Range("A", "Z"))))


@method(STR_METHODS, "isdigit")
def s_isdigit(it, s):
    # ASCII model (assumption listed in the evidence)
    return s.in_re(z3.Plus(z3.Range("0", "9")))


@method(STR_METHODS, "lower")
def s_lower(it, s):
    from . import strtheory
    return strtheory.lower(it, s)


@method(STR_METHODS, "encode")
def s_encode(it, s, *a):
    c = concrete_of(s)
    if isinstance(c, str) and not has_sym(a):
        return c.encode(*a)   # a term built from constants only
    raise OutOfSubset("str.encode on symbolic string")


@method(STR_METHODS, "format")
def s_format(it, s, *a, **k):
    return OpaqueText(s)


# ------------------------------------------------------------ set methods ----
def _sv(o):
    return o.val if isinstance(o, MutSet) else o


def _mut(o):
    if not isinstance(o, MutSet):
        raise OutOfSubset("mutation of immutable symbolic set")
    if o.frozen:
        _raise(AttributeError("frozenset is immutable"))
    return o


def _elem_set(it, o, x):
    """ensure o has a kind, derived from element x if needed."""
    if o.val is None:
        k = kind_of(x)
        if k is None:
            raise OutOfSubset(f"set element {x!r}")
        o.val = SSet(z3.EmptySet(k.sort), KSet(k))
    return o.val


@method(SET_METHODS, "add")
def set_add(it, o, x):
    _mut(o)
    v = _elem_set(it, o, x)
    if v.kind.elem.lift(x) is None:
        raise OutOfSubset(f"heterogeneous set: {x!r} into {v.kind}")
    o.val = v.with_(x)


@method(SET_METHODS, "discard")
def set_discard(it, o, x):
    _mut(o)
    if o.val is not None:
        o.val = o.val.without(x)


@method(SET_METHODS, "remove")
def set_remove(it, o, x):
    _mut(o)
    c = contains(it, o, x)
    if not it.truth(c):
        _raise(KeyError(x))
    o.val = o.val.without(x)


@method(SET_METHODS, "clear")
def set_clear(it, o):
    _mut(o)
    if o.val is not None:
        o.val = SSet(z3.EmptySet(o.val.kind.elem.sort), o.val.kind)


@method(SET_METHODS, "update")
def set_update(it, o, *others):
    _mut(o)
    for other in others:
        t = set_term(it, other, like=o.val)
        if t is not None:
            o.val = t if o.val is None else o.val.union(t)


@method(SET_METHODS, "difference_update")
def set_difference_update(it, o, *others):
    _mut(o)
    for other in others:
        t = set_term(it, other, like=o.val)
        if t is not None and o.val is not None:
            o.val = o.val.difference(t)


@method(SET_METHODS, "intersection_update")
def set_intersection_update(it, o, *others):
    _mut(o)
    for other in others:
        t = set_term(it, other, like=o.val)
        if o.val is not None:
            o.val = SSet(z3.EmptySet(o.val.kind.elem.sort), o.val.kind) if t is None else o.val.intersection(t)


def _frozen(o):
    return isinstance(o, MutSet) and o.frozen


@method(SET_METHODS, "union")
def set_union(it, o, *others):
    r = _sv(o)
    for other in others:
        t = set_term(it, other, like=r)
        r = t if r is None else (r if t is None else r.union(t))
    return MutSet(r, _frozen(o))


@method(SET_METHODS, "difference")
def set_difference(it, o, *others):
    r = _sv(o)
    for other in others:
        t = set_term(it, other, like=r)
        if r is not None and t is not None:
            r = r.difference(t)
    return MutSet(r, _frozen(o))


@method(SET_METHODS, "intersection")
def set_intersection(it, o, *others):
    r = _sv(o)
    for other in others:
        t = set_term(it, other, like=r)
        r = None if (r is None or t is None) else r.intersection(t)
    return MutSet(r, _frozen(o))


@method(SET_METHODS, "symmetric_difference")
def set_symdiff(it, o, other):
    return set_binop(it, ast.BitXor(), o, other)


@method(SET_METHODS, "issubset")
def set_issubset(it, o, other):
    return compare(it, ast.LtE(), o if isinstance(o, MutSet) else MutSet(o), other)


@method(SET_METHODS, "issuperset")
def set_issuperset(it, o, other):
    return compare(it, ast.GtE(), o if isinstance(o, MutSet) else MutSet(o), other)


@method(SET_METHODS, "isdisjoint")
def set_isdisjoint(it, o, other):
    r = set_intersection(it, o, other)
    return True if r.val is None else r.val.is_empty()


@method(SET_METHODS, "copy")
def set_copy(it, o):
    return MutSet(_sv(o), _frozen(o))


@method(SET_METHODS, "__contains__")
def set_contains(it, o, x):
    return contains(it, o, x)


# ------------------------------------------------------------ seq methods ----
@method(SEQ_METHODS, "index")
def seq_index(it, s, x):
    raise OutOfSubset("tuple.index on symbolic sequence")


@method(SEQ_METHODS, "count")
def seq_count(it, s, x):
    raise OutOfSubset("tuple.count on symbolic sequence")
