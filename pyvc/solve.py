"""Back ends: z3 (in-process API) first, cvc5 (CLI on the SMT-LIB dump) for z3's unknowns."""
import os
import subprocess
import tempfile
import time
import z3

STATS = {"queries": 0, "z3_s": 0.0, "cvc5_s": 0.0, "cvc5_queries": 0, "feas_queries": 0, "feas_s": 0.0}


def tier_timeout_ms():
    t = os.environ.get("PYVC_QUERY_TIMEOUT_S")
    if t:
        return int(float(t) * 1000)
    return 60000 if os.environ.get("VERIF_TIER", "quick") == "thorough" else 20000


def _hard_check(s, timeout_ms):
    """s.check() with a hard limit: z3's own timeout is not honoured inside some string/regex
    procedures, so a timer interrupts the context shortly after it should have fired."""
    import threading
    t = threading.Timer(timeout_ms / 1000.0 + 0.75, s.ctx.interrupt)
    t.daemon = True
    t.start()
    try:
        return s.check()
    except z3.Z3Exception:
        return z3.unknown
    finally:
        t.cancel()


def feasible(assertions, timeout_ms=1500):
    """Path feasibility: False only on a definite unsat."""
    s = z3.Solver()
    s.set("timeout", timeout_ms)
    s.add(*assertions)
    t0 = time.time()
    r = _hard_check(s, timeout_ms)
    if r == z3.unknown:
        # a short wall-clock budget flips under load (16 busy cores): ask once more with a budget that does not
        s2 = z3.Solver()
        s2.set("timeout", timeout_ms * 20)
        s2.add(*assertions)
        r = _hard_check(s2, timeout_ms * 20)
        STATS["feas_retries"] = STATS.get("feas_retries", 0) + 1
    STATS["feas_queries"] += 1
    STATS["feas_s"] += time.time() - t0
    return r != z3.unsat


def check(assertions, timeout_ms=None, want_model=True, use_cvc5=True):
    """-> (verdict, model_or_None, seconds, backend, smt2_head)."""
    timeout_ms = timeout_ms or tier_timeout_ms()
    s = z3.Solver()
    s.set("timeout", timeout_ms)
    s.add(*assertions)
    t0 = time.time()
    r = _hard_check(s, timeout_ms)
    dt = time.time() - t0
    STATS["queries"] += 1
    STATS["z3_s"] += dt
    if r == z3.unsat:
        return "unsat", None, dt, "z3", None
    if r == z3.sat:
        return "sat", s.model(), dt, "z3", None
    if not use_cvc5:
        return "unknown", None, dt, "z3", None
    # second opinion
    smt2 = s.to_smt2()
    v, dt2 = cvc5_check(smt2, timeout_ms)
    STATS["cvc5_queries"] += 1
    STATS["cvc5_s"] += dt2
    if v == "unsat":
        return "unsat", None, dt + dt2, "cvc5", None
    if v == "sat":
        # a cvc5 model is not mapped back; retry z3 with a fresh seed for a model
        s2 = z3.Solver()
        s2.set("timeout", timeout_ms)
        s2.set("random_seed", 7)
        s2.add(*assertions)
        if s2.check() == z3.sat:
            return "sat", s2.model(), dt + dt2, "cvc5+z3", None
        return "sat-nomodel", None, dt + dt2, "cvc5", None
    return "unknown", None, dt + dt2, "z3+cvc5", smt2[:2000]


def cvc5_check(smt2, timeout_ms):
    text = "(set-logic ALL)\n" + smt2
    t0 = time.time()
    try:
        with tempfile.NamedTemporaryFile("w", suffix=".smt2", delete=False, dir=os.environ.get("PYVC_SCRATCH", "/var/tmp")) as f:
            f.write(text)
            name = f.name
        try:
            p = subprocess.run(["/usr/bin/cvc5", "--strings-exp", f"--tlimit={timeout_ms}", name],
                               capture_output=True, text=True, timeout=timeout_ms / 1000 + 5)
            out = p.stdout.strip().splitlines()
            v = out[0].strip() if out else "unknown"
        finally:
            os.unlink(name)
    except Exception:
        v = "unknown"
    if v not in ("sat", "unsat"):
        v = "unknown"
    return v, time.time() - t0
