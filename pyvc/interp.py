"""Symbolic interpreter for the Python subset (see DESIGN.md 1.3).

Executes the AST extracted from /repo.  Names resolve against the *real*
module namespace (the repository is imported), so everything concrete is
evaluated by CPython itself; only symbolic values go through the models.
"""
import ast
import builtins
import dataclasses
import inspect
import types
import z3

from . import extract
from .explore import PathEnd, NeedFork
from .sym import (EngineValue, Sym, SBool, SInt, SStr, SSeq, SSet, SRef, SObj, MutSet, Opt, Maybe, OutOfSubset, B, I, S, And, Or, Not,
                  has_sym, kind_of, concrete_of, KSet, KSeq, KStr, KInt, KBool, simp, str_of_int)


class PyRaise(Exception):
    """A python exception raised by the interpreted program."""

    def __init__(self, exc):
        super().__init__(repr(exc))
        self.exc = exc  # real exception instance, or SObj whose cls is an exception class

    @property
    def cls(self):
        return self.exc.cls if isinstance(self.exc, SObj) else type(self.exc)


class _Return(Exception):
    def __init__(self, value):
        self.value = value


class _Break(Exception):
    pass


class _Continue(Exception):
    pass


class Closure(EngineValue):
    """A function being interpreted: extracted definition + environment."""

    def __init__(self, ext, globs, cells=None, name=None, defaults=None, kwdefaults=None, node=None, real=None):
        self.ext = ext
        self.node = node or ext.node
        self.globals = globs
        self.cells = cells  # Frame of the enclosing interpreted function, or dict of real cell values
        self.name = name or self.node.name if not isinstance(self.node, ast.Lambda) else "<lambda>"
        self.defaults = defaults
        self.kwdefaults = kwdefaults
        self.real = real

    def __repr__(self):
        return f"<Closure {self.name}>"


class BoundMethod(EngineValue):
    def __init__(self, obj, func):
        self.obj, self.func = obj, func

    def __repr__(self):
        return f"<BoundMethod {self.func} of {self.obj}>"


class Frame:
    def __init__(self, closure, locals_, parent=None):
        self.closure = closure
        self.locals = locals_
        self.parent = parent  # lexical parent (Frame) or None
        self.globals = closure.globals if closure else {}
        self.yields = None
        self.nonlocals = set()
        self.globals_decl = set()

    def lookup(self, name):
        f = self
        while f is not None:
            if isinstance(f, Frame):
                if name in f.locals and name not in f.nonlocals:
                    return f.locals[name]
                nxt = f.parent
                if nxt is None and f.closure is not None and isinstance(f.closure.cells, dict):
                    if name in f.closure.cells:
                        return f.closure.cells[name]
                f = nxt
            else:
                break
        if name in self.globals:
            return self.globals[name]
        if hasattr(builtins, name):
            return getattr(builtins, name)
        raise PyRaise(NameError(name))

    def store(self, name, value):
        if name in self.nonlocals:
            f = self.parent
            while f is not None:
                if name in f.locals:
                    f.locals[name] = value
                    return
                f = f.parent
            raise OutOfSubset(f"nonlocal {name} not found")
        self.locals[name] = value


class LoopSpec:
    """Contract of one loop, keyed by (function qualname, loop ordinal).

    inv(L, k): invariant over a namespace of the frame's locals and the number
               k of completed iterations (SInt); returns SBool.
    havoc:     {local name: Kind or callable(ex)->value} overriding the kinds
               inferred from the values at loop entry.
    mutates:   names of MutSet/MutList locals whose *content* is havocked.
    variant:   optional, for while loops.
    """

    def __init__(self, inv, havoc=None, mutates=(), name=None, cond_pure=True, out_kind=None, frame_ok=(), elem_assume=None,
                 on_havoc=None):
        self.inv, self.havoc, self.mutates, self.name = inv, havoc or {}, tuple(mutates), name
        self.elem_assume = elem_assume
        self.on_havoc = on_havoc  # callable(it): havoc ghost state the loop body changes
        self.out_kind = out_kind
        self.frame_ok = tuple(frame_ok)  # attribute chains the loop may mutate (covered by the invariant)


class NS:
    """attribute view of a frame's locals for invariants."""

    def __init__(self, d):
        object.__setattr__(self, "_d", d)

    def __getattr__(self, k):
        try:
            return self._d[k]
        except KeyError:
            if k.startswith("__"):
                raise AttributeError(k)
            # the code under contract no longer has this local: the loop contract does not apply (undecided, never a crash)
            raise OutOfSubset(f"loop contract refers to local {k!r}, which the function no longer has")

    def __contains__(self, k):
        return k in self._d


class Contract:
    """Contract of a callee: used *instead of* its body at call sites.

    pre(ex, *args, **kw)  -> SBool/bool   (asserted: a callee-precondition obligation)
    post(ex, *args, **kw) -> value        (builds the result, assuming the postcondition;
                                           may raise PyRaise for exceptional postconditions
                                           and may call ex.choose for nondeterministic outcomes)
    """

    def __init__(self, name, post, pre=None, trusted=False, note=""):
        self.name, self.post, self.pre, self.trusted, self.note = name, post, pre, trusted, note


MAX_DEPTH = 40


class Interp:
    def __init__(self, ex, loops=None, contracts=None, models=None, bounded=None, label=""):
        from . import models as _m
        self.ex = ex
        self.loops = loops or {}  # (qualname, ordinal) -> LoopSpec
        self.contracts = contracts or {}  # real callable or (clsname, method) -> Contract
        self.models = dict(_m.MODELS)
        if models:
            self.models.update(models)
        self.bounded = bounded if bounded is not None else getattr(ex, "mode", None)  # None, or dict(unroll=K)
        self.depth = 0
        self.label = label
        self.pure = 0
        self.guards = []
        self.assumed_contracts = set()
        self.inlined = set()
        self.trace = []  # ghost effect trace
        self.loop_k = {}  # (qualname, ordinal) -> index of the arbitrary iteration on this path (ghost)
        self.journal = []  # undo closures for writes made inside a merged if
        ex.journal = self.journal
        from . import loops as _loops  # installs the view-aware models
        self.models.update({k: v for k, v in _m.MODELS.items() if k not in (models or {})})

    # ----------------------------------------------------------- closures --
    def closure_of(self, func):
        ext = extract.extract_func(func)
        cells = None
        if func.__closure__:
            cells = {}
            for n, c in zip(func.__code__.co_freevars, func.__closure__):
                try:
                    cells[n] = c.cell_contents
                except ValueError:
                    pass
        return Closure(ext, func.__globals__, cells=cells, name=func.__qualname__,
                       defaults=func.__defaults__, kwdefaults=func.__kwdefaults__, real=func)

    def target(self, relpath, qualname, module=None):
        """Closure for a function named by file and qualname (resolved on disk)."""
        import importlib
        ext = extract.extract(relpath, qualname)
        if module is None:
            module = relpath.replace("src/", "", 1)[:-3].replace("/", ".")
        mod = importlib.import_module(module)
        obj = mod
        real = None
        try:
            for part in qualname.split("."):
                if part == "<locals>":
                    raise AttributeError
                obj = inspect.getattr_static(obj, part) if isinstance(obj, type) else getattr(obj, part)
            real = obj
            if isinstance(real, (staticmethod, classmethod)):
                real = real.__func__
            real = inspect.unwrap(real) if callable(real) else real
        except AttributeError:
            real = None
        if isinstance(real, types.FunctionType) and real.__code__.co_firstlineno in range(ext.node.lineno - len(ext.node.decorator_list) - 1, ext.node.lineno + 1):
            return self.closure_of(real)
        return Closure(ext, vars(mod), name=qualname)

    # -------------------------------------------------------------- calls --
    def bind(self, clo, args, kwargs):
        a = clo.node.args
        params = [p.arg for p in a.posonlyargs + a.args]
        loc = {}
        args = list(args)
        kwargs = dict(kwargs)
        n = len(params)
        for i, p in enumerate(params):
            if i < len(args):
                loc[p] = args[i]
        extra = args[n:]
        if a.vararg:
            if len(extra) == 1 and isinstance(extra[0], StarArgs):
                loc[a.vararg.arg] = extra[0].seq   # f(*<symbolic collection>): *args is that collection
            else:
                loc[a.vararg.arg] = tuple(extra)
        elif extra:
            raise PyRaise(TypeError(f"{clo.name}: too many positional arguments"))
        for k in list(kwargs):
            if k in params or k in [p.arg for p in a.kwonlyargs]:
                if k in loc:
                    raise PyRaise(TypeError(f"{clo.name}: multiple values for {k}"))
                loc[k] = kwargs.pop(k)
        if a.kwarg:
            loc[a.kwarg.arg] = kwargs
        elif kwargs:
            raise PyRaise(TypeError(f"{clo.name}: unexpected keyword {sorted(kwargs)}"))
        # defaults
        return loc, params

    def fill_defaults(self, clo, loc, params, frame):
        a = clo.node.args
        nd = len(a.defaults)
        pos_defaults = clo.defaults if clo.defaults is not None else None
        for j, p in enumerate(params[len(params) - nd:] if nd else []):
            if p not in loc:
                if pos_defaults is not None:
                    loc[p] = pos_defaults[j]
                else:
                    loc[p] = self.eval(a.defaults[j], frame.parent or Frame(None, {}, None) if frame.parent else _GlobFrame(clo.globals))
        for p, d in zip(a.kwonlyargs, a.kw_defaults):
            if p.arg not in loc:
                if d is None:
                    raise PyRaise(TypeError(f"{clo.name}: missing keyword-only argument {p.arg}"))
                if clo.kwdefaults is not None and p.arg in clo.kwdefaults:
                    loc[p.arg] = clo.kwdefaults[p.arg]
                else:
                    loc[p.arg] = self.eval(d, frame.parent if frame.parent else _GlobFrame(clo.globals))
        for p in params:
            if p not in loc:
                raise PyRaise(TypeError(f"{clo.name}: missing argument {p}"))

    def run_closure(self, clo, args, kwargs):
        if self.depth > MAX_DEPTH:
            raise OutOfSubset("call depth exceeded (recursion needs a contract)")
        loc, params = self.bind(clo, args, kwargs)
        parent = clo.cells if isinstance(clo.cells, Frame) else None
        frame = Frame(clo, loc, parent)
        self.fill_defaults(clo, loc, params, frame)
        self.inlined.add((clo.ext.relpath, clo.ext.qualname))
        if isinstance(clo.node, ast.Lambda):
            return self.eval(clo.node.body, frame)
        is_gen = extract._is_generator(clo.node)
        if is_gen:
            frame.yields = []
        self.depth += 1
        try:
            self.exec_block(clo.node.body, frame)
            ret = None
        except _Return as r:
            ret = r.value
        finally:
            self.depth -= 1
        if is_gen:
            return GenResult(frame.yields)
        return ret

    def call(self, f, args=(), kwargs=None):
        from . import models as _m
        kwargs = kwargs or {}
        if isinstance(f, Closure):
            cm = getattr(self, "closure_models", None)
            if cm and f.name in cm:
                # contract of a nested function, keyed by its name (it has no real function object to key on)
                return cm[f.name](self, *args, **kwargs)
            return self.run_closure(f, args, kwargs)
        if isinstance(f, BoundMethod):
            return self.call(f.func, (f.obj,) + tuple(args), kwargs)
        if isinstance(f, _m.Model):
            if self.ex.guards and not getattr(f, "pure", False):
                # a contract's model may change ghost state, which knows nothing of the guards of a merged `if`: fork instead
                raise NeedFork(f"call of the contract model {f.name} inside a merged if")
            return f.fn(self, *args, **kwargs)
        if isinstance(f, SRef):
            h = getattr(self, "ref_call", None)
            if h is None:
                raise OutOfSubset(f"call of opaque {f.kind.name}")
            return h(self, f, *args, **kwargs)
        c = self._contract_for(f)
        if c is not None:
            return self.apply_contract(c, args, kwargs)
        try:
            mdl = self.models.get(f)
        except TypeError:   # unhashable callable
            mdl = None
        if mdl is not None:
            if self.ex.guards and _m.MODELS.get(f) is not mdl:
                raise NeedFork(f"call of a contract's model of {getattr(f, '__name__', f)} inside a merged if")
            return mdl.fn(self, *args, **kwargs) if isinstance(mdl, _m.Model) else mdl(self, *args, **kwargs)
        if isinstance(f, types.MethodType):
            s = f.__self__
            if isinstance(s, (Sym, MutSet)) or isinstance(s, _m.ModelHost):
                return f(*args, **kwargs)
            if not has_sym(args) and not has_sym(kwargs) and not has_sym(s):
                return self.native(f, args, kwargs)
            if isinstance(f.__func__, types.FunctionType):
                return self.call(f.__func__, (s,) + tuple(args), kwargs)
        if isinstance(f, types.FunctionType) and hasattr(f, "__wrapped__") and f.__code__.co_filename.endswith("snakeoil/klass/immutable.py"):
            # snakeoil's immutable.Simple wraps __init__ to open a mutation window around the real body; the engine's objects have no such
            # lock, so the wrapper is dropped and the wrapped function (the text in /repo) is what runs
            return self.call(f.__wrapped__, args, kwargs)
        if isinstance(f, types.FunctionType):
            if not has_sym(args) and not has_sym(kwargs) and self._native_ok(f):
                return self.native(f, args, kwargs)
            return self.run_closure(self.closure_of(f), args, kwargs)
        if isinstance(f, type):
            return self.instantiate(f, args, kwargs)
        if isinstance(f, (staticmethod, classmethod)):
            return self.call(f.__func__, args, kwargs)
        import typing as _t
        if isinstance(f, _t.NewType) and len(args) == 1:
            return args[0]
        if not has_sym(args) and not has_sym(kwargs) and not has_sym(getattr(f, "__self__", None)):
            return self.native(f, args, kwargs)
        s = getattr(f, "__self__", None)
        nm = getattr(f, "__name__", "")
        # methods of plain containers that never look inside their (possibly symbolic) elements
        if type(s) is list and nm in ("append", "extend", "insert", "pop", "clear", "copy", "reverse") and not kwargs:
            if nm in ("insert", "pop") and args and has_sym(args[0]):
                raise OutOfSubset(f"list.{nm} at a symbolic index")
            if nm == "extend":
                return self.native(f, (_m.iter_concrete(self, args[0]),), {})
            return self.native(f, args, kwargs)
        if type(s) in (list, tuple) and nm in ("index", "count") and len(args) == 1 and not kwargs:
            hits = 0
            for i, x in enumerate(s):
                r = _m.eq(self, x, args[0])
                if r is True or (r is not False and self.truth(r)):
                    if nm == "index":
                        return i
                    hits += 1
            if nm == "index":
                raise PyRaise(ValueError("value is not in list"))
            return hits
        if type(s) is dict and nm == "get" and args and has_sym(args[0]) and not kwargs:
            hit = _m.dict_lookup_symbolic(self, s, args[0])
            return hit if hit is not _m._NOHIT else (args[1] if len(args) > 1 else None)
        if type(s) is dict and nm in ("get", "setdefault", "pop", "items", "keys", "values", "copy", "clear", "update"):
            if _m.SYMKEYS in s:
                raise OutOfSubset(f"dict.{nm} on a dict with symbolic keys")
            if nm in ("get", "setdefault", "pop") and args and has_sym(args[0]):
                raise OutOfSubset(f"dict.{nm} with a symbolic key")
            if nm == "update" and (len(args) != 1 or not isinstance(args[0], dict) or kwargs):
                raise OutOfSubset("dict.update from a non-dict")
            r = self.native(f, args, kwargs)
            if nm in ("get", "pop", "setdefault") and isinstance(r, Maybe):
                return _m._demaybe(self, r, args[0]) if len(args) < 2 or nm == "setdefault" else self._maybe_default(r, args[1])
            return r
        raise OutOfSubset(f"call of {f!r} with symbolic arguments has no model or contract")

    def _maybe_default(self, r, default):
        return r.val if self.truth(SBool(r.present)) else default

    def _native_ok(self, f):
        return True

    def native(self, f, args, kwargs):
        try:
            return f(*args, **kwargs)
        except (OutOfSubset, PathEnd, PyRaise):
            raise
        except Exception as e:
            raise PyRaise(e)

    def _contract_for(self, f):
        try:
            c = self.contracts.get(f)
        except TypeError:
            return None
        if c is None and isinstance(f, (types.FunctionType, types.MethodType)):
            c = self.contracts.get(getattr(f, "__qualname__", None))
        return c

    def apply_contract(self, c, args, kwargs):
        self.assumed_contracts.add(c.name)
        if c.pre is not None:
            p = c.pre(self, *args, **kwargs)
            self.ex.oblige(f"{self.label}.callee_pre.{c.name}", p, kind="callee-precondition")
        return c.post(self, *args, **kwargs)

    def instantiate(self, cls, args, kwargs):
        from . import models as _m
        if cls in self.models:
            return self.models[cls](self, *args, **kwargs)
        if isinstance(cls, type) and issubclass(cls, BaseException):
            if not has_sym(args) and not has_sym(kwargs):
                try:
                    return cls(*args, **kwargs)
                except Exception:
                    pass
            o = SObj(cls, {"args": tuple(args)})
            init = inspect.getattr_static(cls, "__init__", None)
            if isinstance(init, types.FunctionType):
                try:
                    self.call(init, (o,) + tuple(args), kwargs)
                except (OutOfSubset, PyRaise):
                    pass  # message construction only; class and control flow are kept
            return o
        if not has_sym(args) and not has_sym(kwargs) and not getattr(cls, "__module__", "").startswith("pkgcore"):
            return self.native(cls, args, kwargs)
        if dataclasses.is_dataclass(cls):
            o = SObj(cls, {})
            fields = dataclasses.fields(cls)
            pos = [f for f in fields if f.init and not f.kw_only]
            if len(args) > len(pos):
                raise PyRaise(TypeError("too many arguments"))
            vals = {}
            for f, a in zip(pos, args):
                vals[f.name] = a
            for k, v in kwargs.items():
                if k in vals or k not in {f.name for f in fields if f.init}:
                    raise PyRaise(TypeError(f"bad keyword {k}"))
                vals[k] = v
            for f in fields:
                if f.name not in vals:
                    if f.default is not dataclasses.MISSING:
                        vals[f.name] = f.default
                    elif f.default_factory is not dataclasses.MISSING:
                        vals[f.name] = f.default_factory()
                    else:
                        raise PyRaise(TypeError(f"missing field {f.name}"))
            o.fields.update(vals)
            pi = inspect.getattr_static(cls, "__post_init__", None)
            if pi is not None:
                self.call(pi, (o,), {})
            return o
        # ordinary class with python __init__
        if not has_sym(args) and not has_sym(kwargs) and self._native_ok(cls):
            return self.native(cls, args, kwargs)
        new = inspect.getattr_static(cls, "__new__", None)
        o = SObj(cls, {})
        init = inspect.getattr_static(cls, "__init__", None)
        if isinstance(init, types.FunctionType):
            self.call(init, (o,) + tuple(args), kwargs)
            return o
        raise OutOfSubset(f"cannot instantiate {cls} symbolically")

    # ---------------------------------------------------------- truthiness --
    def truth_term(self, v):
        """-> python bool or z3 BoolRef, without forking."""
        from . import models as _m
        if isinstance(v, SBool):
            return v.t
        if isinstance(v, SInt):
            return v.t != 0
        from .sym import SBV
        if isinstance(v, SBV):
            return v.t != 0
        if isinstance(v, (SStr, SSeq)):
            return z3.Length(v.t) > 0
        if isinstance(v, SSet):
            return z3.Not(v.is_empty().t)
        if isinstance(v, MutSet):
            if v.val is None:
                return False
            return z3.Not(v.val.is_empty().t)
        from .sym import MutList, SArr
        if isinstance(v, MutList):
            return v.val.length().t > 0
        if isinstance(v, SArr):
            return v.length().t > 0
        if isinstance(v, SRef):
            h = getattr(self, "ref_truth", None)
            return h(self, v) if h is not None else True
        if isinstance(v, Opt):
            inner = True if v.val is None else self.truth_term(v.val)
            inner = z3.BoolVal(inner) if isinstance(inner, bool) else inner
            return z3.simplify(z3.And(z3.Not(v.isnone), inner))
        if isinstance(v, Maybe):
            raise OutOfSubset("truth of a conditionally present value")
        if isinstance(v, SObj):
            for name in ("__bool__", "__len__"):
                m = inspect.getattr_static(v.cls, name, None)
                if isinstance(m, types.FunctionType):
                    self.pure += 1
                    try:
                        r = self.truth_term(self.call(m, (v,), {}))
                    except _NeedPure:
                        r = None
                    finally:
                        self.pure -= 1
                    if r is None:
                        r = self.truth_term(self.call(m, (v,), {}))
                    return r
            return True
        if isinstance(v, _m.ModelHost):
            return v.truth_term(self)
        if isinstance(v, GenResult):
            return True
        return bool(v)

    def truth(self, v):
        t = self.truth_term(v)
        if isinstance(t, bool):
            return t
        if self.pure:
            raise _NeedPure(t)
        return self.ex.branch(t)

    # --------------------------------------------------------- statements --
    def exec_block(self, stmts, frame):
        for s in stmts:
            self.exec_stmt(s, frame)

    def exec_stmt(self, s, frame):
        m = getattr(self, "s_" + type(s).__name__, None)
        if m is None:
            raise OutOfSubset(f"statement {type(s).__name__} at line {s.lineno}")
        return m(s, frame)

    def s_Expr(self, s, frame):
        if isinstance(s.value, ast.Constant):
            return  # docstring
        if _is_logger_call(s.value):
            return
        self.eval(s.value, frame)

    def s_Pass(self, s, frame):
        pass

    def s_Global(self, s, frame):
        raise OutOfSubset("global statement")

    def s_Nonlocal(self, s, frame):
        frame.nonlocals.update(s.names)

    def s_Import(self, s, frame):
        import importlib
        for a in s.names:
            mod = importlib.import_module(a.name)
            frame.store(a.asname or a.name.split(".")[0], mod if a.asname else importlib.import_module(a.name.split(".")[0]))

    def s_ImportFrom(self, s, frame):
        import importlib
        pkg = frame.globals.get("__package__") or frame.globals.get("__name__", "").rpartition(".")[0]
        mod = importlib.import_module("." * s.level + (s.module or ""), pkg) if s.level else importlib.import_module(s.module)
        for a in s.names:
            try:
                v = getattr(mod, a.name)
            except AttributeError:
                v = importlib.import_module(mod.__name__ + "." + a.name)
            frame.store(a.asname or a.name, v)

    def s_Assign(self, s, frame):
        v = self.eval(s.value, frame)
        for t in s.targets:
            self.assign(t, v, frame)

    def s_AnnAssign(self, s, frame):
        if s.value is not None:
            self.assign(s.target, self.eval(s.value, frame), frame)

    def s_AugAssign(self, s, frame):
        load = _as_load(s.target)
        cur = self.eval(load, frame)
        rhs = self.eval(s.value, frame)
        from . import models as _m
        v = _m.binop(self, s.op, cur, rhs, inplace=True)
        self.assign(s.target, v, frame)

    def assign(self, t, v, frame):
        from . import models as _m
        if isinstance(t, ast.Name):
            if self.ex.guards:
                try:
                    old = frame.lookup(t.id) if (t.id in frame.locals or t.id in frame.nonlocals) else _MISSING
                except PyRaise:
                    old = _MISSING
                v = self.guarded(v, old)
            frame.store(t.id, v)
        elif isinstance(t, (ast.Tuple, ast.List)):
            items = _m.iter_concrete(self, v)
            star = [i for i, e in enumerate(t.elts) if isinstance(e, ast.Starred)]
            if star:
                i = star[0]
                after = len(t.elts) - i - 1
                if len(items) < len(t.elts) - 1:
                    raise PyRaise(ValueError("not enough values to unpack"))
                for e, x in zip(t.elts[:i], items[:i]):
                    self.assign(e, x, frame)
                self.assign(t.elts[i].value, list(items[i:len(items) - after]), frame)
                for e, x in zip(t.elts[i + 1:], items[len(items) - after:]):
                    self.assign(e, x, frame)
            else:
                if len(items) != len(t.elts):
                    raise PyRaise(ValueError("unpack length mismatch"))
                for e, x in zip(t.elts, items):
                    self.assign(e, x, frame)
        elif isinstance(t, ast.Attribute):
            o = self.eval(t.value, frame)
            self.setattr(o, t.attr, v)
        elif isinstance(t, ast.Subscript):
            o = self.eval(t.value, frame)
            k = self.eval_slice(t.slice, frame)
            _m.setitem(self, o, k, v)
        else:
            raise OutOfSubset(f"assignment target {type(t).__name__}")

    def setattr(self, o, name, v):
        if isinstance(o, SObj):
            if self.ex.guards:
                old = o.fields.get(name, _MISSING)
                v = self.guarded(v, old)
                self.journal.append(lambda o=o, name=name, old=old: (o.fields.pop(name, None) if old is _MISSING else o.fields.__setitem__(name, old)))
            o.fields[name] = v
        elif isinstance(o, (Sym, MutSet)):
            raise PyRaise(AttributeError(name))
        elif self.ex.guards:
            raise NeedFork("attribute write on a concrete object inside a merged if")
        else:
            try:
                setattr(o, name, v)
            except Exception as e:
                raise PyRaise(e)

    def s_Delete(self, s, frame):
        from . import models as _m
        for t in s.targets:
            if isinstance(t, ast.Name):
                frame.locals.pop(t.id, None)
            elif isinstance(t, ast.Subscript):
                _m.delitem(self, self.eval(t.value, frame), self.eval_slice(t.slice, frame))
            elif isinstance(t, ast.Attribute):
                o = self.eval(t.value, frame)
                if isinstance(o, SObj):
                    o.fields.pop(t.attr, None)
                else:
                    delattr(o, t.attr)
            else:
                raise OutOfSubset("del target")

    def s_Return(self, s, frame):
        raise _Return(self.eval(s.value, frame) if s.value is not None else None)

    def s_Break(self, s, frame):
        raise _Break()

    def s_Continue(self, s, frame):
        raise _Continue()

    def s_If(self, s, frame):
        t = self.truth_term(self.eval(s.test, frame))
        if not isinstance(t, bool):
            t = simp(t)
            t = True if z3.is_true(t) else False if z3.is_false(t) else t
        if not isinstance(t, bool) and not self.pure and _mergeable(s) and self.merge_if(s, t, frame):
            return
        if not isinstance(t, bool):
            if self.pure:
                raise _NeedPure(t)
            t = self.ex.branch(t)
        if t:
            self.exec_block(s.body, frame)
        else:
            self.exec_block(s.orelse, frame)

    def merge_if(self, s, t, frame):
        """Execute both arms under guards, merging the state with ite (no fork).
        Falls back (returns False, state restored) when merging is not possible."""
        ex = self.ex
        snap = dict(frame.locals)
        mark = len(self.journal)
        depth = len(ex.guards)
        pc_len = len(ex.pc)
        try:
            ex.guards.append(t)
            self.exec_block(s.body, frame)
            ex.guards.pop()
            ex.guards.append(z3.Not(t))
            self.exec_block(s.orelse, frame)
            ex.guards.pop()
            return True
        except (NeedFork, PyRaise, PathEnd, _NeedPure) as e:
            del ex.guards[depth:]
            del ex.pc[pc_len:]
            while len(self.journal) > mark:
                self.journal.pop()()
            frame.locals.clear()
            frame.locals.update(snap)
            if depth:
                raise NeedFork("nested merge failed")
            return False

    def guarded(self, new, old):
        """value after a write of `new` over `old` under the active guards."""
        ex = self.ex
        if not ex.guards or new is old:
            return new
        g = ex.guard_term()
        if old is _MISSING:
            raise NeedFork("conditionally bound name")
        return merge_values(g, new, old)

    def deopt(self, v):
        """use of an Optional value as a plain value."""
        if not isinstance(v, Opt):
            return v
        ex = self.ex
        if ex.must(SBool(z3.Not(v.isnone))):
            return v.val
        if ex.must(SBool(v.isnone)):
            return None
        if ex.guards:
            raise NeedFork("optional used under undetermined None-ness")
        return None if ex.branch(SBool(v.isnone)) else v.val

    def s_Assert(self, s, frame):
        v = self.eval(s.test, frame)
        if not self.truth(v):
            raise PyRaise(AssertionError())

    def s_Raise(self, s, frame):
        if s.exc is None:
            cur = getattr(frame, "handling", None)
            if cur is None:
                raise OutOfSubset("bare raise outside handler")
            raise cur
        e = self._eval_exc(s.exc, frame)
        if isinstance(e, type):
            e = self.instantiate(e, (), {})
        if s.cause is not None:
            try:
                self.eval(s.cause, frame)
            except OutOfSubset:
                pass
        raise PyRaise(e)

    def _eval_exc(self, node, frame):
        """`raise Cls(msg...)`: the class and control flow are kept, message text
        that cannot be modelled becomes opaque (extraction rule, DESIGN 1.1)."""
        from . import models as _m
        if isinstance(node, ast.Call):
            f = self.eval(node.func, frame)
            if isinstance(f, type) and issubclass(f, BaseException):
                args, kwargs = [], {}
                for a in node.args:
                    try:
                        if isinstance(a, ast.Starred):
                            args.extend(_m.iter_concrete(self, self.eval(a.value, frame)))
                        else:
                            args.append(self.eval(a, frame))
                    except (OutOfSubset, PyRaise):
                        args.append(_m.OpaqueText(None))
                for k in node.keywords:
                    try:
                        kwargs[k.arg] = self.eval(k.value, frame)
                    except (OutOfSubset, PyRaise):
                        kwargs[k.arg] = _m.OpaqueText(None)
                return self.instantiate(f, args, kwargs)
        return self.eval(node, frame)

    def s_Try(self, s, frame):
        try:
            try:
                self.exec_block(s.body, frame)
            except PyRaise as pr:
                for h in s.handlers:
                    if self.handler_matches(h, pr, frame):
                        if h.name:
                            frame.store(h.name, pr.exc)
                        old = getattr(frame, "handling", None)
                        frame.handling = pr
                        try:
                            self.exec_block(h.body, frame)
                        finally:
                            frame.handling = old
                        break
                else:
                    raise
            else:
                self.exec_block(s.orelse, frame)
        finally:
            if s.finalbody:
                # NB: python semantics: finally runs on every exit, incl. our control-flow exceptions
                import sys
                et = sys.exc_info()[0]
                if et is None or not issubclass(et, (PathEnd, OutOfSubset)):
                    self.exec_block(s.finalbody, frame)

    def handler_matches(self, h, pr, frame):
        if h.type is None:
            return True
        t = self.eval(h.type, frame)
        ts = t if isinstance(t, tuple) else (t,)
        return any(isinstance(c, type) and issubclass(pr.cls, c) for c in ts)

    def s_With(self, s, frame):
        from . import models as _m
        mgrs = []
        for item in s.items:
            cm = self.eval(item.context_expr, frame)
            val = _m.ctx_enter(self, cm)
            mgrs.append(cm)
            if item.optional_vars is not None:
                self.assign(item.optional_vars, val, frame)
        try:
            self.exec_block(s.body, frame)
        except PyRaise as pr:
            suppressed = False
            for cm in reversed(mgrs):
                if _m.ctx_exit(self, cm, pr):
                    suppressed = True
            if not suppressed:
                raise
        except (_Return, _Break, _Continue):
            for cm in reversed(mgrs):
                _m.ctx_exit(self, cm, None)
            raise
        else:
            for cm in reversed(mgrs):
                _m.ctx_exit(self, cm, None)

    def s_FunctionDef(self, s, frame):
        clo = Closure(frame.closure.ext if frame.closure else None, frame.globals, cells=frame, name=s.name, node=s)
        # defaults evaluated at definition time
        clo.defaults = tuple(self.eval(d, frame) for d in s.args.defaults)
        clo.kwdefaults = {p.arg: self.eval(d, frame) for p, d in zip(s.args.kwonlyargs, s.args.kw_defaults) if d is not None}
        frame.store(s.name, clo)
        h = getattr(self, "funcdef_hook", None)
        if h is not None:
            h(s.name, clo)

    # loops ---------------------------------------------------------------
    def s_For(self, s, frame):
        from . import loops
        loops.exec_for(self, s, frame)

    def s_While(self, s, frame):
        from . import loops
        loops.exec_while(self, s, frame)

    # --------------------------------------------------------- expressions --
    def eval(self, e, frame):
        m = getattr(self, "e_" + type(e).__name__, None)
        if m is None:
            raise OutOfSubset(f"expression {type(e).__name__} at line {getattr(e, 'lineno', '?')}")
        return m(e, frame)

    def e_Constant(self, e, frame):
        return e.value

    def e_Name(self, e, frame):
        return frame.lookup(e.id)

    def e_NamedExpr(self, e, frame):
        v = self.eval(e.value, frame)
        self.assign(e.target, v, frame)
        return v

    def e_Attribute(self, e, frame):
        o = self.eval(e.value, frame)
        return self.getattr(o, e.attr)

    def getattr(self, o, name):
        from . import models as _m
        return _m.getattr_(self, o, name)

    def e_Tuple(self, e, frame):
        return tuple(self._elts(e.elts, frame))

    def e_List(self, e, frame):
        h = getattr(self, "list_literal", None)
        if h is not None and not e.elts:  # `[]` as a ghost list (contract-supplied view of the accumulator)
            return h(self)
        return list(self._elts(e.elts, frame))

    def _elts(self, elts, frame):
        from . import models as _m
        out = []
        for x in elts:
            if isinstance(x, ast.Starred):
                out.extend(_m.iter_concrete(self, self.eval(x.value, frame)))
            else:
                out.append(self.eval(x, frame))
        return out

    def e_Set(self, e, frame):
        from . import models as _m
        return _m.make_set(self, self._elts(e.elts, frame))

    def e_Dict(self, e, frame):
        from . import models as _m
        d = _m.new_dict(self)
        for k, v in zip(e.keys, e.values):
            if k is None:
                src = self.eval(v, frame)
                for kk, vv in _m.dict_items(self, src):
                    _m.setitem(self, d, kk, vv)
            else:
                _m.setitem(self, d, self.eval(k, frame), self.eval(v, frame))
        return d

    def e_JoinedStr(self, e, frame):
        from . import models as _m
        parts = []
        for v in e.values:
            if isinstance(v, ast.Constant):
                parts.append(v.value)
            else:
                x = self.eval(v.value, frame)
                if v.format_spec is not None and v.conversion == -1 and not has_sym(x):
                    spec = self.eval(v.format_spec, frame)
                    if has_sym(spec):
                        raise OutOfSubset("symbolic format spec")
                    parts.append(format(x, spec))   # the spec applies to the value itself, not to its str()
                    continue
                if v.conversion == ord("r"):
                    x = _m.repr_(self, x)
                else:
                    x = _m.str_(self, x)
                if v.format_spec is not None:
                    spec = self.eval(v.format_spec, frame)
                    if has_sym(x) or has_sym(spec):
                        raise OutOfSubset("format spec on symbolic value")
                    x = format(x, spec)
                parts.append(x)
        if not any(isinstance(p, Sym) for p in parts):
            return "".join(parts)
        out = ""
        for p in parts:
            out = out + p if not (isinstance(out, str) and out == "") else p
        return out

    def e_IfExp(self, e, frame):
        c = self.eval(e.test, frame)
        t = self.truth_term(c)
        if isinstance(t, bool):
            return self.eval(e.body if t else e.orelse, frame)
        if self.pure:
            a = self.eval(e.body, frame)
            b = self.eval(e.orelse, frame)
            from .sym import Ite
            return Ite(SBool(t), a, b)
        if self.ex.branch(t):
            return self.eval(e.body, frame)
        return self.eval(e.orelse, frame)

    def e_BoolOp(self, e, frame):
        is_and = isinstance(e.op, ast.And)
        if self.pure:
            terms = []
            for x in e.values:
                t = self.truth_term(self.eval(x, frame))
                if isinstance(t, bool):
                    if t != is_and:
                        # short-circuit value known
                        terms.append(z3.BoolVal(t))
                        break
                    continue
                terms.append(t)
            if not terms:
                return is_and
            return SBool(z3.And(*terms) if is_and else z3.Or(*terms))
        v = None
        for x in e.values:
            v = self.eval(x, frame)
            if self.truth(v) != is_and:
                return v
        return v

    def e_UnaryOp(self, e, frame):
        v = self.eval(e.operand, frame)
        if isinstance(e.op, ast.Not):
            t = self.truth_term(v)
            if isinstance(t, bool):
                return not t
            return SBool(z3.Not(t))
        if isinstance(e.op, ast.USub):
            return -v
        if isinstance(e.op, ast.UAdd):
            return v
        if isinstance(e.op, ast.Invert):
            return ~v
        raise OutOfSubset("unary op")

    def e_BinOp(self, e, frame):
        from . import models as _m
        return _m.binop(self, e.op, self.eval(e.left, frame), self.eval(e.right, frame))

    def e_Compare(self, e, frame):
        from . import models as _m
        left = self.eval(e.left, frame)
        res = []
        for op, r in zip(e.ops, e.comparators):
            right = self.eval(r, frame)
            c = _m.compare(self, op, left, right)
            if c is False:
                return False
            if c is not True:
                if not isinstance(c, SBool):
                    # rich comparison returned a non-bool object
                    c2 = self.truth_term(c)
                    c = c2 if isinstance(c2, bool) else SBool(c2)
                    if c is False:
                        return False
                if c is not True:
                    res.append(c)
            left = right
        if not res:
            return True
        if len(res) == 1:
            return res[0]
        return And(*res)

    def e_Call(self, e, frame):
        from . import models as _m
        f = self.eval(e.func, frame)
        args = []
        for a in e.args:
            if isinstance(a, ast.Starred):
                sv = self.deopt(self.eval(a.value, frame))
                if (isinstance(sv, (SSeq, MutSet, SSet)) and not (isinstance(sv, MutSet) and sv.val is None)) or getattr(sv, "star_marker", False):
                    args.append(StarArgs(sv))   # symbolic-length star argument: handed over as one marker
                else:
                    args.extend(_m.iter_concrete(self, sv))
            else:
                args.append(self.eval(a, frame))
        kwargs = {}
        for k in e.keywords:
            if k.arg is None:
                kwargs.update(self.eval(k.value, frame))
            else:
                kwargs[k.arg] = self.eval(k.value, frame)
        if f is builtins.super and not args:
            return self._zero_arg_super(frame)
        if f is builtins.locals:
            return frame.locals
        return self.call(f, args, kwargs)

    def _zero_arg_super(self, frame):
        """super() inside a method: attribute lookup continues after the defining class in the instance's MRO."""
        from . import models as _m
        f = frame
        while f is not None and (f.closure is None or getattr(f.closure, "real", None) is None or isinstance(f.closure.node, ast.Lambda)):
            f = f.parent
        real = getattr(f.closure, "real", None) if f is not None else None
        cls = None
        if real is not None and real.__closure__:
            for name, cell in zip(real.__code__.co_freevars, real.__closure__):
                if name == "__class__":
                    cls = cell.cell_contents
        args = f.closure.node.args if f is not None else None
        first = (args.posonlyargs + args.args)[0].arg if args is not None and (args.posonlyargs + args.args) else None
        if cls is None or first is None or first not in f.locals:
            raise OutOfSubset("zero-argument super() outside a method with a __class__ cell")
        obj = f.locals[first]
        inst_cls = obj.cls if isinstance(obj, SObj) else (obj if isinstance(obj, type) else type(obj))
        mro = list(inst_cls.__mro__)
        if cls not in mro:
            raise OutOfSubset("super(): instance is not of the defining class")
        rest = mro[mro.index(cls) + 1:]
        it = self

        class SuperProxy(_m.ModelHost):
            def getattr(self_, it_, name):
                for c in rest:
                    if name in vars(c):
                        return _m.bind_descriptor(it, obj, vars(c)[name], name)
                _m._raise(AttributeError(name))
        return SuperProxy()

    def eval_slice(self, sl, frame):
        if isinstance(sl, ast.Slice):
            return slice(self.eval(sl.lower, frame) if sl.lower else None,
                         self.eval(sl.upper, frame) if sl.upper else None,
                         self.eval(sl.step, frame) if sl.step else None)
        return self.eval(sl, frame)

    def e_Subscript(self, e, frame):
        from . import models as _m
        o = self.eval(e.value, frame)
        k = self.eval_slice(e.slice, frame)
        return _m.getitem(self, o, k)

    def e_Lambda(self, e, frame):
        clo = Closure(frame.closure.ext if frame.closure else None, frame.globals, cells=frame, name="<lambda>", node=e)
        clo.defaults = tuple(self.eval(d, frame) for d in e.args.defaults)
        clo.kwdefaults = {p.arg: self.eval(d, frame) for p, d in zip(e.args.kwonlyargs, e.args.kw_defaults) if d is not None}
        return clo

    def e_Yield(self, e, frame):
        v = self.eval(e.value, frame) if e.value is not None else None
        if frame.yields is None:
            raise OutOfSubset("yield outside generator frame")
        flt = getattr(self, "yield_filter", None)
        if flt is not None and not flt(v):
            # the contract observes a projection of the output (e.g. without None placeholders); it counts what it drops
            self.yields_dropped = getattr(self, "yields_dropped", 0) + 1
            return None
        frame.yields.append(v)
        return None

    def e_YieldFrom(self, e, frame):
        from . import models as _m
        v = self.eval(e.value, frame)
        if isinstance(v, SSeq):
            frame.yields.append(Chunk(v))
        else:
            frame.yields.extend(_m.iter_concrete(self, v))
        return None

    # comprehensions -----------------------------------------------------
    def e_ListComp(self, e, frame):
        from . import loops
        return loops.comprehension(self, e, frame, "list")

    def e_GeneratorExp(self, e, frame):
        from . import loops
        return loops.comprehension(self, e, frame, "gen")

    def e_SetComp(self, e, frame):
        from . import loops
        return loops.comprehension(self, e, frame, "set")

    def e_DictComp(self, e, frame):
        from . import loops
        return loops.comprehension(self, e, frame, "dict")


class StarArgs(EngineValue):
    """`*collection` with a symbolic collection at a call site"""

    def __init__(self, seq):
        self.seq = seq


class _NeedPure(Exception):
    def __init__(self, t=None):
        self.t = t


_MISSING = object()
_MERGE_OK = (ast.Assign, ast.AugAssign, ast.AnnAssign, ast.Expr, ast.Pass)


def _mergeable(s):
    """`if` whose arms only assign / call (no control flow out of the arm)."""
    for arm in (s.body, s.orelse):
        for st in arm:
            if isinstance(st, ast.If):
                if not _mergeable(st):
                    return False
            elif not isinstance(st, _MERGE_OK):
                return False
            for n in ast.walk(st):
                if isinstance(n, (ast.Yield, ast.YieldFrom, ast.Await)):
                    return False
    return True


def merge_values(g, new, old):
    """ite(g, new, old) over engine values; NeedFork if not representable."""
    from .sym import Ite, Maybe
    if new is old:
        return new
    if isinstance(new, Maybe) or isinstance(old, Maybe):
        np_, nv = (new.present, new.val) if isinstance(new, Maybe) else (z3.BoolVal(True), new)
        op_, ov = (old.present, old.val) if isinstance(old, Maybe) else (z3.BoolVal(True), old)
        return Maybe(z3.simplify(z3.If(g, np_, op_)), merge_values(g, nv, ov))
    kn, ko = kind_of(new), kind_of(old)
    if kn is not None and ko is not None and kn.name == ko.name:
        if not isinstance(new, Sym) and not isinstance(old, Sym) and new == old and type(new) is type(old):
            return new
        return Ite(SBool(g), new, old)
    if isinstance(new, MutSet) and isinstance(old, MutSet):
        raise NeedFork("set rebinding under a merged if")
    if isinstance(new, Opt) or isinstance(old, Opt) or new is None or old is None:
        no = new if isinstance(new, Opt) else Opt(z3.BoolVal(new is None), new)
        oo = old if isinstance(old, Opt) else Opt(z3.BoolVal(old is None), old)
        if no.val is None:
            val = oo.val
        elif oo.val is None:
            val = no.val
        else:
            val = merge_values(g, no.val, oo.val)
        return Opt(z3.simplify(z3.If(g, no.isnone, oo.isnone)), val)
    if isinstance(new, tuple) and isinstance(old, tuple) and len(new) == len(old):
        return tuple(merge_values(g, a, b) for a, b in zip(new, old))
    if not has_sym(new) and not has_sym(old):
        try:
            if type(new) is type(old) and new == old:
                return new
        except Exception:
            pass
    raise NeedFork(f"cannot merge {new!r} with {old!r}")


class _GlobFrame(Frame):
    def __init__(self, globs):
        super().__init__(None, {}, None)
        self.globals = globs


class Chunk(EngineValue):
    """A symbolic run of yielded items inside a generator's output."""

    def __init__(self, seq):
        self.seq = seq


class GenResult(EngineValue):
    """Eagerly collected output of a generator call (items and symbolic chunks).
    Assumption (listed in the evidence): generators under contract have no
    side effects that a consumer could observe between items."""

    def __init__(self, items):
        self.items = items

    def has_chunks(self):
        return any(isinstance(x, Chunk) for x in self.items)


def _as_load(t):
    import copy
    t2 = copy.copy(t)
    t2.ctx = ast.Load()
    return t2


def _is_logger_call(e):
    return (isinstance(e, ast.Call) and isinstance(e.func, ast.Attribute) and isinstance(e.func.value, ast.Name)
            and e.func.value.id == "logger")
