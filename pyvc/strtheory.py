"""String-library functions as uninterpreted functions plus axioms.

Each axiom is a true fact about CPython's str methods (differential-tested by
`./check selftest`); nothing else is assumed about the functions.
"""
import z3

from . import theory
from .sym import SStr, SSeq, SInt, SBool, KSeq, KStr, S, I, OutOfSubset, And, Or, Not, concrete_of

STRSEQ = z3.SeqSort(z3.StringSort())


def join(sep, items: SSeq):
    """sep.join(items) for a symbolic sequence of strings."""
    f = theory.ufun("str_join", z3.StringSort(), STRSEQ, z3.StringSort())
    t = f(S(sep), items.t)
    n = z3.Length(items.t)
    # facts: empty -> "", singleton -> the item; length is at least the separators
    theory._add_axiom(("join", t.get_id()), z3.And(
        z3.Implies(n == 0, t == z3.StringVal("")),
        z3.Implies(n == 1, t == items.t[0]),
        z3.Implies(n >= 1, z3.Length(t) >= (n - 1) * z3.Length(S(sep)))))
    return SStr(t)


def _is_ws_free_chars(chars):
    return chars is not None


def _structural_rstrip(it, s, chars):
    """rstrip of a concatenation that ends in string literals, where the opaque pieces next to the end were declared free of every
    character of `chars` by the contract (it.sepfree[c]): exact, no string theory needed.  None when the shape does not allow it."""
    frees = [getattr(it, "sepfree", {}).get(c) for c in chars]
    if any(f is None for f in frees):
        return None
    t = z3.simplify(s.t)

    def flat(x):
        if x.decl().kind() == z3.Z3_OP_SEQ_CONCAT:
            for i in range(x.num_args()):
                yield from flat(x.arg(i))
        else:
            yield x
    parts = list(flat(t))
    # strip the literal tail
    while parts and z3.is_string_value(parts[-1]):
        lit = parts[-1].as_string().rstrip(chars)
        if lit:
            parts[-1] = z3.StringVal(lit)
            break
        parts.pop()
    else:
        if not parts:
            return ""
    if z3.is_string_value(parts[-1]):
        pass   # ends in a literal that does not end in a stripped character
    else:
        # ends in opaque pieces: each must be free of the stripped characters, and since any of them may be empty the first literal
        # before them must not end in one either
        j = len(parts) - 1
        while j >= 0 and not z3.is_string_value(parts[j]):
            if not all(any(parts[j].eq(f) for f in fr) for fr in frees):
                return None
            j -= 1
        if j >= 0:
            lit = parts[j].as_string()
            if not lit or lit[-1] in chars:
                return None
    term = parts[0] if len(parts) == 1 else z3.Concat(*parts)
    term = z3.simplify(term)
    return term.as_string() if z3.is_string_value(term) else SStr(term)


def strip(it, s, chars, left, right):
    """s.strip/lstrip/rstrip(chars): result r with s == l + r + t, l and t made only of
    `chars`, r not starting/ending with a char of `chars`."""
    if chars is None:
        chars = " \t\n\r\x0b\x0c"
    if not isinstance(chars, str):
        raise OutOfSubset("strip with symbolic character set")
    if not isinstance(s, SStr):
        s = SStr(S(s))
    if right and not left and chars:
        st = _structural_rstrip(it, s, chars)
        if st is not None:
            return st
    cls = z3.Union(*[z3.Re(c) for c in chars]) if len(chars) > 1 else z3.Re(chars)
    # strip is a *function* of its argument: uninterpreted, with its defining facts per application
    tag = "".join(f"{ord(c):02x}" for c in chars) + ("l" if left else "") + ("r" if right else "")
    f = theory.ufun(f"str_strip_{tag}", z3.StringSort(), z3.StringSort())
    fl = theory.ufun(f"str_strip_{tag}_lpad", z3.StringSort(), z3.StringSort())
    fr = theory.ufun(f"str_strip_{tag}_rpad", z3.StringSort(), z3.StringSort())
    r = f(s.t)
    l = fl(s.t) if left else z3.StringVal("")
    t = fr(s.t) if right else z3.StringVal("")
    any_ = z3.Full(z3.ReSort(z3.StringSort()))
    facts = [s.t == z3.Concat(l, r, t)]
    if left:
        facts += [z3.InRe(l, z3.Star(cls)), z3.Not(z3.InRe(r, z3.Concat(cls, any_)))]
    if right:
        facts += [z3.InRe(t, z3.Star(cls)), z3.Not(z3.InRe(r, z3.Concat(any_, cls)))]
    theory._add_axiom(("strip", tag, r.get_id()), z3.And(*facts))
    return SStr(r)


def partition(it, s, sep):
    """s.partition(sep) -> (head, sep', tail)."""
    if not isinstance(s, SStr):
        s = SStr(S(s))
    sp = S(sep)
    idx = z3.IndexOf(s.t, sp, 0)
    found = idx >= 0
    head = z3.If(found, z3.SubString(s.t, 0, idx), s.t)
    mid = z3.If(found, sp, z3.StringVal(""))
    tail = z3.If(found, z3.SubString(s.t, idx + z3.Length(sp), z3.Length(s.t)), z3.StringVal(""))
    return (SStr(head), SStr(mid), SStr(tail))


def rpartition(it, s, sep):
    if not isinstance(s, SStr):
        s = SStr(S(s))
    sp = S(sep)
    idx = z3.LastIndexOf(s.t, sp)
    found = idx >= 0
    head = z3.If(found, z3.SubString(s.t, 0, idx), z3.StringVal(""))
    mid = z3.If(found, sp, z3.StringVal(""))
    tail = z3.If(found, z3.SubString(s.t, idx + z3.Length(sp), z3.Length(s.t)), s.t)
    return (SStr(head), SStr(mid), SStr(tail))


def _structural_split(it, s, sep):
    """split of a concatenation of string literals and opaque terms the contract declared free of `sep`
    (it.sepfree[sep] = list of z3 terms): an exact python list with a concrete spine."""
    free = getattr(it, "sepfree", {}).get(sep)
    if free is None:
        return None
    t = z3.simplify(s.t)

    def flat(x):
        if x.decl().kind() == z3.Z3_OP_SEQ_CONCAT:
            for i in range(x.num_args()):
                yield from flat(x.arg(i))
        else:
            yield x
    parts = list(flat(t))
    pieces, cur = [], []
    for p in parts:
        if z3.is_string_value(p):
            segs = p.as_string().split(sep)
            cur.append(z3.StringVal(segs[0]))
            for seg in segs[1:]:
                pieces.append(cur)
                cur = [z3.StringVal(seg)]
        elif any(p.eq(f) for f in free):
            cur.append(p)
        else:
            return None
    pieces.append(cur)
    out = []
    for c in pieces:
        c = [x for x in c if not (z3.is_string_value(x) and x.as_string() == "")] or [z3.StringVal("")]
        term = c[0] if len(c) == 1 else z3.Concat(*c)
        term = z3.simplify(term)
        out.append(term.as_string() if z3.is_string_value(term) else SStr(term))
    return out


def split(it, s, sep, maxsplit):
    """s.split(sep[, maxsplit]) with a concrete non-empty separator."""
    h = getattr(it, "split_hook", None)
    if h is not None:
        r = h(it, s, sep, maxsplit)
        if r is not None:
            return r
    if sep is None or not isinstance(sep, str) or not sep:
        raise OutOfSubset("split() on whitespace / symbolic separator")
    if not isinstance(s, SStr):
        s = SStr(S(s))
    mc = concrete_of(maxsplit) if not isinstance(maxsplit, int) else maxsplit
    if isinstance(mc, int) and 0 <= mc <= 4:
        parts, rest = [], s
        for _ in range(mc):
            idx = z3.IndexOf(rest.t, S(sep), 0)
            if not it.truth(SBool(idx >= 0)):
                break
            parts.append(SStr(z3.SubString(rest.t, 0, idx)))
            rest = SStr(z3.SubString(rest.t, idx + len(sep), z3.Length(rest.t)))
        parts.append(rest)
        return parts
    st = _structural_split(it, s, sep)
    if st is not None and (not isinstance(mc, int) or mc < 0):
        return st
    f = theory.ufun("str_split", z3.StringSort(), z3.StringSort(), STRSEQ)
    r = SSeq(f(s.t, S(sep)), KSeq(KStr, "list"))
    jn = theory.ufun("str_join", z3.StringSort(), STRSEQ, z3.StringSort())
    theory._add_axiom(("split", r.t.get_id()), z3.And(
        z3.Length(r.t) >= 1,
        jn(S(sep), r.t) == s.t,
        z3.Implies(z3.Not(z3.Contains(s.t, S(sep))), r.t == z3.Unit(s.t))))
    return r


def rsplit(it, s, sep, maxsplit):
    if sep is None or not isinstance(sep, str) or not sep:
        raise OutOfSubset("rsplit() on whitespace / symbolic separator")
    if not isinstance(s, SStr):
        s = SStr(S(s))
    mc = concrete_of(maxsplit) if not isinstance(maxsplit, int) else maxsplit
    if isinstance(mc, int) and 0 <= mc <= 4:
        parts, rest = [], s
        for _ in range(mc):
            idx = z3.LastIndexOf(rest.t, S(sep))
            if not it.truth(SBool(idx >= 0)):
                break
            parts.insert(0, SStr(z3.SubString(rest.t, idx + len(sep), z3.Length(rest.t))))
            rest = SStr(z3.SubString(rest.t, 0, idx))
        parts.insert(0, rest)
        return parts
    return split(it, s, sep, -1)


def lower(it, s):
    f = theory.ufun("str_lower", z3.StringSort(), z3.StringSort())
    t = f(s.t)
    theory._add_axiom(("lower", t.get_id()), z3.And(z3.Length(t) == z3.Length(s.t), f(t) == t))
    return SStr(t)
