"""Spec-level functions with their defining axioms (the trusted builtin theory).

Every function here is an uninterpreted z3 function plus axioms that are added
to the current Explorer (so they accompany every query of that exploration).
Each axiom has an executable twin in pyvc.axioms_test which is differential-
tested against CPython on every run.
"""
import z3
from .sym import (SSeq, SSet, SStr, SInt, SBool, KSet, KSeq, KStr, KInt, fresh_name, OutOfSubset)

CURRENT = None  # the Explorer whose run is active (set by Explorer.run)


def _add_axiom(key, ax):
    ex = CURRENT
    if ex is None:
        raise RuntimeError("theory used outside an exploration")
    if key not in ex.axiom_keys:
        ex.axiom_keys.add(key)
        ex.axioms.append(ax)


_funcs = {}


def ufun(name, *sorts):
    key = (name,) + tuple(str(s) for s in sorts)
    if key not in _funcs:
        _funcs[key] = z3.Function(name, *sorts)
    return _funcs[key]


def elems_term(t, elem_sort):
    """Set of elements of the sequence term t, decomposed structurally."""
    k = t.decl().kind()
    if k == z3.Z3_OP_SEQ_CONCAT:
        out = elems_term(t.arg(0), elem_sort)
        for i in range(1, t.num_args()):
            out = z3.SetUnion(out, elems_term(t.arg(i), elem_sort))
        return out
    if k == z3.Z3_OP_SEQ_UNIT:
        return z3.SetAdd(z3.EmptySet(elem_sort), t.arg(0))
    if k == z3.Z3_OP_SEQ_EMPTY:
        return z3.EmptySet(elem_sort)
    f = ufun(f"elems_{elem_sort}", t.sort(), z3.SetSort(elem_sort))
    # quantifier-free link between the sequence and its element set; membership
    # of s[i] is added where s[i] is formed (note_at).  elems of a sequence is
    # finite in python; z3 may pick an infinite set in a counter-model, which
    # then fails to concretise (reported as no-failing-input-found).
    _add_axiom(("elems", t.get_id()), (z3.Length(t) == 0) == (f(t) == z3.EmptySet(elem_sort)))
    return f(t)


def _use_elems():
    ex = CURRENT
    if ex is not None and not getattr(ex, "_elems_used", False):
        ex._elems_used = True
        for a in getattr(ex, "_pending_at", []):
            note_at(*a, _flush=True)
        ex._pending_at = []


def note_at(seq_t, idx_t, elem_sort, _flush=False):
    """s[i] with 0 <= i < len(s) is an element of s."""
    if CURRENT is None:
        return
    # the membership facts only matter once the path uses element sets (`in`, set(), ...):
    # until then they are held back, so pure string/arith queries stay free of array theory
    if not getattr(CURRENT, "_elems_used", False) and not _flush:
        if not hasattr(CURRENT, "_pending_at"):
            CURRENT._pending_at = []
        CURRENT._pending_at.append((seq_t, idx_t, elem_sort))
        return
    st = z3.simplify(seq_t)
    e = elems_term(st, elem_sort)
    _add_axiom(("at", st.get_id(), z3.simplify(idx_t).get_id()),
               z3.Implies(z3.And(idx_t >= 0, idx_t < z3.Length(st)), z3.IsMember(st[idx_t], e)))


def elems(seq: SSeq, py="set"):
    _use_elems()
    ek = seq.kind.elem
    return SSet(elems_term(z3.simplify(seq.t), ek.sort), KSet(ek, py))
