"""Toy functions for `./check selftest`: each exercises builtin / string / container models the contracts rely on.
They are extracted from this file exactly like functions of /repo and run (1) by CPython and (2) symbolically on
inputs pinned to the same values; the two results must agree.  The *_ok / *_mut functions are contract probes:
the engine has to prove the stated postcondition for *_ok and refute it for *_mut."""


# ---- strings ---------------------------------------------------------------
def s_concat_slice(a, b):
    c = a + "-" + b
    return c[1:], c[:-1], c[2:4], len(c), c[-1:] if c else ""


def s_prefix_suffix(a, b):
    return a.startswith(b), a.endswith(b), b in a, a.find(b), a == b, a != b, a < b


def s_strip(a):
    return a.strip(), a.lstrip("-"), a.rstrip("/"), a.lstrip("-+"), a.rstrip()


def s_case_digit(a):
    return a.isdigit(), a[:1].isdigit(), (a + "1").isdigit(), a.lower() == a.lower().lower(), len(a.lower()) == len(a)


def s_lower_concrete_pieces(a):
    # lower() of a constant is evaluated, lower() of a symbolic string is an uninterpreted function with axioms
    return "AbC".lower() + a, ("X:".lower()[:-1] + "_" + a)


def s_split_join(a):
    parts = a.split("/")
    return len(parts), "/".join(parts), parts[0], parts[-1]


def s_partition(a):
    h, sep, t = a.partition(":")
    return h, sep, t, a.rpartition("-")[2]


def s_replace_first(a):
    return a.replace("a", "bb", 1), a.replace("-", "", 1)


def s_replace_all(a):
    return a.replace("a", "bb"), a.replace("\\*", ".*"), a.replace("aa", "a")


def s_find_index(a):
    i = a.find("-")
    j = a.rfind("/")
    return i, j, a[:i] if i >= 0 else a, a[j + 1:]


def s_int_text(a):
    # int() of a digit string (the C21 / C24 / C26 decoders)
    if a.isdigit():
        return int(a), int(a) + 1, int(a[:1]) if a[:1] else -1
    return None


def s_format(a, n):
    return f"x{a}y", f"{a}-{a}", "%s:%s" % (a, a), f"{n}" == str(n), "{}-{}".format(a, "k")


def s_index_chars(a):
    out = []
    for ch in a:
        if ch == "-":
            out.append("+")
        else:
            out.append(ch)
    return "".join(out), a[0] if a else None


def s_compare_chain(a, b, c):
    return a <= b <= c, min(a, b, c), max(a, b), a < b or b < c, not (a == c)


# ---- integers --------------------------------------------------------------
def i_arith(x, y):
    q = x // y if y else 0
    r = x % y if y else 0
    return x + y, x - y, x * 3, q, r, -x, abs(x), x == y, x < y <= x + 5


def i_minmax(x, y, z):
    return min(x, y), max(x, y, z), min(x, max(y, z)), (x if x > y else y) == max(x, y)


def i_bits(m):
    # modes are bit vectors (kind "mode"), as in C23 / C18
    return m & 0o777, m | 0o4000, m & ~0o022, (m & 0o2) != 0, (m & 0o6000) == 0o6000, m & 0o7777 == m


def i_loop_sum(n):
    total = 0
    i = 0
    while i < n:
        if i % 2:
            total += i
        i += 1
    return total, i


# ---- sequences -------------------------------------------------------------
def q_basic(xs, v):
    return len(xs), v in xs, xs[0] if xs else None, xs[-1] if xs else None, xs[1:], xs[:2]


def q_reversed(xs):
    out = []
    for x in reversed(xs):
        out.append(x)
    return out


def q_comprehension(xs, v):
    return [x + 1 for x in xs if x != v], any(x == v for x in xs), all(x >= v for x in xs)


def q_sum(xs, v):
    return sum(xs), sum(1 for x in xs if x > v), len([x for x in xs if x == v])


def q_enumerate_zip(xs, ys):
    out = []
    for i, x in enumerate(xs):
        out.append(i * x)
    return out, [a + b for a, b in zip(xs, ys)], list(zip(xs, ys))[:1]


def q_accumulate(xs):
    acc = []
    best = None
    for x in xs:
        if best is None or x > best:
            best = x
        acc.append(best)
    return acc, best


def q_sorted(xs):
    return sorted(xs), sorted(xs, reverse=True), sorted(set(xs))


def q_early_exit(xs, v):
    for i, x in enumerate(xs):
        if x == v:
            return i
        if x > 100:
            break
    else:
        return -1
    return -2


def q_strings(ws, w):
    return [x for x in ws if "-" not in x], w in ws, "".join(ws), "/".join(ws), tuple(x + w for x in ws)


# ---- sets and dicts --------------------------------------------------------
def t_sets(a, b, x):
    s = set(a)
    s.add(x)
    s.discard("zz")
    u = s | set(b)
    d = s - set(b)
    i = s & set(b)
    return u, d, i, x in s, s <= u, s.isdisjoint(b), "zz" in s, x in d


def t_set_update(a, b):
    s = set(a)
    s.update(b)
    s.difference_update(["q"])
    t = set(b)
    t.intersection_update(a)
    return s, t, frozenset(a) == frozenset(b), "q" in s


def t_dict(ks, k):
    d = {"a": 1, "b": 2}
    for i, key in enumerate(ks):
        d[key] = i + 10
    return d.get(k), k in d, d.get(k, -1), d["a"], len(d) >= 2


def t_incremental(tokens):
    s = set()
    for t in tokens:
        if t == "-*":
            s.clear()
        elif t.startswith("-"):
            s.discard(t[1:])
        else:
            s.add(t)
    return s


# ---- control flow ----------------------------------------------------------
def c_exceptions(xs, i):
    try:
        v = xs[i]
    except IndexError:
        return "index"
    try:
        return 10 // v
    except ZeroDivisionError as e:
        return "zero"
    finally:
        pass


def c_generator(xs):
    def gen(seq):
        for x in seq:
            if x < 0:
                continue
            yield x
            if x == 0:
                return
    return list(gen(xs)), tuple(gen(xs[1:]))


def c_nested_closure(x, y):
    def add(z):
        return x + z
    f = lambda q: add(q) * y
    return f(1), [add(k) for k in (1, 2)], (lambda: x)()


def c_unpack_ternary(p):
    a, (b, c) = p[0], (p[1], p[2])
    a, b = b, a
    return (a if a > b else b), c or -1, not c, [*p, a], {"k": a}.get("k")


# ---- contract probes -------------------------------------------------------
def max_index_ok(xs):
    best = 0
    for i in range(len(xs)):
        if xs[i] > xs[best]:
            best = i
    return best


def max_index_mut(xs):
    best = 0
    for i in range(len(xs) - 1):
        if xs[i] > xs[best]:
            best = i
    return best


def clamp_ok(x, lo, hi):
    if x < lo:
        return lo
    if x > hi:
        return hi
    return x


def clamp_mut(x, lo, hi):
    if x < lo:
        return lo
    if x >= hi:
        return hi - 1
    return x


def strip_prefix_ok(s, p):
    if s.startswith(p):
        return s[len(p):]
    return s


def strip_prefix_mut(s, p):
    if s.startswith(p):
        return s[len(p) + 1:]
    return s


def dedup_ok(xs):
    seen = set()
    out = []
    for x in xs:
        if x not in seen:
            seen.add(x)
            out.append(x)
    return out


def dedup_mut(xs):
    seen = set()
    out = []
    for x in xs:
        if x not in seen:
            out.append(x)
        seen.add(x)
        if len(out) > 2:
            break
    return out
