"""Mechanical extraction of function bodies from /repo's current working tree.

What extraction drops (and nothing else): docstrings, type annotations,
decorators (listed per function in the evidence).  The AST that is executed
symbolically is the AST of the file as it is on disk at the moment of the run;
its SHA-256 is recorded.
"""
import ast
import hashlib
import os

REPO = os.environ.get("PYVC_REPO", "/repo")

_files = {}
USED = {}  # (relpath, qualname) -> info dict, for the evidence


class Extracted:
    def __init__(self, relpath, qualname, node, source, decorators, cls_node=None):
        self.relpath, self.qualname, self.node = relpath, qualname, node
        self.source = source
        self.sha256 = hashlib.sha256(source.encode()).hexdigest()
        self.decorators = decorators
        self.cls_node = cls_node
        # loops in source order -> ordinals
        self.loops = [n for n in ast.walk(node) if isinstance(n, (ast.For, ast.While))]
        self.loops.sort(key=lambda n: (n.lineno, n.col_offset))
        self.is_generator = _is_generator(node)

    def loop_ordinal(self, node):
        for i, n in enumerate(self.loops):
            if n is node:
                return i
        return None

    def info(self):
        return {"file": self.relpath, "function": self.qualname, "sha256": self.sha256,
                "dropped_decorators": self.decorators, "lines": [self.node.lineno, self.node.end_lineno]}


def _is_generator(fn):
    class V(ast.NodeVisitor):
        found = False

        def visit_Yield(self, n):
            self.found = True

        def visit_YieldFrom(self, n):
            self.found = True

        def visit_FunctionDef(self, n):
            if n is fn:
                self.generic_visit(n)

        visit_AsyncFunctionDef = visit_FunctionDef

        def visit_Lambda(self, n):
            pass

    v = V()
    v.visit(fn)
    return v.found


def parse_file(relpath):
    path = relpath if os.path.isabs(relpath) else os.path.join(REPO, relpath)
    path = os.path.realpath(path)
    st = os.stat(path)
    key = (path, st.st_mtime_ns, st.st_size)
    if _files.get(path, (None,))[0] != key:
        with open(path, encoding="utf-8") as f:
            text = f.read()
        _files[path] = (key, text, ast.parse(text, filename=path))
    return _files[path][1], _files[path][2]


def _find(body, parts, cls=None):
    name = parts[0]
    if name == "<locals>":
        return _find(body, parts[1:], cls)
    for node in body:
        cands = [node]
        # definitions nested in if/try at module or class level
        if isinstance(node, (ast.If, ast.Try)):
            cands = list(ast.walk(node))
        for n in cands:
            if isinstance(n, (ast.FunctionDef, ast.ClassDef, ast.AsyncFunctionDef)) and n.name == name:
                if len(parts) == 1:
                    return n, cls
                return _find(n.body, parts[1:], n if isinstance(n, ast.ClassDef) else cls)
    raise KeyError(name)


def _deep_find(tree, parts):
    """qualnames with <locals> may sit under arbitrary statements."""
    try:
        return _find(tree.body, parts)
    except KeyError:
        pass
    # fall back: search every function/class with the final chain by walking
    def walk(node, rest, cls):
        if not rest:
            return node, cls
        name = rest[0]
        if name == "<locals>":
            return walk(node, rest[1:], cls)
        for n in ast.walk(node):
            if n is node:
                continue
            if isinstance(n, (ast.FunctionDef, ast.ClassDef, ast.AsyncFunctionDef)) and n.name == name:
                r = walk(n, rest[1:], n if isinstance(n, ast.ClassDef) else cls)
                if r:
                    return r
        return None
    r = walk(tree, parts, None)
    if not r:
        raise KeyError(".".join(parts))
    return r


def extract(relpath, qualname):
    text, tree = parse_file(relpath)
    node, cls = _deep_find(tree, qualname.split("."))
    if not isinstance(node, (ast.FunctionDef, ast.AsyncFunctionDef)):
        raise KeyError(f"{qualname} in {relpath} is not a function")
    src = ast.get_source_segment(text, node) or ""
    decos = [ast.unparse(d) for d in node.decorator_list]
    rel = os.path.relpath(os.path.realpath(os.path.join(REPO, relpath)), REPO) if not os.path.isabs(relpath) else relpath
    ex = Extracted(rel, qualname, node, src, decos, cls)
    USED[(rel, qualname)] = ex.info()
    return ex


def extract_class(relpath, qualname):
    text, tree = parse_file(relpath)
    node, _ = _deep_find(tree, qualname.split("."))
    return node


_by_func = {}


def extract_func(func):
    """Extract the definition of a real function object from its file on disk."""
    code = func.__code__
    key = (code.co_filename, func.__qualname__, code.co_firstlineno)
    if key not in _by_func:
        path = os.path.realpath(code.co_filename)
        rel = os.path.relpath(path, REPO) if path.startswith(os.path.realpath(REPO) + os.sep) else path
        _by_func[key] = extract(rel, func.__qualname__)
    return _by_func[key]
