/-
C41, composition lemma over the contracts of map_async / iter_queue (DESIGN.md section 4, C41).

Abstract history of one call of map_async with `n` items and `p` started worker threads:
* the feeder contract gives the put sequence: entry `k` is item `k` for `k < n` and an end marker for `n ≤ k < n + p`;
* `queue.Queue` (assumed linearizable FIFO, every entry delivered to exactly one get) gives: there were `g ≤ n + p` gets and
  the `k`-th get returned entry `k`; `owner k` is the worker that performed it;
* the iter_queue contract (kill flag never set) gives: a worker that has returned took an end marker, and all `p` workers
  have returned when map_async returns (every thread joined): `h`.
Conclusion: `g = n + p`, i.e. every entry -- in particular every item -- was taken, by exactly one get (get `k` is the only one
that returns entry `k`), hence handed on by exactly one iter_queue exactly once (its contract: yields exactly what it dequeued).
-/
import Mathlib.Data.Fintype.Card
import Mathlib.Order.Interval.Finset.Nat

theorem c41_every_entry_taken (n p g : ℕ) (hg : g ≤ n + p) (hp : 0 < n → 0 < p) (owner : ℕ → Fin p)
    (h : ∀ w : Fin p, ∃ k, n ≤ k ∧ k < g ∧ owner k = w) : g = n + p := by
  have hsurj : Set.SurjOn owner (↑(Finset.Ico n g)) (↑(Finset.univ : Finset (Fin p))) := by
    intro w _
    obtain ⟨k, hk1, hk2, hk3⟩ := h w
    exact ⟨k, by simp [hk1, hk2], hk3⟩
  have hcard := Finset.card_le_card_of_surjOn owner hsurj
  simp at hcard
  rcases Nat.eq_zero_or_pos p with hp0 | hp0
  · subst hp0
    have : n = 0 := by
      by_contra hn
      exact absurd (hp (Nat.pos_of_ne_zero hn)) (lt_irrefl 0)
    omega
  · obtain ⟨k, hk1, hk2, _⟩ := h ⟨0, hp0⟩
    omega

/-- at most one end marker per worker (iter_queue contract) and `g ≤ n + p`: no worker can take a second one, so the
    `p` end markers suffice for all workers to stop -- stated for completeness: with one end marker per worker the owners of the
    end-marker gets are pairwise distinct. -/
theorem c41_end_markers_one_each (n p g : ℕ) (hg : g = n + p) (owner : ℕ → Fin p)
    (h : ∀ w : Fin p, ∃ k, n ≤ k ∧ k < g ∧ owner k = w) :
    ∀ k₁ k₂, n ≤ k₁ → k₁ < g → n ≤ k₂ → k₂ < g → owner k₁ = owner k₂ → k₁ = k₂ := by
  have hsurj : Set.SurjOn owner (↑(Finset.Ico n g)) (↑(Finset.univ : Finset (Fin p))) := by
    intro w _
    obtain ⟨k, hk1, hk2, hk3⟩ := h w
    exact ⟨k, by simp [hk1, hk2], hk3⟩
  have hcard : (Finset.Ico n g).card ≤ (Finset.univ : Finset (Fin p)).card := by
    simp; omega
  have hinj := Finset.injOn_of_surjOn_of_card_le owner (by intro a _; simp) hsurj hcard
  intro k₁ k₂ a1 a2 b1 b2 e
  exact hinj (by simp [a1, a2]) (by simp [b1, b2]) e
