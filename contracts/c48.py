"""C48 -- cached metadata is used only while the ebuild and every inherited eclass are unchanged (DESIGN.md section 4, C48)."""
import itertools
import os
import z3
from pyvc.api import Task, call, Interp, LoopSpec, Contract
from pyvc.sym import (KInt, KStr, KSeq, KRef, SBool, SInt, SStr, SRef, SObj, Opt, Maybe, And, Or, Not, Implies, fresh_name)
from pyvc import theory, hosts, models

PROPERTY = "C48"
F_CACHE = "src/pkgcore/cache/__init__.py"
F_ECL = "src/pkgcore/ebuild/eclass_cache.py"

MANIFEST = {
    "text": "Unbounded proof that cache.base.validate_entry returns True exactly when the entry records the ebuild's current "
            "checksum and (records no eclasses, or has INHERIT and every recorded eclass is still valid), touching the entry only "
            "in that case; and that eclass_cache.rebuild_cache_entry (record list of any length, loop invariant over a recursively "
            "defined all-records-valid predicate) returns None exactly when some recorded eclass is missing or one of its recorded "
            "(checksum kind, value) pairs differs from the eclass's current attribute.",
    "note": "Trusted: each eclass record carries at most 3 (kind, value) pairs (pkgcore's formats use 1 or 2); recorded values are "
            "never None; dict.get; validate_entry sees rebuild_cache_entry through its contract; package_factory._get_metadata "
            "(regeneration through the ebuild daemon) is not under contract; pyvc encoder.",
}
ASSUMPTIONS = [
    "an eclass record is (name, ((kind, value), ...)) with 1 to 3 pairs; recorded values are not None",
    "the eclass database is an arbitrary mapping name -> eclass data; eclass data attributes are an arbitrary partial function (kind -> value)",
    "validate_entry is checked against rebuild_cache_entry's contract (result None iff some recorded eclass is stale), not its body",
]

Val = KRef("ChfValue")
Data = KRef("EclassData")
Rec = KRef("EclassRecord")
MAXP = 3


def rec_funcs():
    name = theory.ufun("rec_name", Rec.sort, z3.StringSort())
    nchk = theory.ufun("rec_nchk", Rec.sort, z3.IntSort())
    chf = [theory.ufun(f"rec_chf{i}", Rec.sort, z3.StringSort()) for i in range(MAXP)]
    val = [theory.ufun(f"rec_val{i}", Rec.sort, Val.sort) for i in range(MAXP)]
    has_attr = theory.ufun("data_hasattr", Data.sort, z3.StringSort(), z3.BoolSort())
    attr = theory.ufun("data_attr", Data.sort, z3.StringSort(), Val.sort)
    return name, nchk, chf, val, has_attr, attr


def t_rebuild(ex):
    import pkgcore.ebuild.eclass_cache as EC
    name, nchk, chf, val, has_attr, attr = rec_funcs()
    P = "C48.rebuild_cache_entry"
    recs = KSeq(Rec).fresh("entry_eclasses")
    ec = hosts.MapHost("eclasses", KStr, Data)

    def rec_ok(x):
        """the property: the recorded eclass still exists with every recorded checksum"""
        d = ec.val_f(name(x))
        pairs = [z3.Implies(nchk(x) > i, z3.And(has_attr(d, chf[i](x)), attr(d, chf[i](x)) == val[i](x))) for i in range(MAXP)]
        return z3.And(ec.has_f(name(x)), *pairs)

    OK = theory.ufun("all_records_ok", z3.IntSort(), z3.BoolSort())
    theory._add_axiom(("OK", "base"), OK(0))

    def unfold(k):
        kt = k.t if isinstance(k, SInt) else z3.IntVal(k)
        theory._add_axiom(("OK", "unfold", z3.simplify(kt).get_id()),
                          z3.Implies(z3.And(kt >= 0, kt < z3.Length(recs.t)), OK(kt + 1) == z3.And(OK(kt), rec_ok(recs.t[kt]))))

    def inv(L, k):
        unfold(k)
        kt = k.t if isinstance(k, SInt) else z3.IntVal(k)
        return SBool(OK(kt))

    def unpack_rec(it, x):
        n = SInt(nchk(x.t))
        pairs = []
        for i in range(MAXP):
            if not it.truth(n > i):
                break
            pairs.append((SStr(chf[i](x.t)), Val.wrap(val[i](x.t))))
        return [SStr(name(x.t)), tuple(pairs)]

    def my_getattr(it, o, nm, *default):
        if isinstance(nm, SStr) and isinstance(o, SRef) and o.kind is Data:
            if not default:
                raise models.OutOfSubset("getattr with symbolic name and no default")
            if default[0] is not None:
                raise models.OutOfSubset("getattr default")
            return Opt(z3.Not(has_attr(o.t, nm.t)), Val.wrap(attr(o.t, nm.t)))
        if isinstance(nm, SStr) and o is None and default:
            return default[0]  # None has no checksum attributes
        return models.m_getattr(it, o, nm, *default)

    loops = {("base.rebuild_cache_entry", 0): LoopSpec(inv, havoc={"d": lambda it: {models.SYMKEYS: []}}, mutates=["d"],
                                                      elem_assume=lambda x: And(SInt(nchk(x.t)) >= 1, SInt(nchk(x.t)) <= MAXP))}
    it = Interp(ex, label=P, loops=loops, models={getattr: my_getattr})
    it.ref_unpack = {"EclassRecord": unpack_rec}
    fn = it.target(F_ECL, "base.rebuild_cache_entry")
    self_ = SObj(EC.base, {"eclasses": ec})
    ex.inputs.update({"n_records": recs.length()})
    out = call(it, fn, self_, recs)
    ex.oblige(f"{P}.raises.nothing", not out.raised, kind="exceptional-postcondition")
    if out.raised:
        return
    n = z3.Length(recs.t)
    if out.value is None:
        ex.cover("stale")
        k = it.loop_k.get(("base.rebuild_cache_entry", 0))
        ex.oblige(f"{P}.ensures.none_only_when_a_record_is_stale",
                  k is not None and And(k >= 0, SBool(k.t < n), SBool(z3.Not(rec_ok(recs.t[k.t])))))
    else:
        ex.cover("valid")
        ex.oblige(f"{P}.ensures.result_only_when_every_record_is_current", SBool(OK(n)))
        ex.oblige(f"{P}.ensures.result_is_a_dict", isinstance(out.value, dict))


def loops_havoc_d_patch():
    """`d` (the result dict) is written with symbolic keys in the loop: its havoc is an opaque dict"""


def t_validate(ex):
    import pkgcore.cache as Cm
    import pkgcore.ebuild.eclass_cache as EC
    P = "C48.validate_entry"
    valid = z3.Bool("eclasses_still_valid")
    update = KRef("EclassUpdate").fresh("update")

    def rebuild_post(it, self_, data):
        return Opt(z3.Not(valid), update)

    it = Interp(ex, label=P, contracts={EC.base.rebuild_cache_entry: Contract("eclass_cache.base.rebuild_cache_entry", rebuild_post)})
    fn = it.target(F_CACHE, "base.validate_entry")
    rec_chf = Opt(z3.Bool("chf_not_recorded"), Val.fresh("recorded_chf"))
    cur_chf = Opt(z3.Bool("ebuild_has_no_chf"), Val.fresh("current_chf"))
    ecl = Opt(z3.Bool("no_eclasses_recorded"), KRef("EclassData_").fresh("recorded_eclasses"))
    inh = Opt(z3.Bool("no_INHERIT"), KStr.fresh("INHERIT"))
    item = {"_mtime_": rec_chf, "_eclasses_": ecl, "INHERIT": inh}
    before = dict(item)
    self_ = SObj(Cm.base, {"_chf_key": "_mtime_", "chf_type": "mtime"})
    ebuild = SObj(type("ebuild_hash_item", (), {}), {"mtime": cur_chf})
    db = SObj(EC.base, {})
    ex.inputs.update({"chf_recorded": Not(SBool(rec_chf.isnone)), "chf_current_present": Not(SBool(cur_chf.isnone)),
                      "chf_equal": rec_chf.val == cur_chf.val, "eclasses_recorded": Not(SBool(ecl.isnone)),
                      "INHERIT_present": Not(SBool(inh.isnone)), "eclasses_valid": SBool(valid)})
    out = call(it, fn, self_, item, ebuild, db)
    ex.oblige(f"{P}.raises.nothing", not out.raised, kind="exceptional-postcondition")
    if out.raised:
        return
    chf_ok = And(Not(SBool(rec_chf.isnone)), Not(SBool(cur_chf.isnone)), rec_chf.val == cur_chf.val)
    usable = And(chf_ok, Or(SBool(ecl.isnone), And(Not(SBool(inh.isnone)), SBool(valid))))
    r = out.value
    ex.oblige(f"{P}.ensures.result_is_bool", isinstance(r, (bool, SBool)))
    ex.oblige(f"{P}.ensures.true_exactly_when_entry_is_current", (usable == r) if isinstance(r, SBool) else (usable if r else Not(usable)))
    # frame: the entry is only touched when it is accepted, and then only its eclass data is refreshed
    ex.oblige(f"{P}.frame.other_keys_untouched", set(item) == set(before) and all(item[k] is before[k] for k in ("_mtime_", "INHERIT")))
    e_after = item["_eclasses_"]
    if r is False or r is True:
        if r is False:
            ex.oblige(f"{P}.frame.rejected_entry_untouched", e_after is before["_eclasses_"])
        else:
            ex.oblige(f"{P}.ensures.accepted_entry_gets_refreshed_eclasses",
                      Implies(Not(SBool(ecl.isnone)), models.eq(it, e_after, update)) if e_after is not before["_eclasses_"] else SBool(ecl.isnone))


# -------------------------------------------------------- bounded enumeration ----
def enum_rebuild(seed):
    """histories of two calls on one eclass database object (3 eclasses, records with fresh/stale/missing data)"""
    import types
    import pkgcore.ebuild.eclass_cache as EC
    cur = {"a": types.SimpleNamespace(mtime=1, path="/e/a", eclassdir="/e"), "b": types.SimpleNamespace(mtime=2, path="/e/b", eclassdir="/e")}
    recs = []
    for nm in ("a", "b", "gone"):
        for pairs in ((("mtime", 1),), (("mtime", 2),), (("eclassdir", "/e"), ("mtime", 1)), (("eclassdir", "/other"), ("mtime", 1)), ()):
            recs.append((nm, pairs))

    def ok(entry):
        return all(all(getattr(cur.get(nm), k, None) == v for k, v in pairs) for nm, pairs in entry)
    entries = [()] + [(r,) for r in recs] + [(r1, r2) for r1 in recs for r2 in recs if r1[0] != r2[0]][:120]
    cases, fails = 0, []
    for e1 in entries:
        for e2 in entries[:40]:
            db = EC.base.__new__(EC.base)
            try:
                EC.base.__init__(db)
            except Exception:
                pass
            db.__dict__["_eclasses"] = cur
            db.__dict__.setdefault("_eclass_data_inst_cache", {})
            cases += 1
            for e in (e1, e2):
                got = db.rebuild_cache_entry(e)
                if (got is not None) != ok(e) and len(fails) < 3:
                    fails.append({"model": {"history": [list(e1), list(e2)], "call": list(e)},
                                  "detail": f"after validating {list(e1)}, rebuild_cache_entry({list(e)}) returned {'data' if got is not None else None}; "
                                            f"records current: {ok(e)}"})
    return {"name": "C48.rebuild_cache_entry.bounded_enumeration", "bound": "two-call histories on one eclass database, records over 3 eclass names x 5 checksum tuples, entries of <= 2 records",
            "cases": cases, "failures": fails}


def enum_validate_histories(seed):
    """histories on the real validate_entry: the same recorded entry validated against eclass databases whose current state differs
    between the calls (an eclass edited, removed, shadowed by another repository), on one cache object and on fresh ones"""
    import types
    import pkgcore.cache as C
    import pkgcore.ebuild.eclass_cache as EC
    F_, T_ = False, True

    def mkdb(cur):
        db = EC.base.__new__(EC.base)
        try:
            EC.base.__init__(db)
        except Exception:
            pass
        db.__dict__["_eclasses"] = {k: types.SimpleNamespace(mtime=m, path=f"{d}/{k}", eclassdir=d) for k, (m, d) in cur.items()}
        db.__dict__.setdefault("_eclass_data_inst_cache", {})
        return db

    def mkcache():
        c = C.base.__new__(C.base)
        c.__dict__.update({"_chf_key": "_mtime_", "chf_type": "mtime"})
        try:
            object.__setattr__(c, "_chf_key", "_mtime_")
            object.__setattr__(c, "chf_type", "mtime")
        except Exception:
            pass
        return c
    states = [{"a": (1, "/e"), "b": (2, "/e")}, {"a": (5, "/e"), "b": (2, "/e")}, {"b": (2, "/e")}, {"a": (1, "/overlay"), "b": (2, "/e")}]
    recorded = [(("a", (("mtime", 1),)),), (("a", (("mtime", 1),)), ("b", (("mtime", 2),))), (("a", (("eclassdir", "/e"), ("mtime", 1))),), ()]

    def current(rec, cur):
        return all(nm in cur and all({"mtime": cur[nm][0], "eclassdir": cur[nm][1]}[k] == v for k, v in pairs) for nm, pairs in rec)
    cases, fails = 0, []
    for rec in recorded:
        for hist in [(s1, s2, fresh) for s1 in range(len(states)) for s2 in range(len(states)) for fresh in (F_, T_)]:
            s1, s2, fresh = hist
            cache = mkcache()
            for step, si in enumerate((s1, s2)):
                if step == 1 and fresh:
                    cache = mkcache()
                item = {"_mtime_": 7, "INHERIT": "a b"}
                if rec:
                    item["_eclasses_"] = rec
                cases += 1
                try:
                    got = cache.validate_entry(item, types.SimpleNamespace(mtime=7), mkdb(states[si]))
                except Exception as e:
                    if len(fails) < 3:
                        fails.append({"model": {"recorded": list(map(list, rec)), "history": [states[s1], states[s2]], "fresh_cache_object": fresh}, "detail": f"validate_entry raised {type(e).__name__}: {e}"})
                    break
                want = current(rec, states[si])
                if bool(got) != want and len(fails) < 3:
                    fails.append({"model": {"recorded": [list(r) for r in rec], "history": [states[s1], states[s2]], "fresh_cache_object": fresh, "call": step + 1},
                                  "detail": f"entry recording {rec} validated against eclass state {states[s1]} and then {states[s2]} ({'a fresh' if fresh else 'the same'} cache object): "
                                            f"call {step + 1} says {'valid' if got else 'stale'}, the recorded eclasses are {'current' if want else 'not current'} there"})
    return {"name": "C48.validate_entry.bounded_enumeration", "bound": "4 recorded eclass sets x every ordered pair of 4 eclass-database states (unchanged, an eclass edited, removed, shadowed from another directory) "
            "x the same / a fresh cache object, on the real validate_entry and rebuild_cache_entry", "cases": cases, "failures": fails}


def enum_update_metadata(seed):
    """the producer side: what the real package_factory._update_metadata records for an ebuild whose sourced INHERITED lists direct and
    nested eclasses -- every one of them has to be in the entry's eclass record, whatever the names look like"""
    import contextlib
    import types
    import pkgcore.ebuild.ebuild_src as ES
    from pkgcore.ebuild.eapi import get_eapi
    names = ["multilib", "multilib-minimal", "cmake", "cmake-multilib", "e1", "e10", "x", "toolchain-funcs"]
    cases, fails = 0, []
    combos = [(d, n) for d in (("multilib-minimal",), ("cmake-multilib", "e10"), ("e1",), ("x", "multilib"), ("toolchain-funcs", "cmake-multilib", "e10"))
              for n in ((), ("multilib",), ("cmake", "multilib"), ("e1", "x"), ("e10", "e1", "cmake"))]
    for direct, nested in combos:
        for order in ("direct_first", "nested_first"):
            inherited = [x for x in nested if x not in direct]
            inherited = list(direct) + inherited if order == "direct_first" else inherited + list(direct)
            asked, written = [], []

            class Ecache:
                def get_eclass_data(self, inherits):
                    asked.append(list(inherits))
                    return tuple((x, (("mtime", 1),)) for x in inherits)

            class Cache:
                readonly = False

                def __setitem__(self, k, v):
                    written.append((k, dict(v)))

            class Proc:
                def get_keys(self, pkg, ecache):
                    return {"EAPI": "8", "DEFINED_PHASES": "-", "SLOT": "0", "INHERIT": " ".join(direct), "INHERITED": " ".join(inherited), "KEYWORDS": "x86", "DESCRIPTION": "d"}
            fac = object.__new__(ES.package_factory)
            fac.__dict__.update({"_ecache": Ecache(), "_cache": (Cache(),)}) if hasattr(fac, "__dict__") else None
            for k, v in (("_ecache", Ecache()), ("_cache", (Cache(),))):
                try:
                    object.__setattr__(fac, k, v)
                except Exception:
                    pass
            pkg = types.SimpleNamespace(eapi=get_eapi("8"), path="/repo/cat/pkg/pkg-1.ebuild", cpvstr="cat/pkg-1")
            real = ES.processor.reuse_or_request
            ES.processor.reuse_or_request = lambda ebp=None: contextlib.nullcontext(Proc())
            cases += 1
            try:
                data = fac._update_metadata(pkg)
            except Exception as e:
                if len(fails) < 3:
                    fails.append({"model": {"INHERIT": list(direct), "INHERITED": inherited}, "detail": f"_update_metadata raised {type(e).__name__}: {e}"})
                continue
            finally:
                ES.processor.reuse_or_request = real
            rec = sorted(x for x, _ in (data.get("_eclasses_") or ()))
            stored = sorted(x for x, _ in ((written[0][1].get("_eclasses_") or ()) if written else ()))
            if rec != sorted(set(inherited)) or (written and stored != rec):
                if len(fails) < 3:
                    fails.append({"model": {"INHERIT": list(direct), "INHERITED": inherited},
                                  "detail": f"ebuild inheriting {list(direct)} (sourced INHERITED {inherited}): the entry records the eclasses {rec} (stored: {stored}); every inherited eclass has to be recorded: {sorted(set(inherited))}"})
    return {"name": "C48.update_metadata.bounded_enumeration", "bound": f"{len(combos) * 2} INHERIT / INHERITED combinations over eclass names that contain one another (multilib / multilib-minimal, cmake / cmake-multilib, e1 / e10), "
            "through the real package_factory._update_metadata with a stub ebuild processor, eclass database and cache", "cases": cases, "failures": fails}


def enum_eclass_dirs(seed):
    """real eclass directories on disk, read through fresh eclass_cache.cache / StackedCaches objects after every edit (what a newly opened
    repository does): an entry that records an eclass's earlier checksum is stale as soon as the file's content (or its place) is another,
    whether the edit was in place, by replacement, a removal or a move to the overlay"""
    import shutil
    import tempfile
    import pkgcore.ebuild.eclass_cache as EC
    scratch = tempfile.mkdtemp(prefix="c48.", dir=os.environ.get("PYVC_SCRATCH", "/var/tmp"))
    fails, cases = [], 0
    try:
        for stacked in (False, True):
            for chf in ("md5", "mtime"):
                for edit in ("none", "in_place_same_length", "in_place_longer", "replaced_by_rename", "removed", "moved_to_overlay", "other_eclass_added"):
                    if edit == "moved_to_overlay" and not stacked:
                        continue
                    cases += 1
                    root = os.path.join(scratch, f"r{cases}")
                    main, over = os.path.join(root, "main/eclass"), os.path.join(root, "overlay/eclass")
                    os.makedirs(main)
                    os.makedirs(over)
                    fp = os.path.join(main, "foo.eclass")
                    open(fp, "w").write("take 1\n")
                    os.utime(fp, (1000, 1000))
                    open(os.path.join(main, "bar.eclass"), "w").write("bar\n")

                    def open_db():
                        if stacked:
                            return EC.StackedCaches([EC.cache(over), EC.cache(main)])
                        return EC.cache(main)
                    db1 = open_db()
                    ec = db1.get_eclass_data(["foo"])
                    rec = [("foo", ((chf, getattr(ec["foo"], chf)),) if chf == "md5" else (("eclassdir", ec["foo"].eclassdir), ("mtime", ec["foo"].mtime)))]
                    before = db1.rebuild_cache_entry(rec)
                    if edit == "in_place_same_length":
                        open(fp, "w").write("take 2\n")
                        os.utime(fp, (2000, 2000))
                    elif edit == "in_place_longer":
                        open(fp, "a").write("more\n")
                        os.utime(fp, (2000, 2000))
                    elif edit == "replaced_by_rename":
                        open(fp + ".new", "w").write("take 3\n")
                        os.utime(fp + ".new", (3000, 3000))
                        os.rename(fp + ".new", fp)
                    elif edit == "removed":
                        os.unlink(fp)
                    elif edit == "moved_to_overlay":
                        shutil.copy2(fp, os.path.join(over, "foo.eclass"))   # same content and mtime, another place
                    elif edit == "other_eclass_added":
                        open(os.path.join(main, "baz.eclass"), "w").write("baz\n")
                    db2 = open_db()
                    after = db2.rebuild_cache_entry(rec)
                    # md5 entries survive a move (content is what counts); mtime entries record the directory as well
                    want_valid = edit in ("none", "other_eclass_added") or (edit == "moved_to_overlay" and chf == "md5")
                    model = {"layout": "stacked (overlay over main)" if stacked else "single", "recorded_by": chf, "edit": edit}
                    if before is None and len(fails) < 4:
                        fails.append({"model": model, "detail": f"{model}: the entry just recorded from the eclass directory does not validate against it"})
                    elif (after is not None) != want_valid and len(fails) < 4:
                        fails.append({"model": model, "detail": f"{model}: a freshly opened eclass cache says the entry recorded before the edit is {'valid' if after is not None else 'stale'}; "
                                                                f"the recorded eclass is {'unchanged' if want_valid else 'no longer what was recorded'}"})
    finally:
        shutil.rmtree(scratch, ignore_errors=True)
    return {"name": "C48.eclass_directories.bounded_enumeration", "bound": "single and stacked on-disk eclass directories x entries recorded by md5 / by directory+mtime x 7 edits (none, in place with the same or another length, "
            "replacement by rename, removal, move to the overlay, an unrelated eclass added), each read through freshly built cache objects before and after", "cases": cases, "failures": fails}


def enum_flat_entries(seed):
    """entries as they lie in an on-disk flat cache (the mtime-based flat_hash.database and the md5 flavour): written by the cache itself, written with a
    stale record, and -- damaged or foreign -- lacking the line that records the ebuild's mtime / checksum, the entry file carrying the very
    timestamp of the ebuild.  An entry is usable only if reading it succeeds AND validate_entry accepts it; that may happen only when the entry
    records the ebuild's current mtime / checksum"""
    import os
    import shutil
    import tempfile
    import types
    from pkgcore.cache import flat_hash
    from snakeoil.chksum import LazilyHashedPath
    scratch = tempfile.mkdtemp(prefix="c48.", dir=os.environ.get("PYVC_SCRATCH", "/var/tmp"))
    cases, fails = 0, []
    keys = ("DESCRIPTION", "SLOT", "INHERIT")
    try:
        for md5 in (False, True):
            for kind in ("written by the cache", "record of another mtime / checksum", "no record line at all", "empty record line"):
                cases += 1
                loc = os.path.join(scratch, f"c{int(md5)}-{cases}")
                ebuild = os.path.join(scratch, f"e{int(md5)}-{cases}.ebuild")
                open(ebuild, "w").write("first content\n")
                os.utime(ebuild, (1700000000, 1700000000))
                cur = LazilyHashedPath(ebuild)
                mk = (lambda: flat_hash.md5_cache(loc, auxdbkeys=keys, readonly=False)) if md5 else (lambda: flat_hash.database(loc, auxdbkeys=keys, readonly=False))
                db = mk()
                chf_key = db._chf_key
                db["cat/pkg-1"] = {"DESCRIPTION": "first", "SLOT": "0", "_chf_": cur}
                path = next(os.path.join(dp, f) for dp, _dn, fn in os.walk(loc) for f in fn if f == "pkg-1")
                lines = open(path).read().splitlines(True)
                rec = [l for l in lines if l.startswith(chf_key + "=")]
                if len(rec) != 1:
                    fails.append({"model": {"flavour": "md5" if md5 else "mtime"}, "detail": f"the cache's own entry has no single {chf_key}= line: {lines}"})
                    continue
                rest = [l for l in lines if l not in rec]
                if kind == "record of another mtime / checksum":
                    lines = rest + [f"{chf_key}={'0' * 32 if md5 else '1600000000'}\n"]
                elif kind == "no record line at all":
                    lines = rest
                elif kind == "empty record line":
                    lines = rest + [f"{chf_key}=\n"]
                open(path, "w").write("".join(lines))
                os.utime(path, (1700000000, 1700000000))       # the entry file is as old as the ebuild, to the second
                usable, how = False, ""
                try:
                    entry = mk()["cat/pkg-1"]
                    usable = bool(db.validate_entry(entry, cur, types.SimpleNamespace(get_eclass_data=lambda *a, **k: None)))
                    how = f"read as {dict(entry)} and {'accepted' if usable else 'refused'} by validate_entry"
                except Exception as e:
                    how = f"reading it raised {type(e).__name__}: {e}"
                want = kind == "written by the cache"
                if usable != want and len(fails) < 4:
                    fails.append({"model": {"flavour": "md5" if md5 else "mtime", "entry": kind}, "detail": f"{'md5' if md5 else 'mtime'} flat cache, entry {kind} ({''.join(lines)!r}), entry file and ebuild with the same timestamp: "
                                                                                                 f"{how}; it {'records' if want else 'does not record'} the ebuild's current {'checksum' if md5 else 'mtime'}"})
    finally:
        shutil.rmtree(scratch, ignore_errors=True)
    return {"name": "C48.flat_entries.bounded_enumeration", "bound": "mtime and md5 flat caches x 4 on-disk entries (the cache's own, a stale record, no record line, an empty record line), entry file and ebuild with equal timestamps: read + validate_entry",
            "cases": cases, "failures": fails}


def t_get_metadata(ex):
    """package_factory._get_metadata over a stack of two caches with every combination of entry present / absent / unreadable, valid / stale,
    read-only or not: a cached entry is returned only when validate_entry accepted it against the ebuild's current hash and the factory's
    eclass database; a stale entry of a writable cache is deleted; otherwise the metadata is regenerated exactly once"""
    import types
    import pkgcore.ebuild.ebuild_src as ES
    from pkgcore.cache import errors as cache_errors
    from pyvc.api import call, Interp
    from pyvc.interp import PyRaise
    from pyvc.models import Model, ModelHost
    from pyvc.sym import SObj, OutOfSubset
    P = "C48.package_factory._get_metadata"
    force = bool(ex.choose(2))
    spec = []
    for i in range(2):
        entry = ("absent", "unreadable", "present")[ex.choose(3)]
        valid = bool(ex.choose(2)) if entry == "present" else False
        spec.append({"entry": entry, "valid": valid, "readonly": bool(ex.choose(2)), "consulted": 0, "validated": [], "deleted": 0})
    ecache, hash_tok = object(), ("hash-of", "/repo/cat/pkg/pkg-1.ebuild")

    class Cache(ModelHost):
        def __init__(self, i):
            self.i = i

        def getattr(self, it_, name):
            c = spec[self.i]
            if name == "readonly":
                return c["readonly"]
            if name == "validate_entry":
                def validate(it__, data, ebuild_hash, eclass_db):
                    c["validated"].append((data, ebuild_hash, eclass_db))
                    return c["valid"]
                return Model(validate, "cache.validate_entry")
            raise OutOfSubset(f"cache.{name}")

        def getitem(self, it_, k):
            c = spec[self.i]
            c["consulted"] += 1
            if c["entry"] == "absent":
                raise PyRaise(KeyError(k))
            if c["entry"] == "unreadable":
                raise PyRaise(cache_errors.CacheCorruption(k, "bad"))
            return ("entry-of-cache", self.i)

        def delitem(self, it_, k):
            spec[self.i]["deleted"] += 1

        def truth_term(self, it_):
            return True
    regen = []
    it = Interp(ex, label=P, models={ES.chksum.LazilyHashedPath: lambda it_, path: ("hash-of", path),
                                     ES.package_factory._update_metadata: lambda it_, self_, pkg, ebp=None: (regen.append(pkg), "regenerated")[1]})
    fac = SObj(ES.package_factory, {"_cache": (Cache(0), Cache(1)), "_ecache": ecache})
    pkg = types.SimpleNamespace(path="/repo/cat/pkg/pkg-1.ebuild", cpvstr="cat/pkg-1")
    out = call(it, it.target("src/pkgcore/ebuild/ebuild_src.py", "package_factory._get_metadata"), fac, pkg, force_regen=force)
    ex.oblige(f"{P}.raises.nothing", not out.raised, kind="exceptional-postcondition")
    if out.raised:
        return
    first_valid = None if force else next((i for i, c in enumerate(spec) if c["entry"] == "present" and c["valid"]), None)
    tag = f"[{'force_regen, ' if force else ''}" + ", ".join(f"{c['entry']}{'/valid' if c['valid'] else '/stale' if c['entry'] == 'present' else ''}{'/ro' if c['readonly'] else ''}" for c in spec) + "]"
    if first_valid is None:
        ex.oblige(f"{P}.ensures.regenerated_exactly_once_when_no_cache_holds_a_valid_entry{tag}", out.value == "regenerated" and regen == [pkg])
    else:
        ex.oblige(f"{P}.ensures.the_first_valid_cached_entry_is_used_and_nothing_regenerated{tag}", out.value == ("entry-of-cache", first_valid) and regen == [])
    for i, c in enumerate(spec):
        reached = not force and (first_valid is None or i <= first_valid)
        ex.oblige(f"{P}.ensures.caches_are_consulted_in_order_until_one_is_valid{tag}", c["consulted"] == (1 if reached else 0))
        ok_args = all(d == ("entry-of-cache", i) and h == hash_tok and e is ecache for d, h, e in c["validated"])
        ex.oblige(f"{P}.ensures.an_entry_is_validated_against_the_current_ebuild_hash_and_the_eclass_database{tag}",
                  ok_args and len(c["validated"]) == (1 if reached and c["entry"] == "present" else 0))
        ex.oblige(f"{P}.ensures.a_stale_entry_is_deleted_from_a_writable_cache_only{tag}",
                  c["deleted"] == (1 if reached and c["entry"] == "present" and not c["valid"] and not c["readonly"] else 0))


def tasks():
    return [
        Task("C48.rebuild_cache_entry", t_rebuild, [(F_ECL, "base.rebuild_cache_entry")], enumerate=enum_rebuild),
        Task("C48.validate_entry", t_validate, [(F_CACHE, "base.validate_entry")], enumerate=enum_validate_histories),
        Task("C48.eclass_directories", None, [(F_ECL, "cache._load_eclasses"), (F_ECL, "StackedCaches._load_eclasses"), (F_ECL, "base.get_eclass_data")], enumerate=enum_eclass_dirs),
        Task("C48.flat_entries", None, [("src/pkgcore/cache/flat_hash.py", "database._parse_data"), (F_CACHE, "base.validate_entry")], enumerate=enum_flat_entries),
        Task("C48.get_metadata", t_get_metadata, [("src/pkgcore/ebuild/ebuild_src.py", "package_factory._get_metadata")]),
        Task("C48.update_metadata", None, [("src/pkgcore/ebuild/ebuild_src.py", "package_factory._update_metadata")], enumerate=enum_update_metadata),
    ]


REPLAY = {}
