"""Systematic exploration of thread schedules of the real pkgcore.util.thread_pool.map_async (bounded stand-in for C41).

All threads map_async creates, and the thread that runs map_async itself, are real threads, but only one of them runs at a time: every
operation on shared state (Queue.put/get, Event.isSet/set/clear, deque.append/extend, Thread.start/join) first reports to a controller
and waits to be granted.  The controller enumerates the grants depth-first with a bound on the number of preemptions (switching away from
a thread that could have continued); switches forced by blocking or termination are free.  Queue and deque are the real classes.
"""
import collections
import queue as _queue
import threading as _threading
import types


class Deadlock(Exception):
    pass


class Sched:
    def __init__(self, prefix, preemption_bound, rnd=None):
        self.prefix = list(prefix)
        self.bound = preemption_bound
        self.rnd = rnd
        self.cv = _threading.Condition()
        self.state = {}      # name -> ("pending", op, enabled) | ("running",) | ("done",)
        self.granted = None
        self.running = None
        self.decisions = []  # (chosen index, number of options)
        self.trace = []      # (thread, op)
        self.preemptions = 0
        self.errors = []
        self.real = []

    # ---- called by managed threads
    def point(self, op, enabled=lambda: True):
        me = _threading.current_thread().name
        with self.cv:
            self.state[me] = ("pending", op, enabled)
            if self.running == me:
                self.running = None
            self.cv.notify_all()
            self.cv.wait_for(lambda: self.granted == me)
            self.granted = None
            self.state[me] = ("running",)
            self.trace.append((me, op))

    def finish(self):
        me = _threading.current_thread().name
        with self.cv:
            self.state[me] = ("done",)
            if self.running == me:
                self.running = None
            self.cv.notify_all()

    def spawn(self, name, fn):
        def run():
            try:
                self.point("begin")
                fn()
            except BaseException as e:  # noqa: BLE001 -- a dying worker is an observation, not a crash of the explorer
                self.errors.append((name, f"{type(e).__name__}: {e}"))
            finally:
                self.finish()
        t = _threading.Thread(target=run, name=name, daemon=True)
        with self.cv:
            self.state[name] = ("running",)  # until it reaches its begin point
        self.real.append(t)
        t.start()
        # wait until the new thread is parked at its begin point, so that it is a schedulable option from now on
        with self.cv:
            if not self.cv.wait_for(lambda: self.state[name][0] != "running", timeout=60):
                raise RuntimeError(f"thread {name} did not reach its first synchronisation point within 60 s")

    # ---- controller
    def control(self):
        prev = None
        with self.cv:
            while True:
                if not self.cv.wait_for(lambda: self.running is None and self.granted is None, timeout=60):
                    # a thread blocked or spun outside the controlled synchronisation points: the exploration cannot decide anything
                    raise RuntimeError(f"no progress for 60 s while {self.running!r} was running (blocked outside Queue/Event/deque/Thread operations?)")
                en = sorted(n for n, s in self.state.items() if s[0] == "pending" and s[2]())
                if not en:
                    if all(s[0] == "done" for s in self.state.values()):
                        return
                    raise Deadlock({n: s[:2] for n, s in self.state.items() if s[0] != "done"})
                if prev in en:
                    en.remove(prev)
                    en.insert(0, prev)
                    opts = en if self.preemptions < self.bound else en[:1]
                else:
                    opts = en
                i = len(self.decisions)
                if i < len(self.prefix):
                    c = self.prefix[i]
                    if c >= len(opts):
                        raise RuntimeError("schedule prefix does not replay (nondeterminism outside the controlled points)")
                elif self.rnd is not None:
                    c = self.rnd.randrange(len(opts))
                else:
                    c = 0
                self.decisions.append((c, len(opts)))
                pick = opts[c]
                if prev in en and pick != prev:
                    self.preemptions += 1
                prev = pick
                self.running = pick
                self.granted = pick
                self.cv.notify_all()


def shims(s):
    class Q:
        def __init__(self, *a, **k):
            self.q = _queue.Queue(*a, **k)

        def put(self, x):
            s.point("put")
            self.q.put(x)

        def get(self):
            s.point("get", lambda: not self.q.empty())
            return self.q.get_nowait()

    class Ev:
        def __init__(self):
            self.flag = False

        def isSet(self):
            s.point("isSet")
            return self.flag
        is_set = isSet

        def set(self):
            s.point("set")
            self.flag = True

        def clear(self):
            self.flag = False

    class Dq(collections.deque):
        def append(self, x):
            s.point("append")
            collections.deque.append(self, x)

        def extend(self, xs):
            xs = list(xs)  # the generator runs in this thread before the atomic extend
            s.point("extend")
            collections.deque.extend(self, xs)

    counter = [0]

    class Th:
        def __init__(self, target=None, args=(), kwargs=None, **kw):
            counter[0] += 1
            self.name = f"w{counter[0]}"
            self.target, self.args, self.kwargs = target, args, kwargs or {}

        def start(self):
            s.point("start")
            s.spawn(self.name, lambda: self.target(*self.args, **self.kwargs))

        def join(self, timeout=None):
            s.point("join", lambda: s.state.get(self.name, ("new",))[0] == "done")

    return types.SimpleNamespace(Queue=Q), types.SimpleNamespace(Thread=Th, Event=Ev), Dq


def run_once(tp, items, nthreads, kind, prefix, bound, rnd=None, sized=True, kw=None):
    """one controlled run of the real map_async; -> (sched, outcome dict)"""
    s = Sched(prefix, bound, rnd)
    qmod, tmod, dq = shims(s)
    seen, out = [], {}

    def functor(it, *a, **k):
        if k != (kw or {}):
            raise AssertionError(f"functor called with keywords {k}, map_async was given {kw}")
        if kind == "generator":
            def g():
                for x in it:
                    seen.append(x)
                    yield ("r", x)
            return g()
        got = []
        for x in it:
            seen.append(x)
            got.append(("r", x))
        if kind == "none":
            return None
        return got

    def main():
        src = list(items) if sized else iter(list(items))
        out["result"] = tp.map_async(src, functor, threads=nthreads, **(kw or {}))
    saved = tp.queue, tp.threading, tp.deque
    tp.queue, tp.threading, tp.deque = qmod, tmod, dq
    try:
        s.spawn("feeder", main)
        try:
            s.control()
        except Deadlock as e:
            out["deadlock"] = str(e)
    finally:
        tp.queue, tp.threading, tp.deque = saved
    if "deadlock" not in out:
        for t in s.real:
            t.join(5)
    out["seen"] = seen
    out["errors"] = list(s.errors)
    return s, out


def judge(items, kind, out):
    """the statement of C41 on one finished run -> None or a description of what is wrong"""
    if out.get("deadlock"):
        return f"deadlock: {out['deadlock']}"
    if out["errors"]:
        return f"thread died: {out['errors']}"
    if "result" not in out:
        return "map_async did not return"
    if collections.Counter(out["seen"]) != collections.Counter(items):
        return f"items handed to the worker function {sorted(out['seen'])} != input {sorted(items)}"
    res = list(out["result"])
    if kind == "none":
        want, got = [], res
    elif kind == "generator":
        want, got = sorted(("r", x) for x in items), sorted(res)
    else:
        want, got = sorted(("r", x) for x in items), sorted(y for part in res for y in part)
    if got != want:
        return f"results {got} != expected {want}"
    return None


def explore(tp, items, nthreads, kind, bound, sized=True, limit=None, kw=None):
    """all schedules up to the preemption bound, depth first -> (runs, first failure or None)"""
    prefix, runs = [], 0
    while True:
        s, out = run_once(tp, items, nthreads, kind, prefix, bound, sized=sized, kw=kw)
        runs += 1
        bad = judge(items, kind, out)
        if bad:
            return runs, {"detail": bad, "schedule": [f"{t}:{op}" for t, op in s.trace], "decisions": [c for c, _ in s.decisions]}
        d = s.decisions
        while d and d[-1][0] + 1 >= d[-1][1]:
            d.pop()
        if not d or (limit and runs >= limit):
            return runs, None
        prefix = [c for c, _ in d[:-1]] + [d[-1][0] + 1]
