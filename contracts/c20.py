"""C20 -- unmerge removes exactly what it owns and never base directories (DESIGN.md section 4, C20)."""
import errno
import os
import types
from pyvc.api import Task, call, Interp
from pyvc.models import Model, ModelHost
from pyvc.sym import SObj, OutOfSubset
from contracts import fs_model as M
from contracts import c18

PROPERTY = "C20"
OPS = "src/pkgcore/fs/ops.py"
ENG = "src/pkgcore/merge/engine.py"
TRG = "src/pkgcore/merge/triggers.py"

MANIFEST = {
    "text": "Effect-trace contracts over the ghost operating system: unmerge_contents, on contents sets of files, symlinks, fifos and "
            "nested directories with and without an offset, issues unlink_if_exists on exactly the non-directory entries (never rmdir, "
            "never a call that follows a link), then rmdir on exactly the directory entries deepest first, tolerates exactly "
            "ENOTEMPTY / ENOENT / ENOTDIR / EBUSY / EEXIST from rmdir and lets other errors out, and names no path outside the offset "
            "contents set (bounded in the number of entries: the loops run over concrete small sets).  get_remove_cset is the old "
            "contents minus the install contents and get_replace_cset their intersection, both through contentsSet's location-keyed "
            "operations (C22); BaseSystemUnmergeProtection removes exactly offset/<protected directory> for every protected directory "
            "from the uninstall set.  A native enumeration unmerges / replaces random trees in scratch roots (shared entries, symlinked "
            "directories with foreign content, non-empty directories, usr / etc) and compares snapshots.",
    "note": "Trusted: contentsSet.difference / intersection / difference_update by location (C22), snakeoil unlink_if_exists (unlink, "
            "ENOENT ignored), the ghost os model; pyvc encoder.  Not claimed: trigger ordering inside MergeEngine.",
}
ASSUMPTIONS = ["unlink_if_exists(path) removes the directory entry path itself and never follows a symlink", "contentsSet operations are keyed by location (C22)"]


def _cset(entries):
    from pkgcore.fs import fs, contents
    mk = {"file": lambda p: fs.fsFile(p, strict=False), "dir": lambda p: fs.fsDir(p, strict=False), "sym": lambda p: fs.fsSymlink(p, "target", strict=False), "fifo": lambda p: fs.fsFifo(p, strict=False)}
    return contents.contentsSet(mk[k](p) for k, p in entries)


SETS = [
    [("file", "/usr/bin/tool"), ("dir", "/usr"), ("dir", "/usr/bin")],
    [("sym", "/lib/link"), ("dir", "/lib"), ("fifo", "/lib/pipe"), ("file", "/lib/sub/x"), ("dir", "/lib/sub")],
    [("file", "/a")],
    [("dir", "/d"), ("dir", "/d/e"), ("dir", "/d/e/f")],
    [],
]


def t_unmerge(ex):
    import pkgcore.fs.ops as ops
    entries = SETS[ex.choose(len(SETS))]
    offset = (None, "/mnt/root", "/mnt/root/")[ex.choose(3)]
    fault = (None, errno.ENOTEMPTY, errno.ENOENT, errno.ENOTDIR, errno.EBUSY, errno.EEXIST, errno.EACCES)[ex.choose(7)]
    P = f"C20.unmerge_contents[{len(entries)} entries, offset={offset}, rmdir {'ok' if fault is None else errno.errorcode[fault]}]"
    it = Interp(ex, label=P)
    tr = M.Trace()
    M.install(it, ex, tr)
    if fault is not None:
        def m_rmdir(it_, path):
            tr.add("rmdir_failed", path)
            raise M.os_error(fault)
        it.models[os.rmdir] = m_rmdir
    seen = []
    cb = Model(lambda it_, obj: seen.append(obj.location), "callback")
    out = call(it, it.target(OPS, "unmerge_contents"), _cset(entries), offset, cb)
    pre = (offset or "").rstrip("/")
    nondirs = sorted(pre + p for k, p in entries if k != "dir")
    dirs = sorted((pre + p for k, p in entries if k == "dir"), reverse=True)
    unl = [e[1] for e in tr.effects if e[0] == "unlink_if_exists"]
    rm = [e[1] for e in tr.effects if e[0] in ("rmdir", "rmdir_failed")]
    fatal = fault == errno.EACCES and dirs
    if fatal:
        ex.oblige(f"{P}.raises.unexpected_rmdir_errors_propagate", out.raised_cls(OSError), kind="exceptional-postcondition")
        rm_want = dirs[:1]
    else:
        ex.oblige(f"{P}.raises.nothing", not out.raised, kind="exceptional-postcondition")
        rm_want = dirs
    ex.oblige(f"{P}.ensures.unlinks_exactly_the_non_directories", sorted(unl) == nondirs)
    ex.oblige(f"{P}.ensures.rmdir_exactly_the_directories_deepest_first", rm == rm_want)
    ex.oblige(f"{P}.ensures.every_unlink_precedes_every_rmdir", [e[0] for e in tr.effects] == ["unlink_if_exists"] * len(unl) + [e[0] for e in tr.effects][len(unl):] and
              all(e[0] in ("rmdir", "rmdir_failed") for e in tr.effects[len(unl):]))
    ex.oblige(f"{P}.frame.only_paths_of_the_offset_contents_set", set(tr.paths()) <= set(nondirs) | set(dirs))
    ex.oblige(f"{P}.ensures.no_other_kind_of_effect", {e[0] for e in tr.effects} <= {"unlink_if_exists", "rmdir", "rmdir_failed"})


class CsetGhost(ModelHost):
    """a contents set seen through its location-keyed operations (their meaning is C22's contract); `entries`, when given, is what
    iterating it yields (entries of the scenario, compared by identity)"""

    def __init__(self, name, log, entries=None):
        self.name, self.log, self.entries = name, log, entries

    def getattr(self, it, name):
        if name in ("difference", "intersection", "difference_update"):
            def op(it_, other):
                arg = other.name if isinstance(other, CsetGhost) else tuple(_items(it_, other))
                self.log.append((self.name, name, arg))
                left = None
                if self.entries is not None:
                    gone = {e.location for e in (other.entries if isinstance(other, CsetGhost) else arg)}
                    left = [e for e in self.entries if (e.location in gone) == (name == "intersection")]
                return CsetGhost(f"{self.name}.{name}({arg})", self.log, left)
            return Model(op, f"contentsSet.{name}")
        raise OutOfSubset(f"contentsSet.{name} is not one of the location-keyed operations the contract allows here")

    def iterate(self, it):
        if self.entries is None:
            raise OutOfSubset("iterating a contents set: entries compare by all their attributes, only the location-keyed operations are under contract (C22)")
        return list(self.entries)


def _items(it, v):
    from pyvc import models
    return models.iter_concrete(it, v)


# where the scenario's paths really live: /usr/lib is a symlink to lib64 on the live root, /opt/link to /srv/real
REAL_DIRS = {"/usr/lib": "/usr/lib64", "/opt/link": "/srv/real"}
CSET_SCENARIOS = [
    # (old entries, new entries, what has to be removed)
    (["/usr/bin/a", "/usr/share/doc"], ["/usr/bin/a"], ["/usr/share/doc"]),
    (["/usr/lib/x", "/usr/lib/y", "/etc/c"], ["/usr/lib64/x", "/etc/c"], ["/usr/lib/y"]),          # old x is the new x under its real directory
    (["/usr/lib64/x", "/opt/link/f"], ["/usr/lib/x", "/srv/real/g"], ["/opt/link/f"]),               # the other way round; f really is another file than g
    (["/usr/lib/x"], [], ["/usr/lib/x"]),
    ([], ["/usr/lib/x"], []),
    (["/opt/link/f", "/srv/real/f", "/srv/real/h"], ["/srv/real/f"], ["/srv/real/h"]),
    (["/usr/bin/a", "/usr/bin/b"], ["/usr/bin/a@"], ["/usr/bin/b"]),          # the new package installs the path as another kind of entry (@: a symlink)
    (["/usr/bin/a@", "/etc/d/"], ["/usr/bin/a", "/etc/d@"], []),                # (/: a directory)
]


def t_csets(ex):
    """get_replace_cset is install ∩ old by location.  get_remove_cset is old − install by location, less the old entries that, followed
    through directory symlinks of the live root, are the very paths the new package installs (scenarios over a ghost root)"""
    import pkgcore.merge.engine as E
    import pkgcore.fs.livefs as L
    which = ("get_remove_cset", "get_replace_cset")[ex.choose(2)]
    P = f"C20.MergeEngine.{which}"
    it = Interp(ex, label=P)
    log = []
    if which == "get_replace_cset":
        csets = {"old_cset": CsetGhost("old", log), "install": CsetGhost("install", log)}
        out = call(it, it.target(ENG, f"MergeEngine.{which}"), "ENGINE", csets)
        ex.oblige(f"{P}.raises.nothing", not out.raised, kind="exceptional-postcondition")
        if not out.raised:
            ex.oblige(f"{P}.ensures.install_and_old_by_location", log == [("install", "intersection", "old")] and isinstance(out.value, CsetGhost))
        return
    i = ex.choose(len(CSET_SCENARIOS))
    olds, news, want = CSET_SCENARIOS[i]
    from pkgcore.fs import fs as F_

    def mk(locs):
        return [F_.fsSymlink(l[:-1], "target", strict=False) if l.endswith("@") else F_.fsDir(l[:-1], strict=False) if l.endswith("/") else F_.fsFile(l, strict=False) for l in locs]
    csets = {"old_cset": CsetGhost("old", log, mk(olds)), "install": CsetGhost("install", log, mk(news))}

    def resolver(it_):
        def resolve(it__, location):
            d, _, f = location.rpartition("/")
            return REAL_DIRS.get(d, d) + "/" + f
        return Model(resolve, "livefs._realpath_dir()", pure=True)
    it.models[L._realpath_dir] = resolver
    # building a contents set from entries: keyed by location, as C22 proves (later entries replace earlier ones of the same location)
    def m_cset(it_, initial=None, mutable=False):
        by_loc = {}
        for e in (_items(it_, initial) if initial is not None else ()):
            by_loc[e.location] = e
        return CsetGhost("contentsSet(...)", log, list(by_loc.values()))
    it.models[E.contents.contentsSet] = m_cset
    out = call(it, it.target(ENG, f"MergeEngine.{which}"), "ENGINE", csets)
    ex.oblige(f"{P}.raises.nothing[scenario {i}]", not out.raised, kind="exceptional-postcondition")
    if out.raised:
        return
    got = sorted(e.location for e in out.value.entries) if isinstance(out.value, CsetGhost) and out.value.entries is not None else None
    ex.oblige(f"{P}.ensures.old_minus_install_by_real_location[scenario {i}: old {olds}, new {news}]", got == sorted(want), note=f"handed back {got}, expected {sorted(want)}")


def t_protection(ex):
    import pkgcore.merge.triggers as T
    custom = bool(ex.choose(2))
    offset = ("/", "/mnt/root")[ex.choose(2)]
    P = f"C20.BaseSystemUnmergeProtection[{'custom' if custom else 'default'} list, offset={offset}]"
    it = Interp(ex, label=P)
    me = SObj(T.BaseSystemUnmergeProtection, {})
    r = call(it, it.target(TRG, "BaseSystemUnmergeProtection.__init__"), me, ("/opt", "/srv/data")) if custom else call(it, it.target(TRG, "BaseSystemUnmergeProtection.__init__"), me)
    ex.oblige(f"{P}.__init__.raises.nothing", not r.raised, kind="exceptional-postcondition")
    if r.raised:
        return
    log = []
    un = CsetGhost("uninstall", log)
    import types
    out = call(it, it.target(TRG, "BaseSystemUnmergeProtection.trigger"), me, types.SimpleNamespace(offset=offset), un)
    ex.oblige(f"{P}.trigger.raises.nothing", not out.raised, kind="exceptional-postcondition")
    if out.raised:
        return
    protected = ("/opt", "/srv/data") if custom else T.BaseSystemUnmergeProtection._preserve_sequence
    want = tuple(os.path.join(offset, p.lstrip("/")) for p in protected)
    ex.oblige(f"{P}.trigger.ensures.removes_exactly_the_protected_directories_under_the_offset_from_the_uninstall_set", log == [("uninstall", "difference_update", want)])
    if not custom:
        ex.oblige(f"{P}.ensures.base_system_directories_are_protected", {"/usr", "/etc", "/bin", "/lib", "/var"} <= set(protected))


# ------------------------------------------------------------------ bounded stand-in: real unmerges ----
def _parents(path):
    parts = path.split("/")
    return ["/".join(parts[:i]) for i in range(1, len(parts))]


def enum_unmerges(seed):
    import random
    import shutil
    import tempfile
    from pkgcore.fs import livefs, contents, ops
    from pkgcore.merge import engine, triggers
    from pkgcore.fs import fs as F_
    scratch = tempfile.mkdtemp(prefix="c20.", dir=os.environ.get("PYVC_SCRATCH", "/var/tmp"))
    fails, cases = [], 0
    NAMES = ["usr/bin/a", "usr/bin/b", "usr/lib/x/c", "etc/conf", "opt/p/d", "opt/p/e", "opt/q", "usr/link", "opt/p/link"]
    try:
        for s in range(40):
            rnd = random.Random(seed * 1000 + s)
            old_src, new_src, root = (os.path.join(scratch, f"{t}{s}") for t in ("o", "n", "r"))
            old_names = rnd.sample(NAMES, rnd.choice((3, 5, 6)))
            c18._build(rnd, old_src, old_names)
            replace = rnd.random() < .5
            new_names = rnd.sample(NAMES, 4) if replace else []
            if replace:
                c18._build(rnd, new_src, new_names)
            os.makedirs(new_src, exist_ok=True)
            # the live root: the old package merged, plus foreign files, plus (sometimes) a symlinked directory
            old = contents.contentsSet(livefs.scan(old_src, offset=old_src))
            new = contents.contentsSet(livefs.scan(new_src, offset=new_src))
            os.makedirs(root)
            try:
                ops.merge_contents(old, offset=root)
                if replace:
                    ops.merge_contents(new, offset=root)
            except Exception:
                shutil.rmtree(root, ignore_errors=True)
                continue
            foreign = []
            for d in ("usr/bin", "opt/p", "etc"):
                if rnd.random() < .5 and os.path.isdir(os.path.join(root, d)) and not os.path.islink(os.path.join(root, d)):
                    f = os.path.join(root, d, "foreign")
                    if not os.path.lexists(f):
                        open(f, "w").write("not ours")
                        foreign.append(os.path.relpath(f, root))
            before = c18._snapshot(root)
            cases += 1
            remove = engine.MergeEngine.get_remove_cset(None, {"old_cset": old.insert_offset(root), "install": new.insert_offset(root)})
            eng = type("E", (), {"offset": root})()
            triggers.BaseSystemUnmergeProtection().trigger(eng, remove)
            model = {"seed": s, "old": sorted(x.location for x in old), "new": sorted(x.location for x in new), "foreign": foreign}
            try:
                ops.unmerge_contents(remove)
            except Exception as e:
                if len(fails) < 4:
                    fails.append({"model": model, "detail": f"unmerge raised {type(e).__name__}: {e}"})
                continue
            after = c18._snapshot(root)
            old_locs = {x.location.lstrip("/"): x for x in old}
            new_locs = {x.location.lstrip("/") for x in new}
            probs = []
            for k, b in before.items():
                a = after.get(k)
                owned = k in old_locs and k not in new_locs
                if not owned:
                    # a directory's mtime legitimately moves when an entry inside it is removed: compare type, mode and owner for directories
                    if (a[:4] != b[:4]) if (b[0] == "dir" and a is not None) else (a != b):
                        probs.append(f"{k} is not owned by the removed package ({'installed by the new package' if k in new_locs else 'unlisted'}) but changed: {b[:2]} -> {(a or ('gone',))[:2]}")
                elif b[0] != "dir":
                    if a is not None:
                        probs.append(f"listed {b[0]} {k} is still there")
                else:
                    nonempty = any(o.startswith(k + "/") for o in after)
                    if a is None and any(o.startswith(k + "/") and o not in old_locs for o in before):
                        probs.append(f"directory {k} was removed although it held unlisted content")
                    if a is not None and not nonempty and k not in ("usr", "usr/bin", "usr/lib", "etc"):
                        probs.append(f"listed empty directory {k} was left behind")
                    if a is None and k in ("usr", "usr/bin", "usr/lib", "etc"):
                        probs.append(f"protected base directory {k} was removed")
            if probs and len(fails) < 4:
                fails.append({"model": model, "detail": f"removing {model['old']} (new package: {model['new']}, foreign files {foreign}): " + "; ".join(probs[:4])})
        # the engine's own uninstall set, with and without an offset: every recorded entry that is on disk under the root is in it
        import types as _types
        for s_ in range(6):
            rnd = random.Random(seed * 77 + s_)
            src, root = os.path.join(scratch, f"es{s_}"), os.path.join(scratch, f"er{s_}")
            names = rnd.sample(NAMES, rnd.choice((3, 5)))
            c18._build(rnd, src, names)
            recorded = contents.contentsSet(livefs.scan(src, offset=src))
            os.makedirs(root)
            ops.merge_contents(recorded, offset=root)
            gone = rnd.choice([x.location for x in recorded.iterfiles()] + [None])
            if gone:
                os.unlink(os.path.join(root, gone.lstrip("/")))
            for with_offset in (True, False):
                cases += 1
                pkg = _types.SimpleNamespace(contents=recorded if with_offset else recorded.insert_offset(root), cpvstr="cat/pkg-1")

                class _Obs:
                    def __getattr__(self, n):
                        return lambda *a, **k: None
                tmp = os.path.join(scratch, f"et{s_}{int(with_offset)}")
                os.makedirs(tmp)
                model = {"recorded": sorted(x.location for x in recorded), "offset": root if with_offset else None, "missing_on_disk": gone}
                try:
                    eng = engine.MergeEngine.uninstall(tmp, pkg, offset=root if with_offset else None, observer=_Obs(), disable_plugins=True)
                    got = sorted(os.path.relpath(x.location, root) for x in eng.csets["uninstall"])
                except Exception as e:
                    if len(fails) < 4:
                        fails.append({"model": model, "detail": f"MergeEngine.uninstall(offset={model['offset']}) raised {type(e).__name__}: {e}"})
                    continue
                want = sorted(x.location.lstrip("/") for x in recorded if x.location != gone)
                if got != want and len(fails) < 4:
                    fails.append({"model": model, "detail": f"MergeEngine.uninstall({'offset=<root>' if with_offset else 'recorded paths under <root>, no offset'}): the uninstall set is {got}; "
                                                            f"the package recorded {want} and all of them are on disk under the root"})
        # a whole unmerge through the real engine with the base-system protection and the unmerge trigger registered, on roots that are reached
        # through symbolic links: the root itself (ROOT -> real directory) and a parent inside it (usr -> sys/usr).  Every recorded file goes,
        # every recorded directory that is left empty goes -- except the protected base directories, under whatever name the root is reached
        from pkgcore.merge import triggers as _mt
        from pkgcore.fs import fs as _fs
        PROTECTED = ("usr", "usr/lib", "usr/lib64", "usr/lib32", "usr/bin", "usr/sbin", "bin", "sbin", "lib", "lib32", "lib64", "etc", "var", "home", "root")
        rec_dirs = ["usr", "usr/bin", "usr/lib64", "etc", "usr/share", "usr/share/tool", "var", "var/lib", "var/lib/tool"]
        rec_files = ["usr/bin/tool", "usr/lib64/libtool.so", "etc/tool.conf", "usr/share/tool/data", "var/lib/tool/state"]
        for layout in ("plain root", "root reached through a symbolic link", "usr is a symbolic link to sys/usr inside the root"):
            cases += 1
            base = os.path.join(scratch, "sl-" + layout.split()[0] + str(cases))
            real = os.path.join(base, "real_root")
            phys = (lambda rel: os.path.join(real, "sys", rel) if rel.split("/")[0] == "usr" else os.path.join(real, rel)) if layout.startswith("usr is") else (lambda rel: os.path.join(real, rel))
            for dd in rec_dirs:
                os.makedirs(phys(dd), exist_ok=True)
            for ff in rec_files:
                open(phys(ff), "w").write("x")
            if layout.startswith("usr is"):
                os.symlink("sys/usr", os.path.join(real, "usr"))
            root = real
            if layout.startswith("root reached"):
                root = os.path.join(base, "root")
                os.symlink("real_root", root)
            own = dict(strict=False, uid=os.getuid(), gid=os.getgid())
            pkg = _types.SimpleNamespace(contents=contents.contentsSet([_fs.fsDir("/" + x, mode=0o755, **own) for x in rec_dirs] + [_fs.fsFile("/" + x, mode=0o644, **own) for x in rec_files]), cpvstr="cat/tool-1")
            tmp = os.path.join(base, "tmp")
            os.makedirs(tmp)

            class _Obs2:
                def __getattr__(self, n):
                    return lambda *a, **k: None
            model = {"layout": layout, "recorded_directories": rec_dirs, "recorded_files": rec_files}
            try:
                eng = engine.MergeEngine.uninstall(tmp, pkg, offset=root, observer=_Obs2(), disable_plugins=True)
                _mt.BaseSystemUnmergeProtection().register(eng)
                _mt.unmerge().register(eng)
                for hook in ("sanity_check", "pre_unmerge", "unmerge", "post_unmerge", "final"):
                    getattr(eng, hook)()
            except Exception as e:
                if len(fails) < 4:
                    fails.append({"model": model, "detail": f"unmerging through the real engine ({layout}) raised {type(e).__name__}: {e}"})
                continue
            left_files = [x for x in rec_files if os.path.lexists(phys(x))]
            lost = [x for x in rec_dirs if x in PROTECTED and not os.path.isdir(phys(x))]
            kept = [x for x in rec_dirs if x not in PROTECTED and os.path.isdir(phys(x))]
            if (left_files or lost or kept) and len(fails) < 4:
                fails.append({"model": model, "detail": f"unmerge through the real engine, {layout}: recorded files still there {left_files}; protected base directories removed {lost}; "
                                                        f"recorded, emptied, unprotected directories still there {kept}"})
        # a listed directory that is gone from the live root, next to listed entries whose names merely begin like it (opt/app vs opt/app-data)
        for gone_dir in ("opt/app", "usr/lib", "opt"):
            for with_offset in (True, False):
                cases += 1
                src, root = os.path.join(scratch, f"gs-{gone_dir.replace('/', '_')}{int(with_offset)}"), os.path.join(scratch, f"gr-{gone_dir.replace('/', '_')}{int(with_offset)}")
                for n in ("opt/app/bin/tool", "opt/app/README", "opt/app-data/db", "opt/app.conf", "opt/apps/x", "usr/lib/libx.so", "usr/lib64/liby.so", "usr/libexec/helper", "optional"):
                    os.makedirs(os.path.dirname(os.path.join(src, n)), exist_ok=True)
                    open(os.path.join(src, n), "w").write(n)
                recorded = contents.contentsSet(livefs.scan(src, offset=src))
                os.makedirs(root)
                ops.merge_contents(recorded, offset=root)
                shutil.rmtree(os.path.join(root, gone_dir))
                pkg = _types.SimpleNamespace(contents=recorded if with_offset else recorded.insert_offset(root), cpvstr="cat/pkg-1")
                tmp = os.path.join(scratch, f"gt-{gone_dir.replace('/', '_')}{int(with_offset)}")
                os.makedirs(tmp)
                model = {"recorded": sorted(x.location for x in recorded), "offset": root if with_offset else None, "directory_missing_on_disk": "/" + gone_dir}
                try:
                    eng = engine.MergeEngine.uninstall(tmp, pkg, offset=root if with_offset else None, observer=_Obs(), disable_plugins=True)
                    got = sorted(os.path.relpath(x.location, root) for x in eng.csets["uninstall"])
                except Exception as e:
                    if len(fails) < 4:
                        fails.append({"model": model, "detail": f"MergeEngine.uninstall with /{gone_dir} missing raised {type(e).__name__}: {e}"})
                    continue
                want = sorted(x.location.lstrip("/") for x in recorded if not (x.location.lstrip("/") == gone_dir or x.location.lstrip("/").startswith(gone_dir + "/")))
                if got != want and len(fails) < 4:
                    fails.append({"model": model, "detail": f"MergeEngine.uninstall with the listed directory /{gone_dir} gone from the root: the uninstall set lacks {sorted(set(want) - set(got))} and has {sorted(set(got) - set(want))} too much; "
                                                            "every recorded entry that is on disk belongs in it"})
        # the old package recorded its file through a directory that is a symlink on the live root (usr/lib -> lib64), the new package
        # records the same file under the real directory: after the replacement the new package's file must be there
        for link, real_ in (("usr/lib", "lib64"), ("lib", "usr/lib")):
            cases += 1
            root = os.path.join(scratch, f"sl-{link.replace('/', '_')}")
            realdir = os.path.normpath(os.path.join(root, os.path.dirname(link), real_))
            os.makedirs(realdir)
            os.makedirs(os.path.dirname(os.path.join(root, link)), exist_ok=True)
            os.symlink(real_, os.path.join(root, link))
            open(os.path.join(realdir, "x"), "w").write("old content")
            rel_real = os.path.relpath(realdir, root)
            old = contents.contentsSet([F_.fsDir("/" + link, strict=False), F_.fsFile(f"/{link}/x", strict=False)] + [F_.fsDir("/" + d, strict=False) for d in _parents(link)])
            new_src = os.path.join(scratch, f"sln-{link.replace('/', '_')}")
            os.makedirs(os.path.join(new_src, rel_real))
            open(os.path.join(new_src, rel_real, "x"), "w").write("new content")
            new = contents.contentsSet(livefs.scan(new_src, offset=new_src))
            model = {"live_root": {link: f"symlink -> {real_}", rel_real + "/x": "file"}, "old": sorted(x.location for x in old), "new": sorted(x.location for x in new), "removed_through_a_directory_symlink": True}
            try:
                ops.merge_contents(new, offset=root)
                remove = engine.MergeEngine.get_remove_cset(None, {"old_cset": old.insert_offset(root), "install": new.insert_offset(root)})
                triggers.BaseSystemUnmergeProtection().trigger(type("E", (), {"offset": root})(), remove)
                ops.unmerge_contents(remove)
            except Exception as e:
                fails.append({"model": model, "detail": f"replacement through the directory symlink {link} -> {real_} raised {type(e).__name__}: {e}"})
                continue
            fp = os.path.join(realdir, "x")
            if not os.path.exists(fp) or open(fp).read() != "new content":
                fails.append({"model": model, "detail": f"replacing a package that recorded /{link}/x (with /{link} a symlink to {real_} on the live root) by one that records /{rel_real}/x: "
                                                        f"afterwards /{rel_real}/x {'is gone' if not os.path.exists(fp) else 'holds ' + repr(open(fp).read())} -- the removal set compares recorded paths as text, so the old name of the same file is unlinked after the merge"})
        # protected base paths recorded as symlinks (merged-usr / multilib roots: /lib -> lib64, /bin -> usr/bin) or as directories
        from pkgcore.fs import fs as F
        for kind in ("dir", "sym"):
            for prot, target in (("lib", "lib64"), ("bin", "usr/bin"), ("usr/lib", "lib64"), ("sbin", "usr/sbin")):
                cases += 1
                root = os.path.join(scratch, f"p-{kind}-{prot.replace('/', '_')}")
                real = os.path.normpath(os.path.join(root, os.path.dirname(prot), target))
                os.makedirs(real)
                os.makedirs(os.path.dirname(os.path.join(root, prot)), exist_ok=True)
                open(os.path.join(real, "payload"), "w").write("x")
                if kind == "sym":
                    os.symlink(target, os.path.join(root, prot))
                    ent = F.fsSymlink(os.path.join(root, prot), target, strict=False)
                    payload = os.path.join(real, "payload")
                else:
                    os.rmdir(real) if not os.listdir(real) else None
                    os.makedirs(os.path.join(root, prot), exist_ok=True)
                    open(os.path.join(root, prot, "payload"), "w").write("x")
                    ent = F.fsDir(os.path.join(root, prot), strict=False)
                    payload = os.path.join(root, prot, "payload")
                remove = contents.contentsSet([ent, F.fsFile(payload, strict=False)])
                eng = type("E", (), {"offset": root})()
                model = {"protected_path": "/" + prot, "recorded_as": kind, "target": target if kind == "sym" else None}
                try:
                    triggers.BaseSystemUnmergeProtection().trigger(eng, remove)
                    ops.unmerge_contents(remove)
                except Exception as e:
                    if len(fails) < 4:
                        fails.append({"model": model, "detail": f"protected /{prot} recorded as {kind}: raised {type(e).__name__}: {e}"})
                    continue
                probs = []
                if not os.path.lexists(os.path.join(root, prot)):
                    probs.append(f"the protected base path /{prot} ({'a symlink to ' + target if kind == 'sym' else 'a directory'} on the live root) was removed")
                if os.path.lexists(payload):
                    probs.append(f"the package's own file {os.path.relpath(payload, root)} was left behind")
                if probs and len(fails) < 4:
                    fails.append({"model": model, "detail": "; ".join(probs)})
        # the same protection through the engine's own hooks: an old package recording a protected base directory the new one no longer
        # lists (empty once the old-only files are gone), uninstalled and replaced by MergeEngine with its triggers registered
        from pkgcore.merge import triggers as _mt
        for mode in ("uninstall", "replace"):
            for prot in ("usr/lib32", "var", "etc", "usr/share"):
                cases += 1
                root = os.path.join(scratch, f"e-{mode}-{prot.replace('/', '_')}")
                img, img2, tmp = root + ".old", root + ".new", root + ".tmp"
                for d_ in (os.path.join(img, prot), os.path.join(img2, "usr/bin"), tmp, root):
                    os.makedirs(d_)
                open(os.path.join(img, prot, "old-only"), "w").write("old")
                open(os.path.join(img2, "usr/bin/tool"), "w").write("new")
                old_pkg = types.SimpleNamespace(contents=contents.contentsSet(livefs.scan(img, offset=img)), cpvstr="cat/pkg-1")
                new_pkg = types.SimpleNamespace(contents=contents.contentsSet(livefs.scan(img2, offset=img2)), cpvstr="cat/pkg-2")
                ops.merge_contents(old_pkg.contents, offset=root)
                model = {"engine": mode, "protected_path": "/" + prot, "old_package": sorted(x.location for x in old_pkg.contents), "new_package": sorted(x.location for x in new_pkg.contents) if mode == "replace" else None}
                try:
                    if mode == "uninstall":
                        eng = engine.MergeEngine.uninstall(tmp, old_pkg, offset=root, observer=_Obs(), disable_plugins=True)
                        trgs = (_mt.BaseSystemUnmergeProtection(), _mt.unmerge())
                        hooks = ("sanity_check", "pre_unmerge", "unmerge", "post_unmerge", "final")
                    else:
                        eng = engine.MergeEngine.replace(tmp, old_pkg, new_pkg, offset=root, observer=_Obs(), disable_plugins=True)
                        trgs = (_mt.BaseSystemUnmergeProtection(), _mt.merge(), _mt.unmerge())
                        hooks = ("sanity_check", "pre_merge", "merge", "post_merge", "pre_unmerge", "unmerge", "post_unmerge", "final")
                    for trg in trgs:
                        trg.register(eng)
                    for hook in hooks:
                        eng.execute_hook(hook)
                except Exception as e:
                    if len(fails) < 4:
                        fails.append({"model": model, "detail": f"MergeEngine.{mode} raised {type(e).__name__}: {e}"})
                    continue
                probs = []
                protected = prot in ("usr/lib32", "var", "etc")
                if protected and not os.path.isdir(os.path.join(root, prot)):
                    probs.append(f"the protected base directory /{prot} was removed")
                if not protected and os.path.lexists(os.path.join(root, prot)):
                    probs.append(f"the package's own empty directory /{prot} was left behind")
                if os.path.lexists(os.path.join(root, prot, "old-only")):
                    probs.append(f"/{prot}/old-only was left behind")
                if mode == "replace" and not os.path.exists(os.path.join(root, "usr/bin/tool")):
                    probs.append("the new package's /usr/bin/tool is missing")
                if probs and len(fails) < 4:
                    fails.append({"model": model, "detail": f"MergeEngine.{mode} (old package {model['old_package']}" + (f", new package {model['new_package']}" if mode == "replace" else "") + "): " + "; ".join(probs)})
    finally:
        shutil.rmtree(scratch, ignore_errors=True)
    return {"name": "C20.unmerges.bounded_enumeration", "bound": "3 whole unmerges through the real engine with BaseSystemUnmergeProtection and the unmerge trigger registered (plain root, root reached through a symbolic link, usr -> sys/usr inside the root); 40 seeded scratch roots: an old package of 3..6 of 9 entries (files, hardlinks, symlinks, fifos, nested directories under usr / etc / opt) merged, "
            "optionally a replacing package of 4 entries merged over it, foreign files dropped into shared directories, then get_remove_cset + BaseSystemUnmergeProtection + unmerge_contents; snapshots compared; 6 roots x the engine's uninstall set with and without an offset; 3 roots with a listed directory gone next to entries whose names begin like it; 8 roots whose protected base path (/lib, /bin, /usr/lib, /sbin) is recorded as a directory or as a symlink", "cases": cases, "failures": fails}


def tasks():
    return [
        Task("C20.unmerge_contents", t_unmerge, [(OPS, "unmerge_contents")], bounded={"entries per contents set": 5, "note": "5 fixed sets x offsets x rmdir outcomes"}),
        Task("C20.csets", t_csets, [(ENG, "MergeEngine.get_remove_cset"), (ENG, "MergeEngine.get_replace_cset")], bounded={"scenarios for get_remove_cset": 8, "note": "explicit contents sets over a ghost root with two directory symlinks"}),
        Task("C20.BaseSystemUnmergeProtection", t_protection, [(TRG, "BaseSystemUnmergeProtection.__init__"), (TRG, "BaseSystemUnmergeProtection.trigger")], enumerate=enum_unmerges),
    ]


REPLAY = {}
