"""C32 -- every IPC helper request gets exactly one truthful reply (DESIGN.md section 4, C32)."""
import os
import types
from collections import deque
from pyvc.api import Task, call, Interp
from pyvc.interp import PyRaise
from pyvc.models import Model, ModelHost
from pyvc.sym import SObj, OutOfSubset

PROPERTY = "C32"
IPC = "src/pkgcore/ebuild/ebd_ipc.py"
EBD = "src/pkgcore/ebuild/ebd.py"

MANIFEST = {
    "text": "Contract on IpcCommand.__call__ over a ghost channel, for every outcome of argument parsing and of the helper's run (no value, "
            "a value, a (code, message) pair; IpcCommandError in nonfatal and in fatal mode; any other exception; KeyboardInterrupt): it "
            "reads exactly the five request fields in protocol order, and either writes exactly one reply -- '0' for no value, "
            "'0\\x07value', or 'code\\x07message' with the error's own code and message in nonfatal mode -- or writes nothing and raises "
            "IpcCommandError carrying the helper's name (fatal mode) / IpcInternalError (other exceptions), which run_generic_phase "
            "answers with exactly one reply built from the error before it fails the build.  _encode_ret keeps every reply on one line "
            "for a sample of multi-line and newline-terminated messages.  A native enumeration drives the real helpers through the real run_generic_phase with scripted request "
            "streams (valid, invalid, options forcing the external install fallback, failing fallback) and compares replies with what "
            "happened under the image.",
    "note": "The install-command fallbacks are generator coroutines driven by send(), outside the generator's subset: covered by the enumeration only.  Trusted: the bash side reads one line per reply and one array per request (ebuild-daemon-lib.bash __ebd_ipc_cmd), argparse, "
            "snakeoil spawn_get_output; pyvc encoder.  The bash side itself is not under contract.",
}
ASSUMPTIONS = ["a reply is one write on the channel; the bash side reads it as a single line"]


class Channel(ModelHost):
    def __init__(self, lines):
        self.lines = deque(lines)
        self.reads, self.writes = [], []

    def getattr(self, it, name):
        if name == "read":
            def read(it_, *a):
                if not self.lines:
                    raise OutOfSubset("helper read past its request")
                l = self.lines.popleft()
                self.reads.append(l)
                return l + "\n"
            return Model(read, "ebd.read")
        if name == "write":
            return Model(lambda it_, data, **k: self.writes.append(data), "ebd.write")
        raise OutOfSubset(name)


def t_call(ex):
    import pkgcore.ebuild.ebd_ipc as I
    outcome = ("none", "value", "pair", "cmd_error", "parse_error", "other_exception", "keyboard_interrupt")[ex.choose(7)]
    nonfatal = bool(ex.choose(2))
    P = f"C32.IpcCommand.__call__[{outcome}, {'nonfatal' if nonfatal else 'fatal'}]"
    it = Interp(ex, label=P)
    ch = Channel(["true" if nonfatal else "false", "/work dir", "install", "--dest /usr", "a\0b c\0"])
    seen = {}

    def m_parse(it_, self_, options, args):
        seen["options"], seen["args"] = options, args
        if outcome == "parse_error":
            raise PyRaise(I.UnknownArguments(["zzz"]))
        return "PARSED"

    def m_run(it_, self_, args):
        seen["run"] = args
        if outcome == "cmd_error":
            raise PyRaise(I.IpcCommandError("cannot do that", code=3))
        if outcome == "other_exception":
            raise PyRaise(ValueError("bug"))
        if outcome == "keyboard_interrupt":
            raise PyRaise(KeyboardInterrupt())
        return {"none": None, "value": "some value", "pair": (0, "a pair")}.get(outcome)
    it.models[I.IpcCommand.parse_args] = m_parse
    it.models[I.IpcCommand.run] = m_run

    class Chdir(ModelHost):
        def __init__(self, p):
            seen["cwd"] = p

        def enter(self, it_):
            return None

        def exit(self, it_, *a):
            return False
    it.models[I.chdir] = lambda it_, p: Chdir(p)
    me = SObj(I.IpcCommand, {"name": "doins"})
    out = call(it, it.target(IPC, "IpcCommand.__call__"), me, ch)
    ex.oblige(f"{P}.ensures.reads_exactly_the_five_request_fields", len(ch.reads) == 5 and not ch.lines)
    ex.oblige(f"{P}.ensures.request_fields_are_used_in_protocol_order", seen.get("cwd") == "/work dir" and seen.get("options") == ["--dest", "/usr"] and seen.get("args") == ["a", "b c"] and me.fields.get("phase") == "install")
    failing = outcome in ("cmd_error", "parse_error")
    if outcome in ("none", "value", "pair"):
        want = {"none": 0, "value": "0\x07some value", "pair": "0\x07a pair"}[outcome]
        ex.oblige(f"{P}.ensures.exactly_one_success_reply", not out.raised and ch.writes == [want], note=f"replies {ch.writes}")
    elif failing and nonfatal:
        want = "3\x07cannot do that" if outcome == "cmd_error" else "1\x07unknown arguments: 'zzz'"
        ex.oblige(f"{P}.ensures.nonfatal_failure_is_reported_in_exactly_one_reply_with_its_code_and_message", not out.raised and ch.writes == [want], note=f"replies {ch.writes}")
    elif failing:
        ok = out.raised_cls(I.IpcCommandError) and ch.writes == []
        e = out.exc.exc if out.raised else None
        ex.oblige(f"{P}.raises.fatal_failure_propagates_with_the_helpers_name_and_nothing_is_written_here", ok and getattr(e, "name", None) == "doins" and
                  getattr(e, "code", None) == (3 if outcome == "cmd_error" else 1) and getattr(e, "ret", None) == (f"3\x07cannot do that" if outcome == "cmd_error" else "1\x07unknown arguments: 'zzz'"),
                  kind="exceptional-postcondition", note=f"raised {e!r}, replies {ch.writes}")
    elif outcome == "other_exception":
        ex.oblige(f"{P}.raises.internal_errors_become_IpcInternalError_without_a_reply_here", out.raised_cls(I.IpcInternalError) and ch.writes == [], kind="exceptional-postcondition")
    else:
        ex.oblige(f"{P}.raises.keyboard_interrupt_passes_through", out.raised_cls(KeyboardInterrupt) and ch.writes == [], kind="exceptional-postcondition")


def t_encode(ex):
    import pkgcore.ebuild.ebd_ipc as I
    P = "C32._encode_ret"
    it = Interp(ex, label=P)
    samples = [None, 0, 7, "plain", "two\nlines", "trailing newline\n", "crlf\r\nlines\r\n", (1, "install: cannot stat 'x': No such file\ninstall: failed"), (0, ""), (2, "a\n\nb")]
    ret = samples[ex.choose(len(samples))]
    out = call(it, it.target(IPC, "IpcCommand._encode_ret"), ret)
    ex.oblige(f"{P}.raises.nothing[{ret!r}]", not out.raised, kind="exceptional-postcondition")
    if out.raised:
        return
    r = out.value
    if ret is None:
        ex.oblige(f"{P}.ensures.no_value_is_a_bare_zero", r == 0)
        return
    code = ret[0] if isinstance(ret, tuple) else 0
    ex.oblige(f"{P}.ensures.one_line_starting_with_the_status_code[{ret!r}]", isinstance(r, str) and "\n" not in r and "\r" not in r and r.startswith(f"{code}\x07"), note=f"reply {r!r}")


def t_phase_error(ex):
    """run_generic_phase: an IpcError escaping a helper is answered with exactly one reply built from it, then the build fails"""
    import pkgcore.ebuild.ebd as E
    import pkgcore.ebuild.ebd_ipc as I
    kind = ("command_error", "internal_error")[ex.choose(2)]
    P = f"C32.run_generic_phase[{kind}]"
    it = Interp(ex, label=P)
    writes, shut = [], []
    err = I.IpcCommandError("no such file", code=1, name="doins") if kind == "command_error" else I.IpcInternalError("internal failure")
    if kind == "internal_error":
        err.__cause__ = ValueError("bug")

    class Proc(ModelHost):
        def getattr(self, it_, name):
            if name == "run_phase":
                def rp(it__, *a, **k):
                    raise PyRaise(err)
                return Model(rp, "run_phase")
            if name == "write":
                return Model(lambda it__, d, **k: writes.append(d), "write")
            if name == "shutdown_processor":
                return Model(lambda it__, force=False: shut.append(force), "shutdown_processor")
            raise OutOfSubset(name)
    proc = Proc()
    it.models[E.request_ebuild_processor] = lambda it_, **k: proc
    it.models[E.release_ebuild_processor] = lambda it_, p: None
    it.models[E.is_userpriv_capable] = lambda it_: False
    it.models[E.is_sandbox_capable] = lambda it_: False
    pkg = types.SimpleNamespace(cpvstr="cat/pkg-1")
    out = call(it, it.target(EBD, "run_generic_phase"), pkg, "install", {"T": "/tmp/t"}, False, False, extra_handlers={})
    ex.oblige(f"{P}.ensures.exactly_one_reply_built_from_the_error", writes == [err.ret], note=f"replies {writes}")
    ex.oblige(f"{P}.raises.the_build_fails", out.raised, kind="exceptional-postcondition")


# ------------------------------------------------------------------ bounded stand-in: scripted daemon streams ----
class _Observer:
    def __init__(self):
        self.msgs = []

    def warn(self, msg):
        self.msgs.append(msg)

    info = write = warn

    def flush(self):
        pass

    def flush(self):
        pass


class _Daemon:
    def __init__(self, requests):
        self.lines = deque(l for r in requests for l in r)
        self.replies, self.per_request, self.cur = [], [], None

    def read(self, lines=1):
        return self.lines.popleft() + "\n"

    def write(self, data, **kw):
        self.replies.append(str(data))

    def run_phase(self, phase, env, tmpdir=None, sandbox=None, logging=None, additional_commands=None):
        while self.lines:
            self.cur = len(self.replies)
            cmd = self.read().strip()
            additional_commands[cmd](self)
            self.per_request.append(self.replies[self.cur:])
            self.cur = None
        return True

    def shutdown_processor(self, force=False):
        pass


def _req(cmd, args, cwd, nonfatal=False, opts=""):
    return [cmd, "true" if nonfatal else "false", cwd, "install", opts, "".join(f"{a}\0" for a in args)]


def enum_streams(seed):
    import itertools
    import shutil
    import tempfile
    from pkgcore.ebuild import ebd as E, ebd_ipc as I
    from pkgcore.test.misc import FakePkg
    scratch = tempfile.mkdtemp(prefix="c32.", dir=os.environ.get("PYVC_SCRATCH", "/var/tmp"))
    fails, cases = [], 0
    real_req, real_rel = E.request_ebuild_processor, E.release_ebuild_processor
    try:
        work = os.path.join(scratch, "work")
        os.makedirs(os.path.join(work, "sub"))
        for n in ("file.txt", "other.txt", "zz.txt", "sub/inner.txt"):
            open(os.path.join(work, n), "w").write("data\n")
        os.symlink("file.txt", os.path.join(work, "alink"))
        # (label, request builder, predicate on the image telling whether the action took effect)
        def exists(rel):
            return lambda ED: os.path.lexists(os.path.join(ED, rel))
        REQS = [
            ("dodir", lambda nf: _req("dodir", ["/usr/share/d"], work, nf), exists("usr/share/d"), True),
            ("doins file", lambda nf: _req("doins", ["file.txt"], work, nf, "--dest /usr/share/d"), exists("usr/share/d/file.txt"), True),
            ("doins with unknown install option (external install)", lambda nf: _req("doins", ["other.txt"], work, nf, "--dest /usr/share/d --insoptions '-m0600 -C'"), exists("usr/share/d/other.txt"), True),
            ("dodir with unknown install option (external install)", lambda nf: _req("dodir", ["/usr/share/e"], work, nf, "--diroptions '-m0700 -C'"), exists("usr/share/e"), True),
            ("doins failing external install", lambda nf: _req("doins", ["file.txt"], work, nf, "--dest /usr/share/f --insoptions '--no-such-option'"), exists("usr/share/f/file.txt"), False),
            ("doins missing file", lambda nf: _req("doins", ["missing.txt"], work, nf), lambda ED: False, False),
            # several destination groups through the external install command, an early one failing and the last one succeeding
            ("doexe directory and file via external install", lambda nf: _req("doexe", ["sub", "zz.txt"], work, nf, "--dest /usr/libexec --insoptions '-m0755 -C'"),
             lambda ED: os.path.lexists(os.path.join(ED, "usr/libexec/sub")) and os.path.lexists(os.path.join(ED, "usr/libexec/zz.txt")), False),
            ("doexe two files via external install", lambda nf: _req("doexe", ["file.txt", "zz.txt"], work, nf, "--dest /usr/libexec2 --insoptions '-m0755 -C'"),
             lambda ED: os.path.lexists(os.path.join(ED, "usr/libexec2/file.txt")) and os.path.lexists(os.path.join(ED, "usr/libexec2/zz.txt")), True),
            ("doins directory without -r", lambda nf: _req("doins", ["sub"], work, nf, "--dest /usr/share/g"), exists("usr/share/g/sub"), False),
            ("doins -r directory", lambda nf: _req("doins", ["-r", "sub"], work, nf, "--dest /usr/share/h"), exists("usr/share/h/sub/inner.txt"), True),
            # a recursive install that fails half way (a directory sits where a file has to go): the helper must be usable again afterwards
            ("doins -r onto an obstacle", lambda nf: _req("doins", ["-r", "sub"], work, nf, "--dest /usr/share/obst"), lambda ED: os.path.isfile(os.path.join(ED, "usr/share/obst/sub/inner.txt")), False),
            ("dosym onto a non-empty directory", lambda nf: _req("dosym", ["file.txt", "/usr/share/obst/sub/inner.txt"], work, nf), lambda ED: os.path.islink(os.path.join(ED, "usr/share/obst/sub/inner.txt")), False),
            ("dosym", lambda nf: _req("dosym", ["file.txt", "/usr/share/d/link"], work, nf), exists("usr/share/d/link"), True),
            ("dosym surplus argument", lambda nf: _req("dosym", ["a", "/usr/b", "extra"], work, nf), lambda ED: False, False),
            ("doins unknown helper option", lambda nf: _req("doins", ["file.txt"], work, nf, "--bogus 1"), lambda ED: False, False),
            ("keepdir", lambda nf: _req("keepdir", ["/var/k"], work, nf), lambda ED: os.path.isfile(os.path.join(ED, "var/k/.keep_cat_pkg-0")), True),
            # the stub file cannot be created (its name is taken by a directory): a failure of the underlying file operation, to be reported
            ("keepdir whose stub name is taken", lambda nf: _req("keepdir", ["/var/obst"], work, nf), lambda ED: os.path.isfile(os.path.join(ED, "var/obst/.keep_cat_pkg-0")), False),
        ]
        # eapply: patches from a directory are applied in order, each one's exit status counts.  Every request patches a file of its own, put back
        # into its first state when the request is built
        ORIG = "line1\nline2\nline3\n"

        def diff(name, old_, new_, ctx_old="line2", ctx_new="line2"):
            return f"--- a/{name}\n+++ b/{name}\n@@ -1,3 +1,3 @@\n" + "".join(
                (f" {o}\n" if o == n else f"-{o}\n+{n}\n") for o, n in zip(old_, new_))
        def mkpatches(dirname, files):
            os.makedirs(os.path.join(work, dirname))
            for fn, text in files.items():
                open(os.path.join(work, dirname, fn), "w").write(text)
        L = ["line1", "line2", "line3"]
        mkpatches("p_ok", {"01-first.patch": diff("t_ok.txt", L, ["LINE1", "line2", "line3"]), "02-second.patch": diff("t_ok.txt", ["LINE1", "line2", "line3"], ["LINE1", "line2", "LINE3"])})
        mkpatches("p_first_bad", {"01-bad.patch": diff("t_fb.txt", ["no", "such", "context"], ["x", "such", "context"]), "02-good.patch": diff("t_fb.txt", L, ["line1", "line2", "LINE3"])})
        mkpatches("p_last_bad", {"01-good.patch": diff("t_lb.txt", L, ["LINE1", "line2", "line3"]), "02-bad.patch": diff("t_lb.txt", ["no", "such", "context"], ["x", "such", "context"])})
        mkpatches("p_single", {"only.patch": diff("t_s.txt", ["no", "such", "context"], ["x", "such", "context"])})

        def eapply(target_file, args):
            def build(nf):
                open(os.path.join(work, target_file), "w").write(ORIG)
                for junk in (target_file + ".rej", target_file + ".orig"):
                    if os.path.exists(os.path.join(work, junk)):
                        os.unlink(os.path.join(work, junk))
                return _req("eapply", args, work, nf)
            return build

        def patched(target_file, want):
            return lambda ED: open(os.path.join(work, target_file)).read() == want and not os.path.exists(os.path.join(work, target_file + ".rej"))
        REQS += [
            ("eapply directory of two patches", eapply("t_ok.txt", ["p_ok"]), patched("t_ok.txt", "LINE1\nline2\nLINE3\n"), True),
            ("eapply directory whose first patch fails", eapply("t_fb.txt", ["p_first_bad"]), patched("t_fb.txt", "never: a patch of the set failed"), False),
            ("eapply directory whose last patch fails", eapply("t_lb.txt", ["p_last_bad"]), patched("t_lb.txt", "never: a patch of the set failed"), False),
            ("eapply one failing patch file", eapply("t_s.txt", ["p_single/only.patch"]), patched("t_s.txt", "never: the patch failed"), False),
        ]
        label_idx = {r[0]: i for i, r in enumerate(REQS)}
        # sequences that are always run: a failure of each kind followed by a valid request of the same kind on the same helper object
        always = [tuple(label_idx[x] for x in seq) for seq in (
            ("doins -r onto an obstacle", "doins -r directory", "doins file"), ("doins missing file", "doins file", "doins -r directory"),
            ("dosym onto a non-empty directory", "dosym", "doins -r directory"), ("dosym surplus argument", "dosym", "dodir"),
            ("doins failing external install", "doins with unknown install option (external install)", "doins file"),
            ("doexe directory and file via external install", "doexe two files via external install", "doins -r directory"),
            ("keepdir whose stub name is taken", "keepdir", "dodir"),
            ("eapply directory whose first patch fails", "eapply directory of two patches", "dodir"), ("eapply directory whose last patch fails", "eapply one failing patch file", "eapply directory of two patches"))]
        for order in always + list(itertools.permutations(range(len(REQS)), 3)):
            if order not in always and (hash(order) + seed) % 11:
                continue
            for nonfatal in (True, False):
                ED = os.path.join(scratch, f"image{cases}")
                os.makedirs(os.path.join(ED, "usr/share/obst/sub/inner.txt/occupied"))   # the obstacle: a non-empty directory where a file / link has to go
                os.makedirs(os.path.join(ED, "var/obst/.keep_cat_pkg-0/occupied"))
                op = types.SimpleNamespace(pkg=FakePkg("cat/pkg-1", eapi="8"), ED=ED, observer=_Observer(), env={"T": ED}, userpriv=False, domain=None)
                helpers = {"dosym": I.Dosym(op), "doins": I.Doins(op), "dodir": I.Dodir(op), "doexe": I.Doexe(op), "keepdir": I.Keepdir(op), "eapply": I.Eapply(op)}
                stream = [REQS[i] for i in order]
                d = _Daemon([r[1](nonfatal) for r in stream])
                E.request_ebuild_processor = lambda **kw: d
                E.release_ebuild_processor = lambda p: None
                exc = None
                try:
                    E.run_generic_phase(op.pkg, "install", op.env, False, False, extra_handlers=helpers)
                except Exception as e:
                    exc = e
                    if d.cur is not None:
                        d.per_request.append(d.replies[d.cur:])
                cases += 1
                model = {"requests": [r[0] for r in stream], "nonfatal": nonfatal}
                for idx, (label, _b, took_effect, valid) in enumerate(stream):
                    if idx >= len(d.per_request):
                        if nonfatal or all(s[3] for s in stream[:idx]):
                            fails.append({"model": model, "detail": f"{[r[0] for r in stream]} ({'nonfatal' if nonfatal else 'fatal'}): request #{idx + 1} '{label}' was never answered (build error: {exc!r})"})
                        break
                    replies = d.per_request[idx]
                    if len(replies) != 1:
                        fails.append({"model": model, "detail": f"'{label}' ({'nonfatal' if nonfatal else 'fatal'}) got {len(replies)} replies: {replies!r}"})
                        break
                    rep = replies[0]
                    ok = rep.split("\x07", 1)[0] == "0"
                    if "\n" in rep:
                        fails.append({"model": model, "detail": f"'{label}': the reply spans several lines: {rep!r}"})
                    if ok != took_effect(ED) or ok != valid:
                        fails.append({"model": model, "detail": f"'{label}' ({'nonfatal' if nonfatal else 'fatal'}, after {[s[0] for s in stream[:idx]]}): reply {rep!r} says {'success' if ok else 'failure'}, "
                                      f"the image says the action {'took effect' if took_effect(ED) else 'did not take effect'} (the request is {'valid' if valid else 'invalid'})"})
                    if not ok and not nonfatal:
                        if exc is None:
                            fails.append({"model": model, "detail": f"'{label}' failed in fatal mode but the build went on"})
                        break
                shutil.rmtree(ED, ignore_errors=True)
                if len(fails) > 6:
                    break
    finally:
        E.request_ebuild_processor, E.release_ebuild_processor = real_req, real_rel
        shutil.rmtree(scratch, ignore_errors=True)
    return {"name": "C32.request_streams.bounded_enumeration", "bound": "7 fixed failure-then-success sequences and a 1/11 sample of the ordered triples of 17 helper requests (dodir, doins, doexe, dosym, keepdir; several destination groups through the external install with an early failure; valid, invalid, with options forcing the external install command, with a failing external install), "
            "each in nonfatal and in fatal mode, through the real run_generic_phase with a scripted daemon; replies compared with the image directory", "cases": cases, "failures": fails[:6]}


def tasks():
    return [
        Task("C32.IpcCommand.__call__", t_call, [(IPC, "IpcCommand.__call__"), (IPC, "IpcCommand._encode_ret")]),
        Task("C32._encode_ret", t_encode, [(IPC, "IpcCommand._encode_ret"), (IPC, "IpcCommand._single_line")], bounded={"messages": 10, "note": "sample of single / multi-line replies"}),
        Task("C32.run_generic_phase", t_phase_error, [(EBD, "run_generic_phase")]),
        Task("C32.request_streams", None, [(IPC, "_InstallWrapper._install_cmd"), (IPC, "_InstallWrapper._install_dirs_cmd"), (IPC, "_InstallWrapper.parse_install_options")], enumerate=enum_streams),
    ]


REPLAY = {}
