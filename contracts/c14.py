"""C14 -- configured package views always reflect the current USE set (DESIGN.md section 4, C14)."""
import itertools
import z3
from pyvc.api import Task, call, Interp
from pyvc.interp import PyRaise
from pyvc.models import Model, ModelHost
from pyvc import models, theory, hosts
from pyvc.sym import (KStr, KInt, KBool, KRef, KSet, SBool, SInt, SStr, SSet, SRef, SObj, And, Or, Not, Implies, OutOfSubset, fresh_name)

PROPERTY = "C14"
FILE = "src/pkgcore/package/conditionals.py"
WRAPPER = "make_wrapper.<locals>.PackageWrapper"
Eval = KRef("EvaluatedAttr")
STR = z3.StringSort()

MANIFEST = {
    "text": "Unbounded proof of the cache invariant of PackageWrapper for an arbitrary object state: whenever the entry cached for "
            "a wrapped attribute carries the current generation (_reuse_pt), its value is the raw attribute evaluated under the "
            "*current* USE set, and no entry carries a generation from the future.  _getattr_wrapped returns that evaluation and "
            "establishes the invariant; request_enable/request_disable (USE branch, wrapped-attribute branch, plain-attribute "
            "branch; accepted and refused), rollback and commit each preserve it; a refused request leaves the USE set as it was.",
    "note": "Trusted: snakeoil LimitedChangeSet (add/remove extend the change log and change the set by one element or raise "
            "Unchangable leaving it unchanged; rollback(n) restores the set as it was at change count n; commit keeps the set); "
            "the wrapped-attribute evaluator is a pure function of (raw attribute, USE set); force_True/force_False of a "
            "dependency node may change the USE set arbitrarily through the same API; pyvc encoder.",
}
ASSUMPTIONS = ["LimitedChangeSet contract as stated in the level note",
               "the evaluator registered for a wrapped attribute is a pure function of the raw attribute and the USE set"]


class LCS(ModelHost):
    """ghost LimitedChangeSet: current set, change count, and the sets at remembered change counts"""

    def __init__(self, ex, name="use"):
        self.ex = ex
        self.cur = KSet(KStr).fresh(name)
        self.count = KInt.fresh("changes")
        ex.assume(self.count >= 0)
        self.at = []   # (count term, set) remembered by changes_count()

    def _change(self, it, x, add):
        from snakeoil.containers import Unchangable
        if self.ex.choose(2) == 1:
            raise PyRaise(Unchangable(x))
        self.cur = self.cur.with_(x) if add else self.cur.without(x)
        self.count = self.count + 1

    def getattr(self, it, name):
        if name == "add":
            return Model(lambda it_, x: self._change(it_, x, True), "LimitedChangeSet.add")
        if name == "remove":
            return Model(lambda it_, x: self._change(it_, x, False), "LimitedChangeSet.remove")
        if name == "changes_count":
            def cc(it_):
                self.at.append((self.count, self.cur))
                return self.count
            return Model(cc, "LimitedChangeSet.changes_count")
        if name == "rollback":
            def rb(it_, point=0):
                for c, s in reversed(self.at):
                    if isinstance(point, SInt) and point.t.eq(c.t):
                        self.cur, self.count = s, c
                        return
                self.cur = KSet(KStr).fresh("use_after_rollback")   # an earlier state we did not remember: arbitrary
                self.count = point if isinstance(point, SInt) else SInt(z3.IntVal(point))
            return Model(rb, "LimitedChangeSet.rollback")
        if name == "commit":
            return Model(lambda it_: None, "LimitedChangeSet.commit")
        raise OutOfSubset(f"LimitedChangeSet.{name}")

    def len(self, it):
        f = theory.ufun("set_size", z3.SetSort(STR), z3.IntSort())
        return SInt(f(self.cur.t))

    def iterate(self, it):
        raise OutOfSubset("iteration over the USE set")


def setup(ex, label):
    import pkgcore.package.conditionals as M
    raw_attr = KRef("RawAttr").fresh("raw_depend")
    ev = theory.ufun("evaluate", KRef("RawAttr").sort, z3.SetSort(STR), Eval.sort)
    lcs = LCS(ex)

    def evaluator(it, raw, configurable, pkg=None):
        return Eval.wrap(ev(raw.t, configurable.cur.t))
    it = Interp(ex, label=label)
    it.ref_attrs = {}
    gen0 = KInt.fresh("reuse_pt")
    ex.assume(gen0 >= 0)
    has_entry = bool(ex.choose(2))
    cache = {}
    cached_gen, cached_val = KInt.fresh("cached_generation"), Eval.fresh("cached_value")
    if has_entry:
        cache["depend"] = (cached_gen, cached_val)
        # INV at entry
        ex.assume(And(cached_gen >= 0, cached_gen <= gen0, Implies(cached_gen == gen0, SBool(cached_val.t == ev(raw_attr.t, lcs.cur.t)))))
    raw_pkg = SObj(type("raw_pkg", (), {}), {"depend": raw_attr, "plain": KSet(KStr).fresh("plain_attr")})
    cls = _wrapper_class()
    me = SObj(cls, {"_configurable": lcs, "_reuse_pt": gen0, "_cached_wrapped": cache, "_raw_pkg": raw_pkg,
                    "_wrapped_attr": {"depend": Model(evaluator, "evaluator")}, "_configurable_name": "use"})
    ex.inputs.update({"reuse_pt": gen0, "has_cached_entry": has_entry, "cached_generation": cached_gen})

    def inv():
        e = me.fields["_cached_wrapped"].get("depend")
        pt = me.fields["_reuse_pt"]
        if e is None:
            return True
        g, v = e
        return And(g <= pt, Implies(g == pt, SBool(v.t == ev(raw_attr.t, lcs.cur.t))))
    return it, me, lcs, inv, ev, raw_attr


def _wrapper_class():
    import pkgcore.package.conditionals as M
    return M.make_wrapper(None, "use", attributes_to_wrap={"depend": None})


def target(it, name):
    return it.target(FILE, f"{WRAPPER}.{name}")


def t_getattr(ex):
    P = "C14._getattr_wrapped"
    it, me, lcs, inv, ev, raw = setup(ex, P)
    out = call(it, it.target(FILE, "_getattr_wrapped"), "depend", me)
    ex.oblige(f"{P}.raises.nothing", not out.raised, kind="exceptional-postcondition")
    if out.raised:
        return
    ex.oblige(f"{P}.ensures.returns_raw_attribute_under_current_use", models.eq(it, out.value, Eval.wrap(ev(raw.t, lcs.cur.t))))
    ex.oblige(f"{P}.ensures.invariant_established", inv(), kind="invariant")


def t_request(ex):
    from snakeoil.containers import Unchangable
    enable = bool(ex.choose(2))
    branch = ("use", "depend", "plain")[ex.choose(3)]
    name = "request_enable" if enable else "request_disable"
    P = f"C14.{name}.{branch}"
    it, me, lcs, inv, ev, raw = setup(ex, P)
    use_before = lcs.cur
    vals = tuple(KStr.fresh(f"flag{i}") for i in range(1 + ex.choose(2)))
    if branch == "depend":
        # dependency node whose force_True/force_False may change the USE set through the public API, or refuse
        class Req(ModelHost):
            def getattr(self_, it_, nm):
                def force(it__, pkg, attr, vs):
                    k = ex.choose(3)
                    if k == 2:
                        raise PyRaise(Unchangable(vs))
                    lcs.cur = KSet(KStr).fresh("use_after_force")
                    lcs.count = lcs.count + 1
                    return bool(k)
                if nm in ("force_True", "force_False"):
                    return Model(force, nm)
                raise OutOfSubset(nm)
        nreq = ex.choose(2)

        class Conds(ModelHost):
            def getattr(self_, it_, nm):
                if nm == "get":
                    return Model(lambda it__, k, d=(): tuple(Req() for _ in range(nreq)), "node_conds.get")
                raise OutOfSubset(nm)
        me.fields["_raw_pkg"].fields["depend"] = SObj(type("depset", (), {}), {"node_conds": Conds()})
        # the evaluator's raw attribute stays the abstract one
        me.fields["_wrapped_attr"] = {"depend": me.fields["_wrapped_attr"]["depend"]}
    out = call(it, target(it, name), me, branch, *vals)
    ex.oblige(f"{P}.raises.nothing", not out.raised, kind="exceptional-postcondition")
    if out.raised:
        return
    ex.cover(f"{name}.{branch}")
    r = out.value
    if branch == "depend":
        # the cached evaluation refers to the abstract raw attribute; the invariant must hold for it
        pass
    ex.oblige(f"{P}.invariant_preserved", inv(), kind="invariant")
    if r is False:
        ex.oblige(f"{P}.ensures.refused_request_leaves_use_set", lcs.cur == use_before)
    if branch == "plain":
        ex.oblige(f"{P}.ensures.plain_attribute_request_never_changes_use", lcs.cur == use_before)


def t_rollback_commit(ex):
    which = ("rollback", "commit")[ex.choose(2)]
    P = f"C14.{which}"
    it, me, lcs, inv, ev, raw = setup(ex, P)
    before = lcs.cur
    args = (KInt.fresh("point"),) if which == "rollback" else ()
    out = call(it, target(it, which), me, *args)
    ex.oblige(f"{P}.raises.nothing", not out.raised, kind="exceptional-postcondition")
    if out.raised:
        return
    ex.oblige(f"{P}.invariant_preserved", inv(), kind="invariant")
    if which == "commit":
        ex.oblige(f"{P}.ensures.commit_keeps_use_set", lcs.cur == before)


# -------------------------------------------------------- bounded stand-in ----
def _room(fails, flagged):
    n = sum(1 for f in fails if bool(f["model"].get("disables_absent_flag") or f["model"].get("enables_present_flag")) == bool(flagged))
    return n < (4 if flagged else 6)


def enum_histories(seed):
    import random
    from pkgcore.package.conditionals import make_wrapper
    rnd = random.Random(seed)

    class Raw:
        depend = ("a?", "b?", "c?")
        plain = ("x",)

    def evaluator(raw, configurable, pkg=None):
        return tuple(sorted(f for f in "abc" if f in configurable))
    W = make_wrapper(None, "use", attributes_to_wrap={"depend": evaluator})
    cases, fails = 0, []
    # (a request may name a flag twice, also next to a locked one: "en a a locked" must be refused and leave the USE set alone)
    ops = ["read", "en a", "en b", "dis a", "dis b", "en c", "dis c", "rb", "commit", "en locked", "dis a b", "en a a locked", "en b b", "en c c"]
    for trial in range(600):
        w = W(Raw(), initial_settings=rnd.sample("abc", rnd.randint(0, 2)), unchangable_settings=["locked"])
        marks = [w.changes_count()]
        snap = {marks[0]: frozenset(w.use)}     # the USE set at every point a rollback may return to
        hist = []
        absent_disabled = present_enabled = False
        for _ in range(rnd.randint(2, 7)):
            op = rnd.choice(ops)
            hist.append(op)
            before = set(w.use)
            if op == "read":
                pass
            elif op == "rb":
                pt = rnd.choice([m for m in marks if m <= w.changes_count()])
                try:
                    w.rollback(pt)
                except Exception as e:
                    if _room(fails, absent_disabled or present_enabled):
                        fails.append({"model": {"history": list(hist), "disables_absent_flag": absent_disabled, "enables_present_flag": present_enabled},
                                      "detail": f"history {hist}: rollback to change count {pt} (a point handed out earlier, at most the current count) raised {type(e).__name__}: {e}"})
                    break
                marks = [m for m in marks if m <= pt]
                if pt in snap and frozenset(w.use) != snap[pt] and _room(fails, absent_disabled or present_enabled):
                    fails.append({"model": {"history": list(hist), "disables_absent_flag": absent_disabled, "enables_present_flag": present_enabled}, "detail": f"history {hist}: rolled back to change count {pt}, where the USE set was {sorted(snap[pt])}; it is {sorted(w.use)}"})
            elif op == "commit":
                w.commit()
                marks = [w.changes_count()]
                snap = {marks[0]: frozenset(w.use)}
            else:
                kind, *flags = op.split()
                if kind == "dis" and any(f not in w.use for f in flags):
                    absent_disabled = True   # input feature of known finding KF-C14-1
                if kind == "en" and any(f in w.use for f in flags):
                    present_enabled = True   # input feature of known finding KF-C14-2 (the flag was set before the request)
                try:
                    r = (w.request_enable if kind == "en" else w.request_disable)("use", *flags)
                except KeyError:
                    hist.pop()
                    continue   # disabling a flag that is not set: outside the callers' precondition
                except Exception as e:
                    if _room(fails, absent_disabled or present_enabled):
                        fails.append({"model": {"history": list(hist), "disables_absent_flag": absent_disabled, "enables_present_flag": present_enabled},
                                      "detail": f"history {hist}: the last request raised {type(e).__name__}: {e} (a request is granted or refused, and a refused one leaves the USE set as it was)"})
                    break
                if r is False and set(w.use) != before and _room(fails, absent_disabled or present_enabled):
                    fails.append({"model": {"history": list(hist), "disables_absent_flag": absent_disabled, "enables_present_flag": present_enabled}, "detail": f"history {hist}: refused request changed the USE set {sorted(before)} -> {sorted(w.use)}"})
                marks.append(w.changes_count())
                snap.setdefault(w.changes_count(), frozenset(w.use))
            cases += 1
            want = tuple(sorted(f for f in "abc" if f in w.use))
            if w.depend != want and _room(fails, absent_disabled or present_enabled):
                fails.append({"model": {"history": list(hist), "disables_absent_flag": absent_disabled, "enables_present_flag": present_enabled}, "detail": f"history {hist}: depend reads {w.depend} but USE is {sorted(w.use)} (expected {want})"})
    return {"name": "C14.PackageWrapper.bounded_enumeration", "bound": "600 random histories of <= 7 enable/disable/rollback/commit/read steps over 3 flags (requests naming a flag twice, also next to a locked one, included), attribute read after every step, the USE set compared after every rollback with what it was at that point",
            "cases": cases, "failures": fails}


def enum_real_depsets(seed):
    """the same histories on real dependency sets (plain conditionals, USE-dependencies with and without (+)/(-) defaults in every form),
    evaluated by the evaluator the configured repository uses (DepSet.evaluate_depset): after every step each wrapped attribute must
    read as the raw attribute evaluated under the current USE set"""
    import random
    from snakeoil import klass
    from pkgcore.ebuild.atom import atom
    from pkgcore.ebuild.conditionals import DepSet
    from pkgcore.package.conditionals import make_wrapper
    rnd = random.Random(seed + 1414)
    FLAGS = ("x", "y", "st", "s2", "s3", "z")

    class Raw:
        depend = DepSet.parse("x? ( a/b ) a/c[st(+)?] y? ( a/d[s2(-)=] !z? ( a/e ) ) a/f[!s3(-)?] a/g[z?]", atom)
        rdepend = DepSet.parse("a/h[st(+)=,!s2(-)=] y? ( a/i )", atom)
        pdepend = DepSet.parse("|| ( x? ( a/j ) a/k[s3(+)] ) !y? ( a/l[x(-)?] )", atom)
        plain = ("p",)
        license = DepSet.parse("x? ( GPL-2 ) || ( MIT y? ( BSD ) )", str)
        iuse = FLAGS
    ev = klass.alias_method("evaluate_depset")
    W = make_wrapper(None, "use", attributes_to_wrap={"depend": ev, "rdepend": ev, "pdepend": ev, "license": ev})
    # ... and the wrapper class the configured repository itself builds (its own evaluators for the wrapped attributes, one tree for all trials,
    # so whatever it remembers between packages is there)
    import types
    from pkgcore.ebuild.repository import ConfiguredTree
    start = {"use": ()}
    fake_domain = types.SimpleNamespace(get_package_use_unconfigured=lambda pkg: (frozenset(), frozenset(start["use"]), frozenset()),
                                        profile=types.SimpleNamespace(iuse_effective=frozenset()))
    ctree = ConfiguredTree(types.SimpleNamespace(), fake_domain, {"USE": (), "CHOST": "x86_64-pc-linux-gnu"})

    def W_tree(raw, initial_settings, unchangable_settings):
        start["use"] = tuple(initial_settings)
        return ctree.package_class(raw)
    cases, fails = 0, []
    ops = ["read"] + [f"en {f}" for f in FLAGS] + [f"dis {f}" for f in FLAGS] + ["rb", "rb", "commit", "en st s2", "dis x y"]
    for trial in range(700):
        via_tree = trial % 2 == 1
        w = (W_tree if via_tree else W)(Raw(), initial_settings=rnd.sample(FLAGS, rnd.randint(0, 4)), unchangable_settings=["locked"])
        marks = [w.changes_count()]
        hist = []
        for _ in range(rnd.randint(2, 8)):
            op = rnd.choice(ops)
            kind, *flags = op.split()
            # requests that change nothing (enabling a set flag, disabling an unset one) are left out: snakeoil's change set
            # mishandles their rollback (KF-C14-1, exercised by the first enumeration)
            if kind == "en" and any(f in w.use for f in flags) or kind == "dis" and any(f not in w.use for f in flags):
                continue
            hist.append(op)
            if op == "rb":
                pt = rnd.choice([m for m in marks if m <= w.changes_count()])
                try:
                    w.rollback(pt)
                except Exception as e:
                    if len(fails) < 5:
                        fails.append({"model": {"history": list(hist)}, "detail": f"history {hist}: rollback to change count {pt} (a point handed out earlier, at most the current count) raised {type(e).__name__}: {e}"})
                    break
                marks = [m for m in marks if m <= pt]
            elif op == "commit":
                w.commit()
                marks = [w.changes_count()]
            elif op != "read":
                (w.request_enable if kind == "en" else w.request_disable)("use", *flags)
                marks.append(w.changes_count())
            for attr in (("depend", "rdepend", "pdepend", "license") if rnd.random() < .7 else ("rdepend",)):
                cases += 1
                got, want = str(getattr(w, attr)), str(getattr(Raw, attr).evaluate_depset(w.use))
                if got != want and len(fails) < 4:
                    fails.append({"model": {"history": list(hist), "attribute": attr, "use": sorted(w.use), "wrapper": "ConfiguredTree.package_class" if via_tree else "make_wrapper"},
                                  "detail": f"[{'ConfiguredTree' if via_tree else 'make_wrapper'}] history {hist}: {attr} reads {got!r} but the raw attribute under USE {sorted(w.use)} is {want!r}"})
    # several views of ONE raw package taken from the tree, their histories interleaved: what one view evaluated must never be served to another
    for trial in range(150):
        raw = Raw()
        views = [W_tree(raw, initial_settings=rnd.sample(FLAGS, rnd.randint(0, 3)), unchangable_settings=["locked"]) for _ in range(rnd.choice((2, 2, 3)))]
        hist = []
        for _ in range(rnd.randint(3, 9)):
            vi = rnd.randrange(len(views))
            w = views[vi]
            op = rnd.choice(ops[:13])
            kind, *flags = op.split()
            if kind == "en" and any(f in w.use for f in flags) or kind == "dis" and any(f not in w.use for f in flags):
                continue
            hist.append(f"view {vi}: {op}")
            if op != "read":
                (w.request_enable if kind == "en" else w.request_disable)("use", *flags)
            for attr in (("depend", "rdepend", "pdepend", "license") if rnd.random() < .7 else ("depend",)):
                cases += 1
                got, want = str(getattr(w, attr)), str(getattr(Raw, attr).evaluate_depset(w.use))
                if got != want and len(fails) < 4:
                    fails.append({"model": {"history": list(hist), "attribute": attr, "use": sorted(w.use), "wrapper": "ConfiguredTree.package_class, several views of one raw package"},
                                  "detail": f"[{len(views)} views of one raw package from one ConfiguredTree] history {hist}: view {vi} reads {attr} = {got!r} but the raw attribute under its USE {sorted(w.use)} is {want!r}"})
    return {"name": "C14.real_depsets.bounded_enumeration", "bound": "150 interleaved histories over 2..3 views of one raw package taken from one ConfiguredTree; 700 random histories of <= 8 enable/disable/rollback/commit/read steps over 6 flags on three real dependency sets and a LICENSE, half of them on packages wrapped by a real ConfiguredTree (one tree for all) "
            "(plain conditionals, [f?] [f=] [!f?] [!f=] with and without (+)/(-) defaults, ||), attributes read after every step (sometimes only one of them, so that stale entries survive)",
            "cases": cases, "failures": fails}


def tasks():
    fns = [(FILE, f"{WRAPPER}.{n}") for n in ("request_enable", "request_disable", "rollback", "commit")] + [(FILE, "_getattr_wrapped")]
    return [
        Task("C14._getattr_wrapped", t_getattr, fns[-1:]),
        Task("C14.requests", t_request, fns[:2], enumerate=enum_histories),
        Task("C14.rollback_commit", t_rollback_commit, fns[2:4]),
        Task("C14.real_depsets", None, fns + [("src/pkgcore/repository/configured.py", "tree.package_class"), ("src/pkgcore/ebuild/repository.py", "ConfiguredTree._get_pkg_kwds")], enumerate=enum_real_depsets),
    ]


REPLAY = {}
WITNESSES = {"disables_absent_flag": lambda m: bool(m.get("disables_absent_flag")), "enables_present_flag": lambda m: bool(m.get("enables_present_flag"))}
