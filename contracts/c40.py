"""C40 -- keywording requests only name valid, narrowed, not-yet-present arches (DESIGN.md section 4, C40)."""
import os
import itertools
import random
import z3
from pyvc.api import Task, call, Interp
from pyvc.sym import KSeq, KStr, SBool, SSeq, And, Not

PROPERTY = "C40"
KW = "src/pkgcore/ebuild/keywording.py"

MANIFEST = {
    "text": "Proof that filter_prefix_keywords, for a keyword list of any length and content, keeps exactly the keywords without a "
            "hyphen (so no prefix keyword such as x86-macos or *-fbsd survives).  match_packages / suggested_keywords are a bounded "
            "stand-in: seeded small repositories (3 packages x <= 3 versions, stable / testing / disabled / prefix keywords, one arch "
            "missing from the repository's arch list, a live version) and request lists of 1..3 lines with explicit arches and the * ^ - "
            "sentinels are resolved under every combination of stable, cc_arches, only_new, filter_arch and allarches; every yielded "
            "request is compared with a reference reading of the statement (known arches only, narrowing, only-new, suggestion rules), "
            "and stabilization requests with a spec other than an unslotted =cat/pkg-ver must be rejected.",
    "note": "Trusted: repo.match / itermatch (C08), sort_keywords' ordering, package keyword metadata; pyvc encoder.",
}
ASSUMPTIONS = ["a prefix keyword is one containing a hyphen"]


def t_filter_prefix(ex):
    P = "C40.filter_prefix_keywords"
    it = Interp(ex, label=P)
    kws = KSeq(KStr, "list").fresh("keywords")
    out = call(it, it.target(KW, "filter_prefix_keywords"), kws)
    ex.oblige(f"{P}.raises.nothing", not out.raised, kind="exceptional-postcondition")
    if out.raised:
        return
    r = out.value
    x = KStr.fresh("x")
    inr = r.contains(x) if isinstance(r, SSeq) else SBool(z3.BoolVal(False))
    ex.oblige(f"{P}.ensures.keeps_exactly_the_keywords_without_a_hyphen", inr == And(kws.contains(x), Not(x.contains("-"))))


# ------------------------------------------------------------------ bounded stand-in ----
ARCHES = ("alpha", "amd64", "hppa", "x86", "x86-macos", "m68k-mint", "s390x-linux")  # the repository's arch list names a prefix arch too: it must still never be suggested


class Repo:
    def __init__(self, tree, known):
        self.tree, self.known_arches = tree, frozenset(known)

    def match(self, a):
        return self.tree.match(a)

    def itermatch(self, a):
        return self.tree.itermatch(a)


def mkrepo(rnd):
    from pkgcore.repository.util import SimpleTree
    from pkgcore.test.misc import FakePkg
    spec = {}
    pool = ["amd64", "~amd64", "-amd64", "alpha", "~alpha", "-alpha", "hppa", "~hppa", "-hppa", "x86", "~x86", "-x86", "ia64", "~ia64", "x86-macos", "~x86-macos", "~amd64-linux", "-*",
            "m68k-mint", "~m68k-mint", "s390x-linux", "~ppc64le-linux", "sparc64-solaris"]   # prefix arches of every shape (digits inside the arch part)
    for p in ("a", "b", "c"):
        spec[p] = {v: tuple(sorted(set(rnd.sample(pool, rnd.choice((0, 1, 2, 3, 4)))))) for v in rnd.sample(("1", "2", "3"), rnd.choice((1, 2, 3)))}
    holder = {}

    def klass(cat, pkg, ver):
        k = FakePkg(f"{cat}/{pkg}-{ver}", keywords=spec[pkg][ver], repo=holder["t"])
        object.__setattr__(k, "keywords", tuple(spec[pkg][ver]))
        return k
    t = SimpleTree({"cat": {p: list(v) for p, v in spec.items()}}, pkg_klass=klass)
    holder["t"] = t
    return Repo(t, ARCHES), spec


def ref_suggest(spec, p, v, stable):
    mine = spec[p][v]
    if stable:
        elsewhere = {k for ov, kws in spec[p].items() for k in kws if k[0] not in "-~"}
        cand = elsewhere & {k[1:] for k in mine if k[0] == "~"}
    else:
        elsewhere = {k.lstrip("~") for ov, kws in spec[p].items() for k in kws if k[0] != "-"}
        cand = elsewhere - {k.lstrip("~-") for k in mine}
    return {k for k in cand if "-" not in k}


def enum_requests(seed):
    import os
    from pkgcore.ebuild.atom import atom
    from pkgcore.ebuild import keywording as K
    thorough = os.environ.get("VERIF_TIER") == "thorough"
    fails, cases = [], 0

    def note(model, detail):
        if len(fails) < 5:
            fails.append({"model": model, "detail": detail})
    for s in range(120 if thorough else 40):
        rnd = random.Random(seed * 1000 + s)
        repo, spec = mkrepo(rnd)
        for _ in range(12):
            lines = []
            for i in range(rnd.choice((1, 2, 3))):
                p = rnd.choice(sorted(spec))
                v = rnd.choice(sorted(spec[p]))
                form = rnd.choice(("=", "=", "bare", "slot"))
                dep = atom(f"=cat/{p}-{v}") if form == "=" else atom(f"cat/{p}") if form == "bare" else atom(f"=cat/{p}-{v}:0")
                written = rnd.choice(([], ["*"], ["amd64"], ["~x86", "hppa"], ["^"], ["*", "alpha"], ["-"], ["^", "x86"], ["ia64"], ["amd64", "*"]))
                lines.append((dep, tuple(written), p, v, form))
            for stable, cc, only_new, flt, allarches in itertools.product((False, True), ((), ("amd64", "hppa"), ("amd64", "nosucharch")), (False, True), ((), ("amd64", "x86")), (False, True)):
                if allarches and not stable:
                    continue
                cases += 1
                model = {"seed": s, "repo": {p: {v: list(k) for v, k in vs.items()} for p, vs in spec.items()}, "lines": [(str(l[0]), list(l[1])) for l in lines],
                         "stable": stable, "cc_arches": list(cc), "only_new": only_new, "filter_arch": list(flt), "allarches": allarches}
                try:
                    got = [(r.pkg.cpvstr, list(r.keywords)) for r in K.match_packages(repo, [(l[0], l[1]) for l in lines], stable=stable, cc_arches=cc, only_new=only_new, filter_arch=flt, allarches=allarches)]
                    exc = None
                except (K.PackageMatchException, K.KeywordNoneLeft) as e:
                    got, exc = None, e
                except Exception as e:
                    note(model, f"match_packages raised {type(e).__name__}: {e} for {model['lines']} (stable={stable})")
                    continue
                bad_spec = stable and any(l[4] != "=" for l in lines)
                if bad_spec:
                    # a stabilization cannot act on anything but an unslotted =cpv: must be rejected (before or at that line)
                    first_bad = next(i for i, l in enumerate(lines) if l[4] != "=")
                    if got is not None:
                        note(model, f"stabilization request {model['lines']} holds a spec it cannot act on, yet it was resolved to {got}")
                    continue
                if got is None:
                    continue
                for (cpv, kws) in got:
                    p, v = cpv.split("/")[1].rsplit("-", 1)
                    line = next((l for l in lines if l[2] == p and (l[4] == "bare" or l[3] == v)), None)
                    mine = spec[p][v]
                    unknown = [k for k in kws if k not in ARCHES]
                    if unknown:
                        note(model, f"request for {cpv} names arches {unknown} unknown to the repository (known {list(ARCHES)}); lines {model['lines']}, stable={stable}")
                    if flt and not allarches and any(k not in flt for k in kws):
                        note(model, f"request for {cpv} names {kws} outside the arch filter {list(flt)}")
                    if flt and allarches and any(k not in flt and k not in ref_suggest(spec, p, v, True) for k in kws):
                        note(model, f"all-arches request for {cpv} names {kws}: outside the arch filter {list(flt)} and not an all-arches candidate {sorted(ref_suggest(spec, p, v, True))}")
                    if only_new and not allarches:
                        dup = [k for k in kws if k in mine or (not stable and "~" + k in mine)]
                        if dup:
                            note(model, f"only-new request for {cpv} (keywords {list(mine)}) still names {dup}")
                    if any("-" in k for k in kws):
                        note(model, f"request for {cpv} names a prefix keyword: {kws}")
                # single-line requests: the exact answer
                if len(lines) == 1 and "^" not in lines[0][1]:
                    dep, written, p, v, form = lines[0]
                    if form == "bare":
                        continue
                    kws = [k.strip().lstrip("~") for k in written]
                    if "-" in kws:
                        want = []
                    else:
                        if "*" in kws:
                            sug = ref_suggest(spec, p, v, stable)
                            kws = sorted(sug) + [k for k in kws if k != "*"]
                        want = None
                        if not (set(kws) - set(ARCHES)):
                            if not kws:
                                kws = [k for k in cc if k in ARCHES]   # addressed to the cc arches -- those the repository knows
                            elif cc:
                                kws = [k for k in kws if k in cc]
                            want = kws
                    if want is not None and want and not only_new and not flt and not got == []:
                        if sorted(got[0][1]) != sorted(want):
                            note(model, f"{str(dep)} {list(written)} (stable={stable}, cc={list(cc)}) resolved to {got[0][1]}, the statement gives {sorted(want)}")
    return {"name": "C40.requests.bounded_enumeration", "bound": f"{120 if thorough else 40} seeded repositories (3 packages x <= 3 versions, 13 keyword spellings incl. prefix keywords and an arch missing from the arch list) x 12 request lists of 1..3 lines "
            "(10 keyword spellings incl. * ^ -, =cpv / bare / slotted specs) x 36 option combinations (cc lists with and without an arch the repository does not know)", "cases": cases, "failures": fails}


def enum_best_version(seed):
    """select_best_version (which version a request that names no version resolves to) against its documented rule: the newest keyworded
    version; failing that the newest non-live one; failing that the newest -- over every set of <= 4 versions with keyworded / live flags"""
    import functools
    from pkgcore.ebuild import keywording as K

    @functools.total_ordering
    class P:
        def __init__(self, ver, keyworded, live):
            self.ver, self.keywords, self.live = ver, (("~amd64",) if keyworded else ()), live

        def __eq__(self, o):
            return self.ver == o.ver

        def __lt__(self, o):
            return self.ver < o.ver

        def __hash__(self):
            return hash(self.ver)

        def __repr__(self):
            return f"v{self.ver}{'K' if self.keywords else ''}{'L' if self.live else ''}"
    fails, cases = [], 0
    for n in range(0, 5):
        for flags in itertools.product(((False, False), (True, False), (False, True), (True, True)), repeat=n):
            pk = [P(i + 1, k, l) for i, (k, l) in enumerate(flags)]
            for order in ([pk, pk[::-1]] if n > 1 else [pk]):
                cases += 1
                try:
                    got = K.select_best_version(list(order))
                except Exception as e:
                    got = f"{type(e).__name__}: {e}"
                want = None
                for tier in (lambda p: bool(p.keywords), lambda p: not p.live, lambda p: True):
                    c = [p for p in pk if tier(p)]
                    if c:
                        want = max(c, key=lambda p: p.ver)
                        break
                if got is not want and len(fails) < 4:
                    fails.append({"model": {"versions": [repr(p) for p in order]}, "detail": f"select_best_version({order}) (K: keyworded, L: live) picks {got!r}; the documented rule picks {want!r}"})
    return {"name": "C40.select_best_version.bounded_enumeration", "bound": "every list of <= 4 versions, each keyworded or not and live or not, ascending and descending", "cases": cases, "failures": fails}


def enum_real_repositories(seed):
    """which arches count as known to the repository: real on-disk repositories (a master, an overlay on top of it with an arch list of its
    own, an empty one, none at all) through UnconfiguredTree.known_arches -- the overlay knows its own arches and every arch of its masters --
    and the real match_packages on the overlay: a request naming a master's arch resolves, * expands over master and overlay arches"""
    import shutil
    import tempfile
    from pkgcore.ebuild import repo_objs, repository
    from pkgcore.ebuild.atom import atom
    from pkgcore.ebuild.keywording import match_packages
    from pkgcore.pytest.plugin import EbuildRepo
    scratch = tempfile.mkdtemp(prefix="c40.", dir=os.environ.get("PYVC_SCRATCH", "/var/tmp"))
    fails, cases = [], 0
    try:
        for i, own in enumerate((("riscv",), ("riscv", "amd64"), (), None)):
            d = os.path.join(scratch, f"r{i}")
            master = EbuildRepo(f"{d}/master", repo_id="master", arches=("amd64", "x86"))
            overlay = EbuildRepo(f"{d}/overlay", repo_id="overlay", masters=("master",), arches=own or ())
            if own is None:
                try:
                    os.unlink(os.path.join(overlay.path, "profiles", "arch.list"))
                except OSError:
                    pass
            every = sorted({"amd64", "x86"} | set(own or ()))
            overlay.create_ebuild("cat/pkg-1", keywords=every)
            overlay.create_ebuild("cat/pkg-2", keywords=["~" + a for a in every])
            model = {"master_arch_list": ["amd64", "x86"], "overlay_arch_list": list(own) if own is not None else None}
            cases += 1
            try:
                tree = repository.UnconfiguredTree(overlay.path, masters=(master._repo,), repo_config=repo_objs.RepoConfig(location=overlay.path))
                known = sorted(tree.known_arches)
            except Exception as e:
                fails.append({"model": model, "detail": f"building the overlay (arch list {own}) raised {type(e).__name__}: {e}"})
                continue
            if known != every:
                fails.append({"model": model, "detail": f"overlay with arch list {own} on a master with arch list ['amd64', 'x86']: known_arches is {known}, the repository and its masters know {every}"})
            for req, want in (([(atom("=cat/pkg-2"), ["amd64"])], [("cat/pkg-2", ["amd64"])]), ([(atom("=cat/pkg-2"), ["x86"] + list(own or ())[:1])], [("cat/pkg-2", sorted(["x86"] + list(own or ())[:1]))]),
                              ([(atom("=cat/pkg-2"), ["*"])], [("cat/pkg-2", every)])):
                cases += 1
                try:
                    got = [(r.pkg.cpvstr, sorted(r.keywords)) for r in match_packages(tree, req, stable=True)]
                except Exception as e:
                    got = f"{type(e).__name__}: {e}"
                if got != want and len(fails) < 5:
                    fails.append({"model": dict(model, request=[[str(a), k] for a, k in req]), "detail": f"overlay (arch list {own}) on master (amd64 x86), stabilisation request {[(str(a), k) for a, k in req]}: {got}, expected {want}"})
        # the arch list replaced by another one of the same size and the same modification time (an mtime-preserving delivery, two updates within a
        # second): a repository opened afterwards in the same process knows what the file says now
        cases += 1
        swap = EbuildRepo(f"{scratch}/swap", repo_id="swap", arches=("amd64", "hppa"))
        swap.create_ebuild("cat/pkg-1", keywords=["amd64", "hppa", "mips"])
        swap.create_ebuild("cat/pkg-2", keywords=["~amd64", "~hppa", "~mips"])
        model = {"arch_list_before": ["amd64", "hppa"], "arch_list_after": ["amd64", "mips"], "same_size_and_mtime": True}
        try:
            first = sorted(repository.UnconfiguredTree(swap.path, repo_config=repo_objs.RepoConfig(location=swap.path)).known_arches)
            ap = os.path.join(swap.path, "profiles", "arch.list")
            st = os.stat(ap)
            text = open(ap).read()
            open(ap, "w").write(text.replace("hppa", "mips"))
            os.utime(ap, ns=(st.st_atime_ns, st.st_mtime_ns))
            tree2 = repository.UnconfiguredTree(swap.path, repo_config=repo_objs.RepoConfig(location=swap.path))
            second = sorted(tree2.known_arches)
            # an explicit request for the arch that is valid now must be accepted, one for the arch that is gone refused
            try:
                ok_now = [(r.pkg.cpvstr, sorted(r.keywords)) for r in match_packages(tree2, [(atom("=cat/pkg-2"), ["mips"])], stable=True)]
            except Exception as e:
                ok_now = f"{type(e).__name__}: {e}"
            try:
                gone = [(r.pkg.cpvstr, sorted(r.keywords)) for r in match_packages(tree2, [(atom("=cat/pkg-2"), ["hppa"])], stable=True)]
            except Exception as e:
                gone = "refused"
            if first != ["amd64", "hppa"] or second != ["amd64", "mips"] or ok_now != [("cat/pkg-2", ["mips"])] or gone != "refused":
                fails.append({"model": model, "detail": f"arch list amd64 hppa read ({first}), then replaced by amd64 mips with the same size and modification time: a repository opened afterwards knows {second}; "
                                                        f"a request for mips on =cat/pkg-2 gives {ok_now}, one for hppa gives {gone}; the file says amd64 mips"})
        except Exception as e:
            fails.append({"model": model, "detail": f"re-opening a repository after its arch list was replaced raised {type(e).__name__}: {e}"})
    finally:
        shutil.rmtree(scratch, ignore_errors=True)
    return {"name": "C40.real_repositories.bounded_enumeration", "bound": "an arch list replaced in place (same size, same mtime) between two openings of one repository; 4 on-disk overlays (own arch list: one new arch, a new and a shared one, empty, absent) on a master with two arches: known_arches and 3 stabilisation requests each through the real match_packages",
            "cases": cases, "failures": fails}


def tasks():
    return [
        Task("C40.select_best_version", None, [(KW, "select_best_version")], enumerate=enum_best_version),
        Task("C40.filter_prefix_keywords", t_filter_prefix, [(KW, "filter_prefix_keywords")]),
        Task("C40.real_repositories", None, [("src/pkgcore/ebuild/repository.py", "UnconfiguredTree.known_arches"), (KW, "match_packages")], enumerate=enum_real_repositories),
        Task("C40.requests", None, [(KW, "match_packages"), (KW, "suggested_keywords")], enumerate=enum_requests),
    ]


REPLAY = {}
