"""C45 -- security advisories flag exactly the vulnerable versions (DESIGN.md section 4, C45)."""
import itertools
import z3
from pyvc.api import Task, call, Interp
from pyvc.interp import PyRaise
from pyvc.models import Model, ModelHost
from pyvc import models, theory
from pyvc.sym import (KStr, KInt, KBool, KRef, SBool, SInt, SStr, SObj, And, Or, Not, Implies, OutOfSubset, fresh_name)

PROPERTY = "C45"
FILE = "src/pkgcore/pkgsets/glsa.py"
OPS = ("lt", "le", "eq", "ge", "gt", "rlt", "rle", "rge", "rgt")

MANIFEST = {
    "text": "Unbounded proof over an abstract version order (any base version, any revisions, any slot strings, any package) that "
            "the restriction generate_restrict_from_range builds for each of the nine range operators, for glob eq ranges, with "
            "and without a slot attribute, plain and negated (unaffected), matches exactly the packages the GLSA range denotes "
            "(xor negate); and that generate_intersects_from_pkg_node combines them as (some vulnerable range) and (no "
            "unaffected range) and (one of the named arches), arch '*' or absent meaning any.  Advisory files end to end are a "
            "bounded native stand-in.",
    "note": "Trusted: VersionMatch / SlotDep / StrGlobMatch / And-Or restrictions follow their C01, C04, C06, C07 contracts "
            "(they are replaced by those contracts here); the version order is (base comparison, then revision as integer); a "
            "glob range is an abstract prefix predicate on the full version text; XML node access; pyvc encoder.",
}
ASSUMPTIONS = ["GLSA range semantics as in the property statement: lt/le/eq/ge/gt on full versions, r* forms on revisions of the same base version, slot limits any range",
               "VersionMatch(op, v, rev, negate) matches iff (ver_cmp in the operator's set) != negate; '~' iff same base version (C01/C07)"]


class R(ModelHost):
    """abstract restriction: its meaning on the arbitrary package of this exploration"""

    def __init__(self, sem, desc):
        self.sem, self.desc = sem, desc

    def __repr__(self):
        return self.desc


class World:
    def __init__(self, ex):
        self.cmpb = KInt.fresh("base_cmp")       # pkg base version vs range base version: -1/0/1
        self.rp, self.rb = KInt.fresh("pkg_rev"), KInt.fresh("range_rev")
        ex.assume(And(self.cmpb >= -1, self.cmpb <= 1, self.rp >= 0, self.rb >= 0))
        self.pslot, self.slot = KStr.fresh("pkg_slot"), KStr.fresh("range_slot")
        ex.assume(self.slot.length() > 0)
        self.glob_hit = z3.Bool(fresh_name("fullver_has_the_glob_prefix"))

    def vc(self, use_rev_b=True):
        rb = self.rb.t if use_rev_b else z3.IntVal(0)
        rc = z3.If(self.rp.t < rb, -1, z3.If(self.rp.t > rb, 1, 0))
        return z3.If(self.cmpb.t != 0, self.cmpb.t, rc)


VALS = {"<": (-1,), "<=": (-1, 0), "=": (0,), ">=": (0, 1), ">": (1,)}


def restriction_models(ex, w):
    import pkgcore.pkgsets.glsa as G

    def version_match(it, op, ver, rev=None, negate=False, **kw):
        if op == "~":
            m = w.cmpb.t == 0
        else:
            if rev is None:
                v = w.vc(False)
            else:
                v = w.vc(True)
            m = z3.Or(*[v == x for x in VALS[op]])
        m = z3.Not(m) if negate else m
        return R(m, f"VersionMatch({op}{',negated' if negate else ''})")

    def slot_dep(it, slot):
        return R((w.pslot == slot).t if isinstance(w.pslot == slot, SBool) else z3.BoolVal(bool(w.pslot == slot)), "SlotDep")

    def pkg_restriction(it, attr, child, **kw):
        if attr == "fullver" and isinstance(child, R):
            return child
        if attr == "keywords" and isinstance(child, R):
            return child
        raise OutOfSubset(f"PackageRestriction({attr})")

    def glob(it, prefix, **kw):
        return R(w.glob_hit, "StrGlobMatch(fullver prefix)")

    def sem(r):
        # the two constant restrictions (packages.AlwaysTrue / AlwaysFalse) are real objects: their match is their constant
        if r is G.packages.AlwaysTrue or r is G.packages.AlwaysFalse:
            return z3.BoolVal(r is G.packages.AlwaysTrue)
        return r.sem

    def and_(it, *rs, negate=False, tag=None, **kw):
        m = z3.And(*[sem(r) for r in rs]) if rs else z3.BoolVal(True)
        return R(z3.Not(m) if negate else m, "And" + ("(negated)" if negate else ""))

    def or_(it, *rs, negate=False, **kw):
        m = z3.Or(*[sem(r) for r in rs]) if rs else z3.BoolVal(False)
        return R(z3.Not(m) if negate else m, "Or")
    return {G.atom_restricts.VersionMatch: version_match, G.atom_restricts.SlotDep: slot_dep, G.packages.PackageRestriction: pkg_restriction,
            G.values.StrGlobMatch: glob, G.packages.AndRestriction: and_, G.packages.OrRestriction: or_, G.packages.KeyedAndRestriction: and_}


def range_spec(w, op, glob, has_slot, base_has_rev):
    """the property statement"""
    if glob:
        m = w.glob_hit
    elif op in ("lt", "le", "eq", "ge", "gt"):
        v = w.vc(True)
        m = {"lt": v < 0, "le": v <= 0, "eq": v == 0, "ge": v >= 0, "gt": v > 0}[op]
    else:
        same = w.cmpb.t == 0
        rb = w.rb.t
        m = z3.And(same, {"rlt": w.rp.t < rb, "rle": w.rp.t <= rb, "rge": w.rp.t >= rb, "rgt": w.rp.t > rb}[op])
    if has_slot:
        # GLSA format: slot="*" (the DTD's default) means any slot
        m = z3.And(m, z3.Or(w.slot.t == z3.StringVal("*"), w.pslot.t == w.slot.t))
    return m


def t_range(ex):
    import pkgcore.pkgsets.glsa as G
    op = OPS[ex.choose(len(OPS))]
    glob = bool(ex.choose(2))
    has_slot = bool(ex.choose(2))
    negate = bool(ex.choose(2))
    P = "C45.generate_restrict_from_range"
    w = World(ex)
    it = Interp(ex, label=P, models=restriction_models(ex, w))
    ver = KStr.fresh("version_text")
    ex.assume(Not(ver.endswith("*")))

    class Text(ModelHost):
        def getattr(self, it_, name):
            if name == "strip":
                return Model(lambda it__: (ver + "*") if glob else ver, "text.strip")
            raise OutOfSubset(name)

    class Attr(ModelHost):
        def __init__(self, v):
            self.v = v

        def getattr(self, it_, name):
            if name == "strip":
                return Model(lambda it__: self.v, "attr.strip")
            raise OutOfSubset(name)

    class Node(ModelHost):
        def getattr(self, it_, name):
            if name == "get":
                # attribute text as the XML layer hands it over; .strip() yields the attribute value proper
                return Model(lambda it__, k, d=None: {"range": op, "slot": (Attr(w.slot) if has_slot else d)}[k], "node.get")
            if name == "text":
                return Text()
            raise OutOfSubset(name)
    base = SObj(type("cpv", (), {}), {"version": KRef("Ver").fresh("base_version"), "revision": w.rb, "fullver": KStr.fresh("base_fullver")})
    it.models[G.cpv.VersionedCPV] = lambda it_, s: base
    me = SObj(G.GlsaDirSet, {})
    ex.inputs.update({"op": op, "glob": glob, "slot": has_slot, "negate": negate, "base_cmp": w.cmpb, "pkg_rev": w.rp, "range_rev": w.rb,
                      "pkg_slot": w.pslot, "range_slot": w.slot})
    out = call(it, it.target(FILE, "GlsaDirSet.generate_restrict_from_range"), me, Node(), negate=negate)
    tag = f"{op}{'_glob' if glob else ''}{'_slot' if has_slot else ''}{'_negated' if negate else ''}"
    if out.raised:
        # refused ranges: a glob with a non-eq operator is not in the format.  'rlt' of revision 0 is in the format: it is a range nothing
        # satisfies, and refusing it would discard the other ranges of its package entry with it
        legit = glob and op != "eq"
        ex.oblige(f"{P}.raises.only_for_ranges_outside_the_format", out.raised_cls(ValueError) and legit, kind="exceptional-postcondition")
        return
    ex.cover("range")
    r = out.value
    ok = isinstance(r, R)
    ex.oblige(f"{P}.ensures.returns_a_restriction", ok)
    if ok:
        spec = range_spec(w, op, glob, has_slot, None)
        want = z3.Not(spec) if negate else spec
        ex.oblige(f"{P}.ensures.matches_exactly_the_range[{'glob' if glob else op}{'+slot' if has_slot else ''}{',unaffected' if negate else ''}]",
                  SBool(r.sem == want))


def t_node(ex):
    """vulnerable / unaffected / arch combination"""
    import pkgcore.pkgsets.glsa as G
    P = "C45.generate_intersects_from_pkg_node"
    w = World(ex)
    nv, nu = ex.choose(3), ex.choose(3)
    arch_kind = ex.choose(3)   # absent, '*', named
    vsem = [z3.Bool(fresh_name(f"in_vulnerable_range{i}")) for i in range(nv)]
    usem = [z3.Bool(fresh_name(f"in_unaffected_range{i}")) for i in range(nu)]
    arch_hit = z3.Bool(fresh_name("pkg_has_a_named_arch"))
    ms = restriction_models(ex, w)
    it = Interp(ex, label=P, models=ms)
    vnodes, unodes = [f"v{i}" for i in range(nv)], [f"u{i}" for i in range(nu)]

    def rng(it_, self_, node, negate=False):
        i = int(node[1:])
        s = (vsem if node[0] == "v" else usem)[i]
        return R(z3.Not(s) if negate else s, f"range {node}{' negated' if negate else ''}")
    from pyvc.api import Contract
    it.contracts[G.GlsaDirSet.generate_restrict_from_range] = Contract("generate_restrict_from_range", rng)
    it.models[G.values.ContainmentMatch] = lambda it_, vals, match_all=False, **k: R(arch_hit, "ContainmentMatch(arches)")

    class PkgNode(ModelHost):
        def getattr(self, it_, name):
            if name == "get":
                return Model(lambda it__, k, d=None: {0: d, 1: " * ", 2: "x86 amd64"}[arch_kind] if k == "arch" else d, "get")
            if name == "findall":
                return Model(lambda it__, k: list(vnodes) if k == "vulnerable" else list(unodes), "findall")
            raise OutOfSubset(name)
    out = call(it, it.target(FILE, "GlsaDirSet.generate_intersects_from_pkg_node"), SObj(G.GlsaDirSet, {}), PkgNode())
    ex.oblige(f"{P}.raises.nothing", not out.raised, kind="exceptional-postcondition")
    if out.raised:
        return
    if nv == 0:
        ex.oblige(f"{P}.ensures.no_vulnerable_range_no_restriction", out.value is None)
        return
    r = out.value
    ok = isinstance(r, R)
    ex.oblige(f"{P}.ensures.returns_a_restriction", ok)
    if ok:
        want = z3.And(z3.Or(*vsem), *[z3.Not(u) for u in usem])
        if arch_kind == 2:
            want = z3.And(want, arch_hit)
        ex.oblige(f"{P}.ensures.vulnerable_and_not_unaffected_and_arch", SBool(r.sem == want))


# -------------------------------------------------------- bounded stand-in ----
def enum_advisories(seed):
    import os, tempfile
    from pkgcore.pkgsets.glsa import GlsaDirSet
    from pkgcore.ebuild.cpv import VersionedCPV, ver_cmp
    from pkgcore.test.misc import FakePkg
    tmpl = """<?xml version="1.0" encoding="UTF-8"?>
<glsa id="{id}"><title>t</title><synopsis>s</synopsis><product type="ebuild">p</product><announced>2020-01-01</announced><revised count="1">2020-01-01</revised>
<bug>1</bug><access>remote</access><affected>
<package name="dev-util/diffball" auto="yes" arch="{arch}">{ranges}</package>
</affected><background><p>b</p></background><description><p>d</p></description><impact type="normal"><p>i</p></impact>
<workaround><p>w</p></workaround><resolution><p>r</p></resolution><references/></glsa>"""
    vers = ["0.9", "1.0", "1.0-r1", "1.0-r2", "1.01", "1.1", "2.0", "1.0_p", "1.0_p0", "1.0_p0-r1", "1.0_p1", "1.0_rc1", "1.0_p1_p2"]
    pkgs = [FakePkg(f"dev-util/diffball-{v}", slot=s, keywords=k) for v in vers for s in ("0", "1") for k in (("x86",), ("amd64",), ("ppc",))]

    from contracts.c01 import pms_cmp
    ver_cmp = lambda v1, r1, v2, r2: pms_cmp(v1, int(str(r1 or 0) or 0), v2, int(str(r2 or 0) or 0))    # the reference compares by the PMS algorithm written out in C01, not with the code under test

    def in_range(op, base, slot, glob, p):
        b = VersionedCPV(f"cat/pkg-{base}")
        c = ver_cmp(p.version, p.revision, b.version, b.revision)
        if glob:
            # component-boundary prefix
            fv, pre = p.fullver, b.fullver
            m = fv == pre or (fv.startswith(pre) and not (fv[len(pre)].isdigit() and pre[-1].isdigit()))
        elif op[0] == "r":
            same = ver_cmp(p.version, None, b.version, None) == 0
            rp, rb = int(str(p.revision or 0) or 0), int(str(b.revision or 0) or 0)
            m = same and {"rlt": rp < rb, "rle": rp <= rb, "rge": rp >= rb, "rgt": rp > rb}[op]
        else:
            m = {"lt": c < 0, "le": c <= 0, "eq": c == 0, "ge": c >= 0, "gt": c > 0}[op]
        return m and (not slot or slot == "*" or p.slot == slot)
    specs = []
    for op in OPS:
        for base in ("1.0", "1.0-r1"):
            for slot in ("", "1"):
                specs.append((op, base, slot, False))
    specs += [(op, base, "", False) for op in ("lt", "le", "ge", "gt", "eq") for base in ("1.0_p0", "1.0_p", "1.0_p1_p1")]   # boundaries that differ from an installed version only by a patch-level suffix
    specs += [("eq", "1.0", "", True), ("eq", "1", "1", True), ("lt", "1.0-r2", "*", False), ("rge", "1.0", "*", False), ("eq", "1.0", "*", True)]
    cases, fails = 0, []
    with tempfile.TemporaryDirectory(dir="/var/tmp") as d:
        n = 0
        for (vop, vbase, vslot, vglob), u in [(v, u) for v in specs for u in ([None] + specs[seed % 5:: 5])]:
            uop, ubase, uslot, uglob = u if u else (None, None, None, None)
            for arch in ("*", "x86 amd64"):
                n += 1
                def tag(kind, op, base, slot, glob):
                    s = f' slot="{slot}"' if slot else ""
                    return f'<{kind} range="{op}"{s}>{base}{"*" if glob else ""}</{kind}>'
                ranges = tag("vulnerable", vop, vbase, vslot, vglob) + (tag("unaffected", uop, ubase, uslot, uglob) if uop else "")
                for f in os.listdir(d):
                    os.unlink(os.path.join(d, f))
                with open(os.path.join(d, f"glsa-200001-{n % 90 + 10:02d}.xml"), "w") as fh:
                    fh.write(tmpl.format(id=f"200001-{n % 90 + 10:02d}", arch=arch, ranges=ranges))
                try:
                    rs = list(GlsaDirSet(d))
                except Exception as e:
                    if len(fails) < 4:
                        fails.append({"model": {"ranges": ranges}, "detail": f"advisory {ranges} could not be read: {e!r}"})
                    continue
                for p in pkgs:
                    cases += 1
                    want = in_range(vop, vbase, vslot, vglob, p) and not (uop and in_range(uop, ubase, uslot, uglob, p)) and \
                        (arch == "*" or bool(set(arch.split()) & set(p.keywords)))
                    got = any(r.match(p) for r in rs)
                    def cont(glob_, base_):
                        b_ = VersionedCPV(f"cat/pkg-{base_}").fullver if glob_ else None
                        return bool(glob_) and p.fullver.startswith(b_) and len(p.fullver) > len(b_) and p.fullver[len(b_)].isdigit() and b_[-1].isdigit()
                    kf = cont(vglob, vbase) or (bool(uop) and cont(uglob, ubase))
                    if got != want and sum(1 for f in fails if f["model"]["glob_prefix_continues_a_number"] == kf) < (2 if kf else 4):
                        fails.append({"model": {"ranges": ranges, "arch": arch, "pkg": p.cpvstr, "slot": p.slot, "keywords": list(p.keywords),
                                                "glob_prefix_continues_a_number": kf},
                                      "detail": f"advisory {ranges} arch={arch!r}: {p.cpvstr}:{p.slot} {list(p.keywords)} flagged={got}, GLSA semantics say {want}"})
    return {"name": "C45.advisories.bounded_enumeration", "bound": "advisories with one vulnerable and zero/one unaffected range (9 operators, revisioned and plain bases, slot, glob, two arch specs) against 42 packages",
            "cases": cases, "failures": fails}


def _in_range(op, base, slot, glob, p):
    from pkgcore.ebuild.cpv import VersionedCPV
    from contracts.c01 import pms_cmp
    ver_cmp = lambda v1, r1, v2, r2: pms_cmp(v1, int(str(r1 or 0) or 0), v2, int(str(r2 or 0) or 0))
    b = VersionedCPV(f"cat/pkg-{base}")
    c = ver_cmp(p.version, p.revision, b.version, b.revision)
    if glob:
        fv, pre = p.fullver, b.fullver
        m = fv == pre or (fv.startswith(pre) and not (fv[len(pre)].isdigit() and pre[-1].isdigit()))
    elif op[0] == "r":
        same = ver_cmp(p.version, None, b.version, None) == 0
        rp, rb = int(str(p.revision or 0) or 0), int(str(b.revision or 0) or 0)
        m = same and {"rlt": rp < rb, "rle": rp <= rb, "rge": rp >= rb, "rgt": rp > rb}[op]
    else:
        m = {"lt": c < 0, "le": c <= 0, "eq": c == 0, "ge": c >= 0, "gt": c > 0}[op]
    return m and (not slot or slot == "*" or p.slot == slot)


def enum_repo_scan(seed):
    """directories of several advisories (several package entries, several ranges each) scanned against a repository with the real
    find_vulnerable_repo_pkgs (plain and grouped) and SecurityUpgrades.__iter__, against the GLSA reading of the statement"""
    import os
    import random
    import tempfile
    from pkgcore.pkgsets import glsa as G
    from pkgcore.repository.util import SimpleTree
    from pkgcore.test.misc import FakePkg
    thorough = os.environ.get("VERIF_TIER") == "thorough"
    rnd = random.Random(seed * 1009 + 45)
    names = ["dev-util/diffball", "dev-util/other"]
    vers = ["0.9", "1.0", "1.0-r1", "1.0-r2", "1.1", "2.0"]
    kws = {"0.9": ("x86",), "1.0": ("amd64",), "1.0-r1": ("x86", "ppc"), "1.0-r2": ("ppc",), "1.1": ("amd64", "x86"), "2.0": ("ppc",)}
    slots = {"0.9": "0", "1.0": "0", "1.0-r1": "1", "1.0-r2": "0", "1.1": "1", "2.0": "1"}

    def klass(cat, pkg, ver):
        return FakePkg(f"{cat}/{pkg}-{ver}", slot=slots[ver], keywords=kws[ver])
    repo = SimpleTree({"dev-util": {"diffball": list(vers), "other": list(vers[1:4]), "third": ["1.0"]}}, pkg_klass=klass)
    pkgs = list(repo)
    plain_ops = [o for o in OPS]
    cases, fails = 0, []

    def rng():
        op = rnd.choice(plain_ops)
        base = rnd.choice(("1.0", "1.0-r1", "1.1"))
        return op, base, rnd.choice(("", "", "1", "*"))
    with tempfile.TemporaryDirectory(dir=os.environ.get("PYVC_SCRATCH", "/var/tmp")) as d:
        for round_ in range(400 if thorough else 120):
            for f in os.listdir(d):
                os.unlink(os.path.join(d, f))
            entries = []  # (name, arch, vulnerable ranges, unaffected ranges)
            for i in range(rnd.choice((1, 2, 3))):
                nodes = []
                picked = rnd.sample(names, rnd.choice((1, 2)))
                if round_ % 2:          # an advisory may carry several entries for one package (per arch, per slot)
                    picked = [picked[0]] + picked
                for name in picked:
                    e = (name, rnd.choice(("*", "x86 amd64", "ppc")), [rng() for _ in range(rnd.choice((1, 2)))], [rng() for _ in range(rnd.choice((0, 0, 1)))])
                    entries.append(e)
                    body = "".join(f'<vulnerable range="{o}"' + (f' slot="{s}"' if s else "") + f">{b}</vulnerable>" for o, b, s in e[2]) + \
                        "".join(f'<unaffected range="{o}"' + (f' slot="{s}"' if s else "") + f">{b}</unaffected>" for o, b, s in e[3])
                    nodes.append(f'<package name="{name}" auto="yes" arch="{e[1]}">{body}</package>')
                with open(os.path.join(d, f"glsa-200001-{i + 10}.xml"), "w") as fh:
                    fh.write('<?xml version="1.0" encoding="UTF-8"?>\n<glsa id="200001-%d"><title>t</title><affected>%s</affected></glsa>' % (i + 10, "".join(nodes)))

            def affected(p):
                return any(p.key == name and any(_in_range(o, b, s, False, p) for o, b, s in vul) and not any(_in_range(o, b, s, False, p) for o, b, s in unaff)
                           and (arch == "*" or bool(set(arch.split()) & set(p.keywords))) for name, arch, vul, unaff in entries)
            want = sorted(p.cpvstr for p in pkgs if affected(p))
            src = G.GlsaDirSet(d)
            model = {"advisories": [[n, a, v, u] for n, a, v, u in entries]}
            for grouped in (False, True):
                cases += 1
                got, keys, empties = set(), [], 0
                for restrict, matches in G.find_vulnerable_repo_pkgs(src, repo, grouped=grouped):
                    ms = list(matches)
                    empties += not ms
                    keys.append(restrict.key)
                    got.update(m.cpvstr for m in ms)
                bad = None
                if sorted(got) != want:
                    bad = f"reports {sorted(got)}, the GLSA reading gives {want}"
                elif empties:
                    bad = "yielded an advisory restriction without any vulnerable package"
                elif grouped and len(keys) != len(set(keys)):
                    bad = f"grouped scan yielded a package name twice: {keys}"
                if bad and len(fails) < 4:
                    fails.append({"model": dict(model, grouped=grouped), "detail": f"find_vulnerable_repo_pkgs(grouped={grouped}) over {model['advisories']}: {bad}"})
            su = object.__new__(G.SecurityUpgrades)
            su.glsa_src, su.vdb, su.arch = src, repo, None
            cases += 1
            ups = list(su)
            vul_keys = {p.key for p in pkgs if affected(p)}
            for p in pkgs:
                g_ = any(r.match(p) for r in ups)
                w_ = p.key in vul_keys and not affected(p)
                if g_ != w_ and len(fails) < 4:
                    fails.append({"model": dict(model, package=p.cpvstr), "detail": f"SecurityUpgrades over {model['advisories']}: {p.cpvstr} is {'offered' if g_ else 'not offered'} as an upgrade; "
                                                                                    f"it is {'affected' if affected(p) else 'not affected'} and its name is {'among' if p.key in vul_keys else 'not among'} the vulnerable ones"})
    return {"name": "C45.repository_scan.bounded_enumeration",
            "bound": f"{400 if thorough else 120} seeded advisory directories (1..3 files x 1..3 package entries, every other directory with two entries of one package in one advisory, x 1..2 vulnerable and 0..1 unaffected ranges over the nine operators, slots, three arch specs) "
                     "scanned against a 10-package repository: find_vulnerable_repo_pkgs plain and grouped, SecurityUpgrades.__iter__", "cases": cases, "failures": fails}


def tasks():
    return [
        Task("C45.generate_restrict_from_range", t_range, [(FILE, "GlsaDirSet.generate_restrict_from_range")], enumerate=enum_advisories),
        Task("C45.generate_intersects_from_pkg_node", t_node, [(FILE, "GlsaDirSet.generate_intersects_from_pkg_node")]),
        Task("C45.repository_scan", None, [(FILE, "find_vulnerable_repo_pkgs"), (FILE, "GlsaDirSet.pkg_grouped_iter"), (FILE, "GlsaDirSet.iter_vulnerabilities"), (FILE, "SecurityUpgrades.__iter__")],
             enumerate=enum_repo_scan),
    ]


REPLAY = {}
WITNESSES = {"glob_prefix_continues_a_number": lambda m: bool(m.get("glob_prefix_continues_a_number"))}
