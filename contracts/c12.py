"""C12 -- incremental token expansion follows left-to-right incremental semantics (DESIGN.md section 4, C12)."""
import itertools
import z3
from pyvc.api import Task, call, Interp, LoopSpec
from pyvc.sym import (KStr, KSet, KSeq, SStr, SSet, SSeq, SBool, SInt, MutSet, And, Or, Not, Implies, concrete_of)
from pyvc import theory, hosts, models

PROPERTY = "C12"
FILE = "src/pkgcore/ebuild/misc.py"
STR = z3.StringSort()
SETSTR = z3.SetSort(STR)

MANIFEST = {
    "text": "Unbounded proof (loop invariant = the left fold of the property's own step function over the first k tokens, "
            "token streams of any length) that incremental_expansion (finalize and non-finalize mode, fresh or given set) and "
            "incremental_expansion_license (@groups present or missing, *, -*, -@group) return exactly the left-to-right "
            "expansion, reject exactly the streams containing a bare '-', '-@' or '@' with ValueError, and raise nothing else "
            "for non-empty tokens.  optimize_incrementals (the condensed form) is a bounded stand-in only: its positives equal "
            "the expansion for every stream of <= 4 tokens (loop unrolled, token text unbounded).",
    "note": "Trusted: the step function transcribed from the property statement (PMS incremental variables); tokens are non-empty "
            "(callers pass str.split() output); license groups are an arbitrary mapping name -> set; pyvc encoder. "
            "collapsed_restrict_to_data.pull_data is not under contract.",
}
ASSUMPTIONS = [
    "tokens are non-empty strings (every caller passes str.split() output)",
    "spec step function for USE-like streams: '-*' clears, '-x' removes x, 'x' adds x and removes '-x'; with finalize=False the negative token itself is kept",
    "spec step function for licenses: '-*' clears, '-@g' removes group g, '-x' removes x, '@g' adds group g (missing group = nothing), '*' adds all licenses, 'x' adds x",
]


def tok_seq(name):
    toks = KSeq(KStr, "list").fresh(name)
    return toks


def nonempty_tokens(toks):
    j = z3.Int("j!ne")
    return SBool(z3.ForAll([j], z3.Implies(z3.And(j >= 0, j < z3.Length(toks.t)), z3.Length(toks.t[j]) > 0)))


def _tail(t):
    """t[1:]"""
    return SStr(t).slice(1, None).t


def _first_is(t, ch):
    """t[0] == ch (tokens are non-empty)"""
    return z3.SubString(t, 0, 1) == z3.StringVal(ch)


def _neg(t):
    return _first_is(t, "-")


def step_use(S, t, finalize):
    """property statement, one token."""
    i = _tail(t)
    cleared = z3.If(i == z3.StringVal("*"), z3.EmptySet(STR), z3.SetDel(S, i))
    negd = cleared if finalize else z3.SetAdd(cleared, t)
    posd = z3.SetAdd(z3.SetDel(S, z3.Concat(z3.StringVal("-"), t)), t)
    return z3.If(_neg(t), negd, posd)


def bad_use(t):
    return t == z3.StringVal("-")


def fold(name, init, toks, step):
    """F(0) = init, F(k+1) = step(F(k), toks[k]) -- uninterpreted with the unfolding supplied per index."""
    F = theory.ufun(name, z3.IntSort(), SETSTR)
    theory._add_axiom((name, "base"), F(0) == init)

    def unfold(k):
        kt = k.t if isinstance(k, SInt) else z3.IntVal(k)
        theory._add_axiom((name, "unfold", z3.simplify(kt).get_id()),
                          z3.Implies(z3.And(kt >= 0, kt < z3.Length(toks.t)), F(kt + 1) == step(F(kt), toks.t[kt])))
        return F
    return F, unfold


def anybad(name, toks, bad):
    """B(k) = some token among the first k is an incomplete negation; B(0) = False,
    B(k+1) = B(k) or bad(toks[k]) (uninterpreted, unfolded per index: quantifier-free)."""
    Bf = theory.ufun(name, z3.IntSort(), z3.BoolSort())
    theory._add_axiom((name, "base"), z3.Not(Bf(0)))

    def unfold(k):
        kt = k.t if isinstance(k, SInt) else z3.IntVal(k)
        theory._add_axiom((name, "unfold", z3.simplify(kt).get_id()),
                          z3.Implies(z3.And(kt >= 0, kt < z3.Length(toks.t)), Bf(kt + 1) == z3.Or(Bf(kt), bad(toks.t[kt]))))
        return Bf
    return Bf, unfold


def assume_nonempty(ex, toks, *unfolds):
    """bounded runs have no loop contract to carry the element precondition and the
    unfoldings of the spec functions: state them per index"""
    if getattr(ex, "mode", None):
        for i in range(ex.mode.get("unroll", 3) + 1):
            ex.assume(SBool(z3.Implies(z3.Length(toks.t) > i, z3.Length(toks.t[i]) > 0)))
            for u in unfolds:
                u(i)


def raised_at_bad_token(it, toks, key, bad):
    """exceptional postcondition: the exception was raised while processing an incomplete token."""
    k = it.loop_k.get(key)
    if k is None:
        j = z3.Int("j!sb")  # bounded/unrolled run: no ghost index
        return SBool(z3.Exists([j], z3.And(j >= 0, j < z3.Length(toks.t), bad(toks.t[j]))))
    return And(k >= 0, SBool(k.t < z3.Length(toks.t)), SBool(bad(toks.t[k.t])))


def t_expansion(ex):
    finalize = ex.choose(2) == 0
    given = ex.choose(2) == 0
    toks = tok_seq("tokens")
    init = KSet(KStr).fresh("orig0") if given else SSet(z3.EmptySet(STR), KSet(KStr))
    orig = MutSet(init) if given else None
    mode = ("finalize" if finalize else "keepneg") + ("_given" if given else "_fresh")
    P = f"C12.incremental_expansion.{mode}"
    F, unfold = fold("F_use_" + mode, init.t, toks, lambda S, t: step_use(S, t, finalize))
    Bf, unfoldB = anybad("B_use_" + mode, toks, bad_use)
    assume_nonempty(ex, toks, unfold, unfoldB)

    def inv(L, k):
        unfold(k)
        unfoldB(k)
        kt = k.t if isinstance(k, SInt) else z3.IntVal(k)
        cur = L.orig.val if isinstance(L.orig, MutSet) else None
        cur_t = z3.EmptySet(STR) if cur is None else cur.t
        return And(SBool(cur_t == F(kt)), SBool(z3.Not(Bf(kt))))

    it = Interp(ex, label=P, loops={("incremental_expansion", 0): LoopSpec(inv, mutates=["orig"], havoc={"orig": KSet(KStr)},
                                                                         elem_assume=lambda t: t.length() > 0)})
    fn = it.target(FILE, "incremental_expansion")
    ex.inputs.update({"tokens": toks, "orig": init, "finalize": finalize})
    out = call(it, fn, toks, orig=orig, finalize=finalize) if given else call(it, fn, toks, finalize=finalize)
    if out.raised:
        ex.oblige(f"{P}.raises.valueerror_only_for_bare_minus", And(out.raised_cls(ValueError), raised_at_bad_token(it, toks, ("incremental_expansion", 0), bad_use)), kind="exceptional-postcondition")
        return
    ex.cover(mode + ".return")
    r = out.value
    n = z3.Length(toks.t)
    ex.oblige(f"{P}.ensures.is_left_fold", isinstance(r, MutSet) and r.val is not None and SBool(r.val.t == F(n)))
    ex.oblige(f"{P}.ensures.bare_minus_rejected", SBool(z3.Not(Bf(n))))
    if given:
        ex.oblige(f"{P}.ensures.returns_the_given_set", r is orig)


def step_lic(S, t, licenses, G):
    i = _tail(t)
    neg = z3.If(i == z3.StringVal("*"), z3.EmptySet(STR),
                z3.If(_first_is(i, "@"), z3.SetDifference(S, G(_tail(i))), z3.SetDel(S, i)))
    pos = z3.If(_first_is(t, "@"), z3.SetUnion(S, G(_tail(t))),
                z3.If(t == z3.StringVal("*"), z3.SetUnion(S, licenses), z3.SetAdd(S, t)))
    return z3.If(_neg(t), neg, pos)


def bad_lic(t):
    return z3.Or(t == z3.StringVal("-"), t == z3.StringVal("-@"), t == z3.StringVal("@"))


def t_license(ex):
    toks = tok_seq("tokens")
    licenses = KSet(KStr).fresh("licenses")
    groups = hosts.MapHost("license_groups", KStr, KSet(KStr))
    G = lambda g: z3.If(groups.has_f(g), groups.val_f(g), z3.EmptySet(STR))
    P = "C12.incremental_expansion_license"
    F, unfold = fold("F_lic", z3.EmptySet(STR), toks, lambda S, t: step_lic(S, t, licenses.t, G))

    Bf, unfoldB = anybad("B_lic", toks, bad_lic)
    assume_nonempty(ex, toks, unfold, unfoldB)

    def inv(L, k):
        unfold(k)
        unfoldB(k)
        kt = k.t if isinstance(k, SInt) else z3.IntVal(k)
        cur = L.seen.val
        cur_t = z3.EmptySet(STR) if cur is None else cur.t
        return And(SBool(cur_t == F(kt)), SBool(z3.Not(Bf(kt))))

    it = Interp(ex, label=P, loops={("incremental_expansion_license", 0): LoopSpec(inv, mutates=["seen"], havoc={"seen": KSet(KStr)},
                                                                                 elem_assume=lambda t: t.length() > 0)})
    fn = it.target(FILE, "incremental_expansion_license")
    ex.inputs.update({"tokens": toks, "licenses": licenses,
                      "groups": {"has": [groups.has(SStr(_tail(toks.t[i]))) for i in range(3)] if getattr(ex, "mode", None) else []}})
    ex.groups_host = groups
    out = call(it, fn, "cat/pkg-1", MutSet(licenses, frozen=True), groups, toks)
    if out.raised:
        ex.oblige(f"{P}.raises.valueerror_only_for_incomplete_tokens", And(out.raised_cls(ValueError), raised_at_bad_token(it, toks, ("incremental_expansion_license", 0), bad_lic)), kind="exceptional-postcondition")
        return
    ex.cover("license.return")
    r = out.value
    rt = z3.EmptySet(STR) if (isinstance(r, MutSet) and r.val is None) else (r.val.t if isinstance(r, MutSet) else None)
    ex.oblige(f"{P}.ensures.is_left_fold", rt is not None and SBool(rt == F(z3.Length(toks.t))))
    ex.oblige(f"{P}.ensures.incomplete_tokens_rejected", SBool(z3.Not(Bf(z3.Length(toks.t)))))


# ---- bounded stand-in: optimize_incrementals ----------------------------------------------
def t_optimize(ex):
    """positives of the condensed stream == expansion of the stream, streams of <= 4 tokens."""
    K = 4
    n = ex.choose(K + 1)
    toks = [KStr.fresh(f"t{i}") for i in range(n)]
    for t in toks:
        ex.assume(t.length() > 0)
    P = "C12.optimize_incrementals"
    it = Interp(ex, label=P)
    fn = it.target(FILE, "optimize_incrementals")
    ex.inputs.update({"tokens": list(toks)})
    out = call(it, fn, list(toks))
    anybad = Or(*[t == "-" for t in toks]) if toks else False
    if out.raised:
        ex.oblige(f"{P}.raises.valueerror_only_for_bare_minus", And(out.raised_cls(ValueError), anybad), kind="exceptional-postcondition")
        return
    # an incomplete negation is rejected wherever it stands (the expansion of the same stream rejects it)
    ex.oblige(f"{P}.ensures.a_bare_minus_anywhere_is_rejected", Not(anybad) if toks else True)
    ex.cover(f"optimize.len{n}")
    items = models.iter_concrete(it, out.value)
    S = z3.EmptySet(STR)
    for t in toks:
        S = step_use(S, t.t, True)
    pos = z3.EmptySet(STR)
    for x in items:
        xt = x.t if isinstance(x, SStr) else z3.StringVal(x)
        pos = z3.If(_neg(xt), pos, z3.SetAdd(pos, xt))
    ex.oblige(f"{P}.ensures.positives_equal_expansion", SBool(pos == S))


def _ref_lic(tokens, licenses, groups):
    s = set()
    for t in tokens:
        if t in ("-", "-@", "@"):
            raise ValueError
        if t[0] == "-":
            i = t[1:]
            if i == "*":
                s.clear()
            elif i[0] == "@":
                s -= set(groups.get(i[1:], ()))
            else:
                s.discard(i)
        elif t[0] == "@":
            s |= set(groups.get(t[1:], ()))
        elif t == "*":
            s |= set(licenses)
        else:
            s.add(t)
    return s


def _run(f, *a, **k):
    try:
        return f(*a, **k)
    except ValueError:
        return "ValueError"


def enum_license(seed):
    """every stream of <= 4 tokens over a 13-token alphabet, two overlapping groups and a missing one"""
    import itertools
    from pkgcore.ebuild.misc import incremental_expansion_license
    alpha = ["a", "b", "c", "-a", "-b", "-*", "*", "@g", "@h", "@missing", "-@g", "-@h", "-", "@", "-@"]
    groups = {"g": ("a", "b"), "h": ("b", "c")}
    lic = frozenset({"a", "b", "c", "d"})
    cases, fails = 0, []
    for n in range(0, 5 if seed != -1 else 4):
        for toks in itertools.product(alpha, repeat=n):
            if n == 4 and not any(t.startswith("@") for t in toks):
                continue
            cases += 1
            want = _run(_ref_lic, toks, lic, groups)
            got = _run(incremental_expansion_license, "cat/pkg-1", lic, groups, toks)
            if got != want and len(fails) < 3:
                fails.append({"model": {"tokens": list(toks), "groups": groups, "licenses": sorted(lic)},
                              "detail": f"incremental_expansion_license(tokens={list(toks)}, groups={groups}) = {got}; left-to-right semantics give {want}"})
    return {"name": "C12.incremental_expansion_license.bounded_enumeration", "bound": "all streams of <=4 tokens over a 15-token alphabet (groups g={a,b}, h={b,c}, one missing group)", "cases": cases, "failures": fails}


def enum_expansion(seed):
    import itertools
    from pkgcore.ebuild.misc import incremental_expansion
    alpha = ["a", "b", "-a", "-b", "-*", "-", "--a"]
    cases, fails = 0, []
    for fin in (True, False):
        for orig in (set(), {"a", "-b"}):
            for n in range(0, 5):
                for toks in itertools.product(alpha, repeat=n):
                    cases += 1
                    want = _run(_ref_use, toks, orig, fin)
                    got = _run(incremental_expansion, toks, orig=set(orig), finalize=fin)
                    if got != want and len(fails) < 3:
                        fails.append({"model": {"tokens": list(toks), "orig": sorted(orig), "finalize": fin},
                                      "detail": f"incremental_expansion({list(toks)}, orig={sorted(orig)}, finalize={fin}) = {got}; left-to-right semantics give {want}"})
    return {"name": "C12.incremental_expansion.bounded_enumeration", "bound": "all streams of <=4 tokens over a 7-token alphabet, 2 initial sets, both finalize modes", "cases": cases, "failures": fails}


def enum_collapsed(seed):
    """collapsed_restrict_to_data (what package.keywords / package.license / package.accept_keywords entries are kept in): pull_data for a
    package against expanding, left to right, the defaults followed by the tokens of every entry that matches it -- tokens may recur"""
    import random
    from pkgcore.ebuild.misc import collapsed_restrict_to_data, incremental_expansion
    from pkgcore.ebuild.atom import atom
    from pkgcore.restrictions import packages
    from pkgcore.test.misc import FakePkg
    rnd = random.Random(seed + 1212)
    pkg = FakePkg("cat/pkg-1.0")
    toks = ["a", "-a", "b", "-b", "-*", "~amd64", "-~amd64"]
    lines = [list(t) for n in (1, 2, 3) for t in itertools.product(toks, repeat=n) if n < 3 or t[0].lstrip("-") == t[2].lstrip("-")]
    atoms = [atom("cat/pkg"), atom("=cat/pkg-1*"), atom("=cat/pkg-1.0"), atom("cat/other")]
    cases, fails = 0, []
    for _ in range(6000):
        defaults = rnd.choice(lines + [[]])
        ents = [(rnd.choice(atoms), rnd.choice(lines)) for _ in range(rnd.choice((1, 2, 3)))]
        cases += 1
        stream = list(defaults) + [t for a, l in ents if a.match(pkg) for t in l]
        want = set(incremental_expansion(stream))
        try:
            d = collapsed_restrict_to_data(((packages.AlwaysTrue, defaults),), ents)
            got = set(d.pull_data(pkg))
            got2 = set()
            incremental_expansion(list(d.iter_pull_data(pkg)), orig=got2)   # iter_pull_data yields the token stream itself
        except Exception as e:
            if len(fails) < 4:
                fails.append({"model": {"defaults": defaults, "entries": [(str(a), l) for a, l in ents]}, "detail": f"defaults {defaults}, entries {[(str(a), l) for a, l in ents]}: raised {type(e).__name__}: {e}"})
            continue
        if (got != want or got2 != want) and len(fails) < 4:
            fails.append({"model": {"defaults": defaults, "entries": [(str(a), l) for a, l in ents]},
                          "detail": f"defaults {defaults}, entries {[(str(a), l) for a, l in ents]} for cat/pkg-1.0: pull_data gives {sorted(got)}, iter_pull_data expands to {sorted(got2)}; "
                                    f"the stream {stream} expands left to right to {sorted(want)}"})
    return {"name": "C12.collapsed_restrict_to_data.bounded_enumeration", "bound": "6000 seeded configurations: defaults and 1..3 entries (4 atoms, 3 of them matching the package) of 1..3 tokens out of "
            f"{toks}, the same token recurring with its negation in between", "cases": cases, "failures": fails}


def tasks():
    fns = [(FILE, "incremental_expansion")]
    return [
        Task("C12.incremental_expansion", t_expansion, fns, enumerate=enum_expansion),
        Task("C12.incremental_expansion_license", t_license, [(FILE, "incremental_expansion_license")], enumerate=enum_license),
        Task("C12.optimize_incrementals", t_optimize, [(FILE, "optimize_incrementals")], bounded={"tokens": 4}),
        Task("C12.collapsed_restrict_to_data", None, [(FILE, "collapsed_restrict_to_data.pull_data"), (FILE, "collapsed_restrict_to_data.iter_pull_data"), (FILE, "collapsed_restrict_to_data.__init__")],
             enumerate=enum_collapsed),
    ]


# ---------------------------------------------------------------- replay ----
def _ref_use(tokens, orig, finalize):
    s = set(orig)
    for t in tokens:
        if t[0] == "-":
            if t == "-":
                raise ValueError
            if t[1:] == "*":
                s.clear()
            else:
                s.discard(t[1:])
            if not finalize:
                s.add(t)
        else:
            s.discard("-" + t)
            s.add(t)
    return s


def replay_expansion(model):
    from pkgcore.ebuild.misc import incremental_expansion
    toks = list(model["tokens"])
    orig = set(x for x in model["orig"]["__set__"] if not str(x).startswith("<")) if isinstance(model["orig"], dict) else set()
    try:
        want = _ref_use(toks, orig, model["finalize"])
    except ValueError:
        want = "ValueError"
    try:
        got = incremental_expansion(toks, orig=set(orig), finalize=model["finalize"])
    except ValueError:
        got = "ValueError"
    return got != want, f"incremental_expansion({toks}, orig={sorted(orig)}, finalize={model['finalize']}) = {got}, left-to-right semantics give {want}"


def replay_optimize(model):
    from pkgcore.ebuild.misc import optimize_incrementals
    toks = list(model["tokens"])
    try:
        want = _ref_use(toks, set(), True)
    except ValueError:
        want = "ValueError"
    try:
        got = {x for x in optimize_incrementals(toks) if x[0] != "-"}
    except ValueError:
        got = "ValueError"
    return got != want, f"positives of optimize_incrementals({toks}) = {got}; expansion of the same stream = {want}"


REPLAY = {"C12.incremental_expansion.": replay_expansion, "C12.optimize_incrementals": replay_optimize}
