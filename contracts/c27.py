"""C27 -- metadata cache entries round-trip and are replaced atomically (DESIGN.md section 4, C27)."""
import errno
import os
import types
import z3
from pyvc.api import Task, call, Interp
from pyvc.interp import PyRaise
from pyvc.models import Model, ModelHost
from pyvc.sym import KStr, SBool, SStr, SObj, And, Or, Not, OutOfSubset

PROPERTY = "C27"
FH = "src/pkgcore/cache/flat_hash.py"
CB = "src/pkgcore/cache/__init__.py"

MANIFEST = {
    "text": "Effect-trace contract on flat_hash.database._setitem over a ghost operating system, for entries at any cache depth, arbitrary "
            "single-line values and every failure outcome of open / mkdir / chown / rename: every byte is written to "
            "dir/.update.<pid>.<name>, the handle is closed and access rights fixed before the one rename onto the entry's path, "
            "nothing else names the entry's path (so a reader sees the previous complete entry or the new one at every stop), and a "
            "failed rename removes the temporary file and raises CacheCorruption.  Proof that the line writer and _parse_data are "
            "inverse on known keys for arbitrary values without a newline, with '=' allowed inside values.  keys() on explicit "
            "directory trees never reports a pending .update.* file or a .cpickle file and reports every other entry once (bounded "
            "scenarios).  deconstruct_eclasses / reconstruct_eclasses and whole store / read / list cycles with a stop at every file "
            "operation are enumerated natively for the flat and md5-cache layouts.",
    "note": "Trusted: os.rename is atomic; open(path, 'w') + writelines + close leave exactly the written lines in path; "
            "readlines_utf8; snakeoil ensure_dirs; pyvc encoder.",
}
ASSUMPTIONS = ["metadata values hold no newline (the cache format is line based)", "os.rename replaces its destination atomically"]


class GhostFile(ModelHost):
    def __init__(self, tr, path):
        self.tr, self.path, self.closed = tr, path, False

    def enter(self, it):
        return self

    def exit(self, it, *exc):
        self.closed = True
        self.tr.append(("close", self.path))
        return False

    def getattr(self, it, name):
        if name == "writelines":
            def w(it_, data):
                from pyvc import models
                lines = [data] if isinstance(data, (str, SStr)) else models.iter_concrete(it_, data)
                for l in lines:
                    self.tr.append(("write", self.path, l, "closed" if self.closed else "open"))
            return Model(w, "file.writelines")
        if name == "close":
            def c(it_):
                self.closed = True
                self.tr.append(("close", self.path))
            return Model(c, "file.close")
        if name in ("__enter__",):
            return Model(lambda it_: self, "file.__enter__")
        if name in ("__exit__",):
            def x(it_, *a):
                self.closed = True
                self.tr.append(("close", self.path))
                return False
            return Model(x, "file.__exit__")
        raise OutOfSubset(f"file.{name}")


def t_setitem(ex):
    import builtins
    import pkgcore.cache.flat_hash as F
    cpv = ("dev-util/foo-1", "foo-1", "a/b/c-2")[ex.choose(3)]
    scen = ("ok", "no_dir", "no_dir_mkdir_fails", "open_eacces", "reopen_fails", "rename_fails", "access_fails")[ex.choose(7)]
    mtime_in_entry = bool(ex.choose(2))
    P = f"C27.flat_hash._setitem[{cpv}, {scen}, {'mtime in entry' if mtime_in_entry else 'mtime on file'}]"
    it = Interp(ex, label=P)
    tr = []
    loc = "/cache"
    d, n = os.path.split(cpv)
    tmp = os.path.join(loc, d, f".update.4242.{n}") if d else os.path.join(loc, f".update.4242.{n}")
    final = os.path.join(loc, cpv)
    opens = {"n": 0}

    def m_open(it_, path, mode="r", *a):
        opens["n"] += 1
        if scen in ("no_dir", "no_dir_mkdir_fails", "reopen_fails") and opens["n"] == 1:
            raise PyRaise(FileNotFoundError(errno.ENOENT, "no dir"))
        if scen == "open_eacces" or (scen == "reopen_fails" and opens["n"] == 2):
            raise PyRaise(PermissionError(errno.EACCES, "denied"))
        tr.append(("open", path, mode))
        return GhostFile(tr, path)
    it.models[builtins.open] = m_open
    it.models[os.getpid] = lambda it_: 4242

    def m_rename(it_, a, b):
        if scen == "rename_fails":
            raise PyRaise(OSError(errno.EXDEV, "cross-device"))
        tr.append(("rename", a, b))
    it.models[os.rename] = m_rename
    it.models[os.remove] = lambda it_, p: tr.append(("remove", p))
    v1, v2 = KStr.fresh("value_DEPEND"), KStr.fresh("value_SLOT")
    values = {"DEPEND": v1, "SLOT": v2, "_mtime_": 1234}
    me = SObj(F.database, {"location": loc, "_mtime_used": True, "mtime_in_entry": mtime_in_entry})
    it.models[F.database._ensure_dirs] = lambda it_, self_, path=None: (tr.append(("ensure_dirs", path)), scen != "no_dir_mkdir_fails")[1]
    it.models[F.database._ensure_access] = lambda it_, self_, path, mtime=None: (tr.append(("ensure_access", path, mtime)), scen != "access_fails")[1]
    out = call(it, it.target(FH, "database._setitem"), me, cpv, values)
    from pkgcore.cache import errors
    shape = [(e[0], e[1]) for e in tr]
    ex.oblige(f"{P}.invariant.the_entry_path_is_named_by_nothing_but_the_final_rename", all(e[1] != final and (e[0] != "rename" or e[2] == final) for e in tr) and
              [i for i, e in enumerate(tr) if e[0] == "rename"] in ([], [len(tr) - 1]), kind="invariant")
    ex.oblige(f"{P}.frame.only_the_temporary_name_and_the_entry", all(e[1] in (tmp, cpv) or e[0] == "ensure_dirs" for e in tr) and all(e[0] != "rename" or e[1] == tmp for e in tr))
    if scen in ("no_dir_mkdir_fails", "open_eacces", "reopen_fails"):
        ex.oblige(f"{P}.raises.CacheCorruption_and_nothing_written", out.raised_cls(errors.CacheCorruption) and not any(e[0] in ("write", "rename") for e in tr), kind="exceptional-postcondition")
        return
    if scen == "rename_fails":
        ex.oblige(f"{P}.raises.CacheCorruption_after_removing_the_temporary_file", out.raised_cls(errors.CacheCorruption) and tr and tr[-1] == ("remove", tmp), kind="exceptional-postcondition")
        return
    ex.oblige(f"{P}.raises.nothing", not out.raised, kind="exceptional-postcondition")
    if out.raised:
        return
    writes = [e for e in tr if e[0] == "write"]
    ex.oblige(f"{P}.ensures.every_line_goes_to_the_open_temporary_file", all(e[1] == tmp and e[3] == "open" for e in writes) and len(writes) == 3)
    kinds = [e[0] for e in tr if e[0] in ("close", "ensure_access", "rename")]
    ex.oblige(f"{P}.ensures.closed_then_access_fixed_then_renamed", kinds == ["close", "ensure_access", "rename"] and tr[-1] == ("rename", tmp, final))
    acc = [e for e in tr if e[0] == "ensure_access"]
    ex.oblige(f"{P}.ensures.file_mtime_is_the_entrys_when_not_kept_in_the_entry", len(acc) == 1 and acc[0][1] == tmp and acc[0][2] == (None if mtime_in_entry else 1234))
    # content: one key=value line per key, sorted
    want = [("DEPEND", v1), ("SLOT", v2), ("_mtime_", 1234)]
    ok = len(writes) == 3
    conds = []
    for (k, v), w in zip(want, writes):
        line = w[2]
        exp = SStr(z3.Concat(z3.StringVal(k + "="), v.t, z3.StringVal("\n"))) if isinstance(v, SStr) else f"{k}={v}\n"
        conds.append(line == exp if isinstance(line, SStr) or isinstance(exp, SStr) else line == exp)
    ex.oblige(f"{P}.ensures.one_key_value_line_per_key_in_sorted_order", And(ok, *conds))


def t_base_setitem(ex):
    """cache.base.__setitem__: what reaches the layout's _setitem is the caller's entry with the eclass map serialised whenever the entry carries one
    (empty or not), the validation stamp moved from _chf_ to the cache's own key through the cache's serialiser, every other key as given; the
    caller's dict is not modified; a read-only cache raises ReadOnly and stores nothing; __getitem__ hands a stored _eclasses_ line to
    reconstruct_eclasses and returns every other key as stored"""
    import pkgcore.cache as C
    from pkgcore.cache import errors
    from snakeoil.mappings import ProtectedDict
    from pyvc.sym import KRef
    has_ecl = bool(ex.choose(2))
    readonly = bool(ex.choose(2))
    P = f"C27.base.__setitem__[{'eclass map' if has_ecl else 'no eclass map'}{', read-only' if readonly else ''}]"
    it = Interp(ex, label=P)
    Obj = KRef("Value")
    dep, slot, ecl, chf = KStr.fresh("DEPEND"), KStr.fresh("SLOT"), Obj.fresh("eclass_map"), Obj.fresh("chf")
    ser_ecl, ser_chf = KStr.fresh("serialised_eclass_map"), KStr.fresh("serialised_chf")
    values = {"DEPEND": dep, "SLOT": slot, "_chf_": chf}
    if has_ecl:
        values["_eclasses_"] = ecl
    given = dict(values)
    handed = []
    calls = []

    def m_deconstruct(it_, self_, m):
        calls.append(("deconstruct", m))
        return ser_ecl

    def m_chf(it_, v):
        calls.append(("chf", v))
        return ser_chf
    it.models[C.base.deconstruct_eclasses] = m_deconstruct
    def m_setitem(it_, self_, cpv, d):
        from pyvc import models
        ks = list(models.iter_concrete(it_, it_.call(models.getattr_(it_, d, "keys"), ())))
        handed.append((cpv, {k: models.getitem(it_, d, k) for k in ks}))
    it.models[C.base._setitem] = m_setitem
    it.models[C.base._sync_if_needed] = lambda it_, self_, increment=False: None
    # the eclass map may be empty (an ebuild inheriting nothing stored with the key present): its truth value is arbitrary
    from pyvc.sym import KBool
    nonempty = KBool.fresh("eclass_map_is_non_empty")
    it.ref_truth = lambda it_, v: nonempty.t if v is ecl else True
    me = SObj(C.base, {"readonly": readonly, "cleanse_keys": False, "_chf_key": "_mtime_", "_chf_serializer": Model(m_chf, "chf serializer")})
    out = call(it, it.target(CB, "base.__setitem__"), me, "dev-util/foo-1", values)
    ex.oblige(f"{P}.frame.callers_entry_not_modified", values == given and list(values) == list(given))
    if readonly:
        ex.oblige(f"{P}.raises.ReadOnly_and_stores_nothing", out.raised_cls(errors.ReadOnly) and not handed, kind="exceptional-postcondition")
        return
    ex.oblige(f"{P}.raises.nothing", not out.raised, kind="exceptional-postcondition")
    if out.raised:
        return
    ex.oblige(f"{P}.ensures.stored_once_under_the_given_key", len(handed) == 1 and handed[0][0] == "dev-util/foo-1")
    if len(handed) != 1:
        return
    d = handed[0][1]
    want = {"DEPEND": dep, "SLOT": slot, "_mtime_": ser_chf}
    if has_ecl:
        want["_eclasses_"] = ser_ecl
    ex.oblige(f"{P}.ensures.keys_are_the_entrys_with_the_stamp_renamed", set(d) == set(want))
    for k, v in want.items():
        ex.oblige(f"{P}.ensures.{k}_as_expected", k in d and d[k] is v)
    ex.oblige(f"{P}.ensures.serialisers_got_the_callers_values", ("chf", chf) in calls and (("deconstruct", ecl) in calls) == has_ecl)


def t_base_getitem(ex):
    import pkgcore.cache as C
    has_ecl = bool(ex.choose(2))
    P = f"C27.base.__getitem__[{'eclass line' if has_ecl else 'no eclass line'}]"
    it = Interp(ex, label=P)
    dep, line = KStr.fresh("DEPEND"), KStr.fresh("eclass_line")
    from pyvc.sym import KRef
    rebuilt = KRef("Value").fresh("rebuilt_eclass_map")
    stored = {"DEPEND": dep, "_mtime_": 77}
    if has_ecl:
        stored["_eclasses_"] = line
    calls = []
    it.models[C.base._getitem] = lambda it_, self_, cpv: dict(stored)
    it.models[C.base._sync_if_needed] = lambda it_, self_, increment=False: None
    it.models[C.base.reconstruct_eclasses] = lambda it_, self_, cpv, text: (calls.append(text), rebuilt)[1]
    out = call(it, it.target(CB, "base.__getitem__"), SObj(C.base, {}), "dev-util/foo-1")
    ex.oblige(f"{P}.raises.nothing", not out.raised, kind="exceptional-postcondition")
    if out.raised:
        return
    d = out.value
    ex.oblige(f"{P}.ensures.same_keys", isinstance(d, dict) and set(d) == set(stored))
    if isinstance(d, dict):
        ex.oblige(f"{P}.ensures.other_keys_as_stored", all(d.get(k) is v for k, v in stored.items() if k != "_eclasses_"))
        if has_ecl:
            ex.oblige(f"{P}.ensures.eclass_line_goes_through_reconstruct_eclasses", calls == [line] and d.get("_eclasses_") is rebuilt)


def t_line_roundtrip(ex):
    import pkgcore.cache.flat_hash as F
    P = "C27.flat_hash._parse_data"
    it = Interp(ex, label=P)
    v1, v2 = KStr.fresh("value_DEPEND"), KStr.fresh("value_SLOT")
    for v in (v1, v2):
        ex.assume(Not(v.contains("\n")))
    # lines as the file iteration hands them over: as the `k=v\\n` writer wrote them, line end included (whatever goes, the parser removes)
    it.sepfree = {"\n": [v1.t, v2.t]}
    lines = [SStr(z3.Concat(z3.StringVal("DEPEND="), v1.t, z3.StringVal("\n"))), "UNKNOWN_KEY=zzz\n", SStr(z3.Concat(z3.StringVal("SLOT="), v2.t, z3.StringVal("\n"))), "_mtime_=1234\n"]
    me = SObj(F.database, {"_known_keys": frozenset(("DEPEND", "SLOT", "_mtime_")), "_cdict_kls": dict, "_mtime_used": True, "mtime_in_entry": True, "_chf_key": "_mtime_", "_chf_deserializer": int})
    out = call(it, it.target(FH, "database._parse_data"), me, lines, 99)
    ex.oblige(f"{P}.raises.nothing", not out.raised, kind="exceptional-postcondition")
    if out.raised:
        return
    d = out.value
    ex.oblige(f"{P}.ensures.known_keys_come_back_with_their_values_even_with_equals_signs_inside", isinstance(d, dict) and set(d) == {"DEPEND", "SLOT", "_mtime_"} and And(d["DEPEND"] == v1, d["SLOT"] == v2, d["_mtime_"] == 1234))


TREES = [
    {"": ["dev-util", "metadata.cpickle"], "dev-util": ["foo-1", ".update.77.foo-2", "bar-1"]},
    {"": ["foo-1", ".update.1.foo-1"]},
    {"": ["a"], "a": ["b"], "a/b": ["c-1", ".update.9.c-1", "x.cpickle"]},
    {"": []},
]


def t_keys(ex):
    import pkgcore.cache.flat_hash as F
    import stat as S
    tree = TREES[ex.choose(len(TREES))]
    P = f"C27.flat_hash.keys[{tree}]"
    it = Interp(ex, label=P)
    loc = "/cache"

    def m_listdir(it_, d):
        rel = d[len(loc):].strip("/")
        if rel not in tree:
            raise PyRaise(FileNotFoundError(errno.ENOENT, d))
        return list(tree[rel])

    def m_lstat(it_, p):
        rel = p[len(loc):].strip("/")
        return types.SimpleNamespace(st_mode=(S.S_IFDIR if rel in tree else S.S_IFREG) | 0o644)
    it.models[os.listdir] = m_listdir
    it.models[os.lstat] = m_lstat
    out = call(it, it.target(FH, "database.keys"), SObj(F.database, {"location": loc}))
    ex.oblige(f"{P}.raises.nothing", not out.raised, kind="exceptional-postcondition")
    if out.raised:
        return
    from pyvc import models
    got = sorted(models.iter_concrete(it, out.value))
    want = sorted(os.path.join(d, n) if d else n for d, names in tree.items() for n in names
                  if (os.path.join(d, n) if d else n) not in tree and not n.endswith(".cpickle") and not n.startswith(".update."))
    ex.oblige(f"{P}.ensures.lists_every_entry_once_and_no_pending_update_or_pickle", got == want, note=f"listed {got}, wanted {want}")


# ------------------------------------------------------------------ bounded stand-in: real caches in a scratch directory ----
class _Stop(BaseException):
    pass


def enum_caches(seed):
    import random
    import shutil
    import tempfile
    from pkgcore.cache import flat_hash
    import pkgcore.cache.flat_hash as F
    import pkgcore.cache.fs_template as FT
    scratch = tempfile.mkdtemp(prefix="c27.", dir=os.environ.get("PYVC_SCRATCH", "/var/tmp"))
    fails, cases = [], 0
    keys = ("DEPEND", "RDEPEND", "SLOT", "DESCRIPTION", "INHERIT", "_eclasses_")
    try:
        for s in range(30):
            rnd = random.Random(seed * 1000 + s)
            md5 = s % 2 == 1
            loc = os.path.join(scratch, f"c{s}")
            os.makedirs(loc)
            mk = (lambda: flat_hash.md5_cache(loc, auxdbkeys=keys, readonly=False)) if md5 else (lambda: flat_hash.database(loc, auxdbkeys=keys, readonly=False))
            cache = mk()

            def entry(tag):
                """-> (values to store, what a reader must get back)"""
                base = {"DEPEND": rnd.choice(("", "dev-libs/a", ">=dev-libs/b-1[x=]")), "SLOT": rnd.choice(("0", "1/2")), "DESCRIPTION": f"{tag} a=b = c" + rnd.choice(("", "", " ", "\t", " .")), "INHERIT": "e1 e2"}   # a value may end in a blank or a tab
                # a single-line value may hold any of the characters at which only str.splitlines() -- not a text file's line iteration -- ends a line,
                # with and without an '=' behind it; whatever the seed, every cache takes two of them in turn
                seps = ("\x0b", "\x0c", "\x1c", "\x1d", "\x1e", "\x85", "\u2028", "\u2029")
                sp = seps[(2 * s + (tag == "second")) % len(seps)]
                base["DESCRIPTION"] = f"{tag} text{sp}tail" + ("=x" if s % 3 == 0 else "") + base["DESCRIPTION"][len(tag):]
                store, back = dict(base), {k: v for k, v in base.items() if v != ""}
                NS = types.SimpleNamespace
                if md5:
                    m1, m2, m3 = (rnd.getrandbits(128) for _ in range(3))
                    store["_eclasses_"] = {"e1": NS(md5=m1), "e2": NS(md5=m2)}
                    store["_chf_"] = NS(md5=m3)
                    back["_eclasses_"] = {"e1": (("md5", m1),), "e2": (("md5", m2),)}
                    back["_chf_"] = m3
                else:
                    t1, t3 = 1000 + rnd.randrange(99), 5000 + rnd.randrange(99)
                    # a file's mtime as stat gives it has a fraction; an entry records the whole second it falls in (what a reader compares a
                    # file's int(mtime) with), never a later one
                    f1, f3 = ((.75, .5) if s % 4 == 0 else (0, 0)) if tag == "first" else ((.5, .999) if s % 4 == 0 else (0, 0))
                    store["_eclasses_"] = {"e1": NS(path="/repo/eclass/e1.eclass", mtime=t1 + f1), "e2": NS(path="/other dir/eclass/e2.eclass", mtime=77)}
                    store["_chf_"] = NS(mtime=t3 + f3 + (1 if f3 == .5 and t3 % 2 == 0 else 0))
                    t3 = int(store["_chf_"].mtime)
                    back["_eclasses_"] = {"e1": (("eclassdir", "/repo/eclass"), ("mtime", t1)), "e2": (("eclassdir", "/other dir/eclass"), ("mtime", 77))}
                    back["_chf_"] = t3
                # the size of the eclass map varies: both, one, none (an empty map), or no _eclasses_ key at all
                shape = (s // 2 + (tag == "second")) % 4
                if shape in (1, 2):
                    for d_ in (store, back):
                        d_["_eclasses_"] = dict(list(d_["_eclasses_"].items())[:2 - shape])
                elif shape == 3:
                    del store["_eclasses_"]
                    back["_eclasses_"] = {}
                if shape:
                    store["INHERIT"] = back["INHERIT"] = " ".join(back["_eclasses_"])
                    if not back["INHERIT"]:
                        del back["INHERIT"]
                return store, back
            cpv = rnd.choice(("dev-util/foo-1", "cat/pkg-2.0-r1"))
            store1, first = entry("first")
            try:
                cache[cpv] = dict(store1)
                cache[cpv]
            except Exception as e:
                cases += 1
                if len(fails) < 4:
                    fails.append({"model": {"layout": "md5" if md5 else "flat", "entry": str(first)}, "detail": f"storing {first} and reading it back raised {type(e).__name__}: {e}"})
                continue

            def same(got, exp):
                g = {k: v for k, v in dict(got).items() if v != ""}
                chf = g.pop("_md5_" if md5 else "_mtime_", None)
                ecl = dict(g.pop("_eclasses_", ()))
                e = dict(exp)
                return chf == e.pop("_chf_") and ecl == {k: tuple(v) for k, v in e.pop("_eclasses_").items()} and g == e
            cases += 1
            got = cache[cpv]
            if not same(got, first) and len(fails) < 4:
                fails.append({"model": {"layout": "md5" if md5 else "flat", "entry": str(first)}, "detail": f"stored {first}, read back {dict(got)}"})
            # replace with a stop before every file operation of the store
            stop = 1
            while True:
                store2, second = entry("second")
                counter = {"n": 0}
                real_os, real_open = F.os, open

                class OsProxy:
                    def __getattr__(self, name):
                        real = getattr(real_os, name)
                        if name not in ("rename", "remove", "chown", "chmod", "utime"):
                            return real

                        def f(*a, **k):
                            if counter.get("dead"):
                                raise _Stop()       # a dead process performs no further file operation
                            counter["n"] += 1
                            if counter["n"] == stop:
                                counter["dead"] = True
                                raise _Stop()
                            return real(*a, **k)
                        return f

                def open_proxy(*a, **k):
                    if counter.get("dead"):
                        raise _Stop()
                    counter["n"] += 1
                    if counter["n"] == stop:
                        counter["dead"] = True
                        raise _Stop()
                    return real_open(*a, **k)
                F.os = FT.os = OsProxy()
                F.open = open_proxy
                stopped = False
                crashed = None
                try:
                    cache[cpv] = dict(store2)
                except _Stop:
                    stopped = True
                except Exception as e:
                    crashed = e
                finally:
                    F.os = FT.os = real_os
                    del F.open
                cases += 1
                if crashed is not None:
                    if len(fails) < 4:
                        fails.append({"model": {"layout": "md5" if md5 else "flat", "entry": str(second)}, "detail": f"storing {second} raised {type(crashed).__name__}: {crashed}"})
                    break
                reader = mk()
                try:
                    seen = reader[cpv]
                    ok = same(seen, first) or same(seen, second)
                except Exception as e:
                    seen, ok = f"{type(e).__name__}: {e}", False
                listed = sorted(reader.keys())
                if not ok and len(fails) < 4:
                    fails.append({"model": {"layout": "md5" if md5 else "flat", "stop_before_file_operation": stop}, "detail": f"store of {cpv} stopped before file operation #{stop}: a reader sees {seen}, neither the previous nor the new entry"})
                if listed != [cpv] and len(fails) < 4:
                    fails.append({"model": {"layout": "md5" if md5 else "flat", "stop_before_file_operation": stop, "listed": listed}, "detail": f"store of {cpv} stopped before file operation #{stop}: keys() lists {listed}, expected only [{cpv!r}]"})
                for root_, _, fns in os.walk(loc):   # a later store must still work and clean nothing else up
                    pass
                if not stopped:
                    first = second
                    break
                stop += 1
                # forget the stopped attempt's leftovers? no: they stay, as after a real crash
    finally:
        shutil.rmtree(scratch, ignore_errors=True)
    return {"name": "C27.caches.bounded_enumeration", "bound": "30 seeded caches (flat and md5-cache layout alternating): an entry with dependency strings containing '=', eclass maps of 0 / 1 / 2 eclasses (or no eclass key at all) with paths containing spaces, "
            "mtimes / md5s is stored and read back, then replaced with the store stopped before every file operation in turn (open, chown, chmod, utime, rename, remove); a fresh reader reads the entry and lists the keys", "cases": cases, "failures": fails}


def tasks():
    return [
        Task("C27.flat_hash._setitem", t_setitem, [(FH, "database._setitem")]),
        Task("C27.base.__setitem__", t_base_setitem, [(CB, "base.__setitem__")]),
        Task("C27.base.__getitem__", t_base_getitem, [(CB, "base.__getitem__")]),
        Task("C27.flat_hash._parse_data", t_line_roundtrip, [(FH, "database._parse_data")]),
        Task("C27.flat_hash.keys", t_keys, [(FH, "database.keys")], bounded={"directory trees": 4, "note": "explicit listings incl. pending .update files"}, enumerate=enum_caches),
    ]


REPLAY = {}
