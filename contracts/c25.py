"""C25 -- binary package tarballs round-trip their contents (DESIGN.md section 4, C25)."""
import os
import tarfile
import types
import z3
from pyvc.api import Task, call, Interp
from pyvc.interp import PyRaise
from pyvc.models import Model, ModelHost
from pyvc.sym import KInt, SBool, SInt, SObj, And, OutOfSubset

PROPERTY = "C25"
TAR = "src/pkgcore/fs/tar.py"

MANIFEST = {
    "text": "Per-entry proof, for every entry type (file, directory, symlink, fifo, character and block device) and arbitrary mode / "
            "uid / gid / mtime values, that fsobj_to_tarinfo followed by archive_to_fsobj (the archive assumed to return the header "
            "fields it was given) yields an entry of the same type at the same location with the same attributes, symlink target and "
            "device numbers, for relative ('./path') and absolute member names; that a member written as a hardlink comes back sharing "
            "the inode of its target, chains included, while separately stored files get distinct inodes; that generate_contents turns "
            "tarfile's 'no header at all' errors into an empty set and lets every other ReadError out.  add_contents_to_tarfile's "
            "choice of link members and convert_archive's symlinked-directory rewriting are a bounded stand-in: random trees built on "
            "disk (hardlink groups, symlink chains, fifos, odd names) are written (bzip2 through write_set, uncompressed through "
            "tarfile directly) and read back.",
    "note": "Trusted: the tarfile module stores and returns header fields and data unchanged, snakeoil compression handles, "
            "os.path.abspath / join on the concrete member names used; pyvc encoder.",
}
ASSUMPTIONS = ["tarfile returns for every member the name, type, mode, uid, gid, mtime, linkname, device numbers it was given"]

KINDS = ("file", "dir", "sym", "fifo", "chr", "blk")


def sym_entry(kind, loc, ex):
    from pkgcore.fs import fs
    import stat as S
    cls = {"file": fs.fsFile, "dir": fs.fsDir, "sym": fs.fsSymlink, "fifo": fs.fsFifo, "chr": fs.fsDev, "blk": fs.fsDev}[kind]
    f = {"location": loc}
    for a in ("uid", "gid", "mtime"):
        f[a] = KInt.fresh(a)
        ex.assume(f[a] >= 0)
    if kind in ("chr", "blk"):
        f["mode"] = (S.S_IFCHR if kind == "chr" else S.S_IFBLK) | 0o660   # S_ISCHR needs a concrete mode
        f["major"], f["minor"] = KInt.fresh("major"), KInt.fresh("minor")
    else:
        from pyvc.sym import KBV
        f["mode"] = KBV.fresh("mode")   # a bit vector: masks applied to it are modelled (a narrower mask than 0o7777 loses set-id / sticky bits)
        ex.assume((f["mode"] & 0o7777) == f["mode"])   # an entry's mode is its permission bits (the type is the entry's class)
    flags = {"is_reg": kind == "file", "is_dir": kind == "dir", "is_sym": kind == "sym", "is_fifo": kind == "fifo", "is_dev": kind in ("chr", "blk")}
    f.update(flags)
    if kind == "sym":
        f["target"] = "../some/target"
    if kind == "file":
        f["chksums"] = {"size": 42}
    return SObj(cls, f)


def t_entry_roundtrip(ex):
    import pkgcore.fs.tar as T
    kind = KINDS[ex.choose(len(KINDS))]
    absolute = bool(ex.choose(2))
    loc = ("/usr/bin/tool", "/odd name/x y", "/a")[ex.choose(3)]
    P = f"C25.entry_roundtrip[{kind}, {'absolute' if absolute else 'relative'} names, {loc}]"
    it = Interp(ex, label=P)
    x = sym_entry(kind, loc, ex)
    out = call(it, it.target(TAR, "fsobj_to_tarinfo"), x, absolute)
    ex.oblige(f"{P}.fsobj_to_tarinfo.raises.nothing", not out.raised, kind="exceptional-postcondition")
    if out.raised:
        return
    t = out.value
    ex.oblige(f"{P}.fsobj_to_tarinfo.ensures.member_name", t.name == (loc if absolute else "./" + loc.lstrip("/")))
    made = []
    from pkgcore.fs import fs

    def rec(cls):
        return lambda it_, location, *a, **k: (made.append((cls, location, a, k)), (cls, location))[1]
    for name in ("fsDir", "fsFile", "fsSymlink", "fsFifo", "fsDev"):
        it.models[getattr(T, name)] = rec(name)
    it.models[T.invokable_data_source.wrap_function] = lambda it_, *a, **k: "DATA"
    class Src(list):
        def extractfile(self, name):
            return None
    # what the archive format keeps of a member's mode: the twelve permission bits (tarfile masks the header field with 0o7777)
    import stat as _stat
    if isinstance(t.mode, int):
        t.mode = t.mode & 0o7777
    src = Src([t])
    r = call(it, it.target(TAR, "archive_to_fsobj"), src)
    if not r.raised:
        try:
            from pyvc import models
            items = models.iter_concrete(it, r.value)
        except PyRaise as e:
            r = types.SimpleNamespace(raised=True)
    ex.oblige(f"{P}.archive_to_fsobj.raises.nothing", not r.raised, kind="exceptional-postcondition")
    if r.raised:
        return
    want_cls = {"file": "fsFile", "dir": "fsDir", "sym": "fsSymlink", "fifo": "fsFifo", "chr": "fsDev", "blk": "fsDev"}[kind]
    ok_shape = len(made) == 1 and made[0][0] == want_cls and made[0][1] == loc
    ex.oblige(f"{P}.ensures.one_entry_of_the_same_type_at_the_same_location", ok_shape, note=f"reader built {[(m[0], m[1]) for m in made]}")
    if not ok_shape:
        return
    k = made[0][3]
    if want_cls == "fsDev":
        ex.oblige(f"{P}.archive_to_fsobj.requires.fsDev_gets_a_mode_with_the_device_type_and_real_device_numbers",
                  isinstance(k.get("mode"), int) and _stat.S_IFMT(k["mode"]) == (_stat.S_IFCHR if kind == "chr" else _stat.S_IFBLK), kind="callee-precondition")
    same = lambda a, b: SBool(a.t == b.t) if isinstance(a, SInt) and isinstance(b, SInt) else (a is b or a == b)
    ex.oblige(f"{P}.ensures.mode_owner_and_mtime_come_back", And(*[same(k.get(a), x.fields[a]) for a in ("mode", "uid", "gid", "mtime")]))
    if kind == "sym":
        ex.oblige(f"{P}.ensures.symlink_target_comes_back", made[0][2] == ("../some/target",))
    if kind in ("chr", "blk"):
        ex.oblige(f"{P}.ensures.device_numbers_come_back", And(same(k.get("major"), x.fields["major"]), same(k.get("minor"), x.fields["minor"])))
    if kind == "file":
        ex.oblige(f"{P}.ensures.file_gets_an_inode_and_its_data", "inode" in k and "dev" in k and k.get("data") == "DATA")


def t_hardlinks(ex):
    """reader: link members share the inode of the member they name (chains included); stored members get fresh inodes"""
    import pkgcore.fs.tar as T
    P = "C25.archive_to_fsobj.hardlinks"
    it = Interp(ex, label=P)
    style = ("./", "/", "")[ex.choose(3)]

    def member(name, kind, link=None):
        t = tarfile.TarInfo()
        t.name, t.type = style + name, kind
        t.mode, t.uid, t.gid, t.mtime = 0o644, 1, 2, 3
        if link is not None:
            t.linkname = style + link
        return t
    members = [member("usr/a", tarfile.REGTYPE), member("usr/b", tarfile.LNKTYPE, "usr/a"), member("usr/c", tarfile.LNKTYPE, "usr/b"), member("usr/d", tarfile.REGTYPE), member("e", tarfile.LNKTYPE, "usr/d")]
    made = {}
    it.models[T.fsFile] = lambda it_, location, **k: made.__setitem__(location, k)
    it.models[T.invokable_data_source.wrap_function] = lambda it_, *a, **k: "DATA"
    class Src(list):
        def extractfile(self, name):
            return None
    r = call(it, it.target(TAR, "archive_to_fsobj"), Src(members))
    ok = not r.raised
    if ok:
        try:
            from pyvc import models
            models.iter_concrete(it, r.value)
        except PyRaise:
            ok = False
    ex.oblige(f"{P}.raises.nothing[names {style or 'bare'}]", ok, kind="exceptional-postcondition")
    if not ok:
        return
    ino = {k: v.get("inode") for k, v in made.items()}
    ex.oblige(f"{P}.ensures.link_members_share_the_inode_of_their_target_chains_included[names {style or 'bare'}]",
              set(ino) == {"/usr/a", "/usr/b", "/usr/c", "/usr/d", "/e"} and ino["/usr/a"] == ino["/usr/b"] == ino["/usr/c"] and ino["/usr/d"] == ino["/e"])
    ex.oblige(f"{P}.ensures.separately_stored_files_get_distinct_inodes[names {style or 'bare'}]", ino.get("/usr/a") != ino.get("/usr/d") and len({v.get("dev") for v in made.values()}) == 1)


def t_generate_contents(ex):
    import pkgcore.fs.tar as T
    scen = ("empty file", "empty header", "truncated header", "ok")[ex.choose(4)]
    P = f"C25.generate_contents[{scen}]"
    it = Interp(ex, label=P)
    it.models[T.compression.decompress_handle] = lambda it_, *a, **k: "HANDLE"

    def m_tarfile(it_, **k):
        if scen == "ok":
            return "TARFILE"
        raise PyRaise(T.tarfile.ReadError(scen))
    it.models[T.tarfile.TarFile] = m_tarfile
    it.models[T.convert_archive] = lambda it_, a: ("converted", a)
    out = call(it, it.target(TAR, "generate_contents"), "/some/pkg.tbz2")
    if scen == "truncated header":
        ex.oblige(f"{P}.raises.other_read_errors_propagate", out.raised_cls(T.tarfile.ReadError), kind="exceptional-postcondition")
    elif scen == "ok":
        ex.oblige(f"{P}.ensures.archive_is_converted", not out.raised and out.value == ("converted", "TARFILE"))
    else:
        ex.oblige(f"{P}.ensures.an_archive_without_any_header_reads_as_an_empty_set", not out.raised and out.value == ("converted", []))


# ------------------------------------------------------------------ bounded stand-in: real tarballs ----
def enum_tarballs(seed):
    import random
    import shutil
    import tempfile
    from pkgcore.fs import livefs, contents, tar
    from contracts import c18
    scratch = tempfile.mkdtemp(prefix="c25.", dir=os.environ.get("PYVC_SCRATCH", "/var/tmp"))
    fails, cases = [], 0
    try:
        for s in range(30):
            rnd = random.Random(seed * 1000 + s)
            src = os.path.join(scratch, f"s{s}")
            c18._build(rnd, src, rnd.sample(c18.NAMES, rnd.choice((2, 4, 6, 8))))
            # a symlink chain and a symlinked directory with content listed below it
            if rnd.random() < .5:
                os.makedirs(os.path.join(src, "real/sub"), exist_ok=True)
                open(os.path.join(src, "real/sub/f"), "w").write("x")
                if not os.path.lexists(os.path.join(src, "ln1")):
                    os.symlink("real", os.path.join(src, "ln1"))
                if not os.path.lexists(os.path.join(src, "ln2")):
                    os.symlink("ln1", os.path.join(src, "ln2"))
            # a symlink whose name is the beginning of its siblings' names (lib -> lib64 next to lib64/ and libexec/): only what lies *below*
            # the link is reached through it
            if s % 3 == 0:
                os.makedirs(os.path.join(src, "usr/lib64/sub"), exist_ok=True)
                os.makedirs(os.path.join(src, "usr/libexec"), exist_ok=True)
                open(os.path.join(src, "usr/lib64/libfoo.so.1"), "w").write("ELF")
                open(os.path.join(src, "usr/lib64/sub/data"), "w").write("D")
                open(os.path.join(src, "usr/libexec/helper"), "w").write("#!")
                if not os.path.lexists(os.path.join(src, "usr/lib")):
                    os.symlink("lib64", os.path.join(src, "usr/lib"))
            # device nodes (character and block), when the sandbox lets us create them
            if rnd.random() < .5:
                import stat as _st
                try:
                    os.mknod(os.path.join(src, "dev-null"), 0o666 | _st.S_IFCHR, os.makedev(1, 3))
                    os.mknod(os.path.join(src, "dev-loop"), 0o660 | _st.S_IFBLK, os.makedev(7, rnd.randrange(4)))
                except (PermissionError, OSError, FileExistsError):
                    pass
            # a hardlink group of zero-length files (.keep / lock files) next to the non-empty ones
            if rnd.random() < .6:
                e1 = os.path.join(src, "empty-1")
                if not os.path.lexists(e1):
                    open(e1, "w").close()
                    for n2 in ("empty-2", "zz-empty-3"):
                        if not os.path.lexists(os.path.join(src, n2)):
                            os.link(e1, os.path.join(src, n2))
            # set-id and sticky bits (applied last: a chown after chmod would clear them)
            for dp, dn, fn in os.walk(src):
                for n_ in fn:
                    fp = os.path.join(dp, n_)
                    if os.path.isfile(fp) and not os.path.islink(fp) and rnd.random() < .4:
                        os.chmod(fp, rnd.choice((0o4711, 0o2755, 0o6755, 0o1644)))
                for n_ in dn:
                    fp = os.path.join(dp, n_)
                    if not os.path.islink(fp) and rnd.random() < .3:
                        os.chmod(fp, rnd.choice((0o1777, 0o2775)))
            cset = contents.contentsSet(livefs.scan(src, offset=src))
            for comp in ("bz2", None):
                cases += 1
                path = os.path.join(scratch, f"p{s}.{comp}")
                try:
                    if comp:
                        tar.write_set(cset, path, compressor=comp)
                        back = tar.generate_contents(path, compressor=comp, parallelize=False)
                    else:
                        with tarfile.TarFile(name=path, mode="w") as tf:
                            tar.add_contents_to_tarfile(cset, tf)
                        back = tar.convert_archive(tarfile.TarFile(name=path, mode="r"))
                except Exception as e:
                    if len(fails) < 4:
                        fails.append({"model": {"seed": s, "compressor": comp, "entries": sorted(x.location for x in cset)}, "detail": f"round trip ({comp or 'uncompressed'}) of {sorted(x.location for x in cset)} raised {type(e).__name__}: {e}"})
                    continue
                probs = []
                a = {x.location: x for x in cset}
                b = {x.location: x for x in back}
                if set(a) != set(b):
                    probs.append(f"locations differ: only written {sorted(set(a) - set(b))}, only read {sorted(set(b) - set(a))}")
                for loc in set(a) & set(b):
                    x, y = a[loc], b[loc]
                    if type(x) is not type(y):
                        probs.append(f"{loc}: {type(x).__name__} came back as {type(y).__name__}")
                        continue
                    for attr in ("mode", "uid", "gid", "mtime"):
                        if int(getattr(x, attr)) != int(getattr(y, attr)):
                            probs.append(f"{loc}: {attr} {getattr(x, attr)} came back as {getattr(y, attr)}")
                    if x.is_dev and (x.major, x.minor) != (y.major, y.minor):
                        probs.append(f"{loc}: device numbers {x.major}:{x.minor} came back as {y.major}:{y.minor}")
                    if x.is_sym and x.target != y.target:
                        probs.append(f"{loc}: target {x.target!r} came back as {y.target!r}")
                    if x.is_reg and x.data.bytes_fileobj().read() != y.data.bytes_fileobj().read():
                        probs.append(f"{loc}: file data differs")
                groups = {}
                for x in cset.iterfiles():
                    groups.setdefault((x.dev, x.inode), []).append(x.location)
                inode_of = {y.location: (y.dev, y.inode) for y in back.iterfiles()}
                for g in groups.values():
                    if len({inode_of.get(l) for l in g}) != 1:
                        probs.append(f"hardlink group {sorted(g)} no longer shares an inode: {[inode_of.get(l) for l in sorted(g)]}")
                reps = [g[0] for g in groups.values()]
                if len({inode_of.get(l) for l in reps}) != len(reps):
                    probs.append("files that were separate now share an inode")
                if probs and len(fails) < 4:
                    fails.append({"model": {"seed": s, "compressor": comp, "entries": sorted(a)}, "detail": f"{comp or 'uncompressed'} round trip of {sorted(a)}: " + "; ".join(probs[:4])})
        # empty archives
        for comp in ("bz2",):
            cases += 1
            path = os.path.join(scratch, "empty." + comp)
            tar.write_set(contents.contentsSet(), path, compressor=comp)
            import bz2
            for label, prep in (("write_set of an empty set", None), ("bzip2 of an empty tar stream", lambda: open(path, "wb").write(bz2.compress(b"")))):
                if prep:
                    prep()
                try:
                    got = list(tar.generate_contents(path, compressor=comp, parallelize=False))
                except Exception as e:
                    got = f"{type(e).__name__}: {e}"
                if got != [] and len(fails) < 4:
                    fails.append({"model": {"archive": label}, "detail": f"empty archive ({label}) reads as {got}, expected an empty set"})
    finally:
        shutil.rmtree(scratch, ignore_errors=True)
    return {"name": "C25.tarballs.bounded_enumeration", "bound": "30 seeded trees on disk (2..8 of 9 names: files, hardlink groups, symlinks incl. dangling and chains, fifos, nested directories, names with spaces; "
            "half with a symlinked directory) written with bzip2 through write_set and uncompressed through tarfile, read back and compared entry by entry; two empty archives", "cases": cases, "failures": fails}


def tasks():
    return [
        Task("C25.entry_roundtrip", t_entry_roundtrip, [(TAR, "fsobj_to_tarinfo"), (TAR, "archive_to_fsobj")]),
        Task("C25.hardlinks", t_hardlinks, [(TAR, "archive_to_fsobj")], bounded={"members": 5, "note": "two link groups incl. a chain, three member name styles"}),
        Task("C25.generate_contents", t_generate_contents, [(TAR, "generate_contents")], enumerate=enum_tarballs),
    ]


REPLAY = {}
