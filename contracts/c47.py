"""C47 -- tarball sync replaces a repository atomically and recovers from interruption (DESIGN.md section 4, C47)."""
import os
import shutil
import subprocess
import types
from pyvc.api import Task, call, Interp
from pyvc.interp import PyRaise
from pyvc.models import Model, ModelHost
from pyvc.sym import SObj, OutOfSubset

PROPERTY = "C47"
TAR = "src/pkgcore/sync/tar.py"

MANIFEST = {
    "text": "Effect-trace contract on tar_syncer._pre_download / _post_download over a ghost directory (repository path, .name.update and "
            ".name.old staging directories, each empty, holding the complete old tree, the complete new tree or a partial unpack), for a "
            "repository that exists or not, every leftover state an interrupted earlier sync can leave, and every failure outcome "
            "(staging directories cannot be created, tar fails after a partial unpack, either rename fails, an interrupt from the keyboard arrives before either rename, the second rename and the restoring rename both fail), "
            "followed by the exit handlers the sync registered: after every effect the "
            "repository path holds the complete old tree or the complete new tree; data is only ever unpacked into the hidden staging "
            "directory; every failure raises SyncError with the previous tree back at the repository path; starting from every state a "
            "stop can leave, the next sync ends with the complete new tree.  The one state between the two renames (nothing at the "
            "repository path) is a listed known finding.  A native enumeration runs the real methods with real tarballs (good, truncated, "
            "corrupt) in a scratch directory, stops them before every file operation and syncs again.",
    "note": "Trusted: os.rename is atomic; tar --extract only writes below the directory given with -C; http_syncer's download through "
            "AtomicWriteFile (the tarball lands in a temporary file outside the repository); the ghost directory; pyvc encoder.",
}
ASSUMPTIONS = ["os.rename of a directory is atomic", "tar only writes below its -C directory"]

BASE, UPD, OLD = "/repos/name", "/repos/.name.update", "/repos/.name.old"


class Dirs:
    """ghost: path -> 'old' | 'new' | 'partial' | 'empty' (absent if missing)"""

    def __init__(self, state):
        self.d = dict(state)
        self.trace = []
        self.bad = []
        self.at_exit = []

    def snap(self, what):
        self.trace.append((what, dict(self.d)))


def install_models(it, dirs, T, faults):
    N = lambda p: p.rstrip("/") or "/"

    def m_rename(it_, a, b):
        a, b = N(a), N(b)
        if faults.get("rename") == a or faults.get("rename_too") == a:
            raise PyRaise(OSError(18, "Invalid cross-device link"))
        if faults.get("interrupt") == a:
            raise PyRaise(KeyboardInterrupt())
        if a not in dirs.d:
            raise PyRaise(FileNotFoundError(2, a))
        if b in dirs.d and dirs.d[b] != "empty":
            raise PyRaise(OSError(39, "Directory not empty"))
        dirs.d[b] = dirs.d.pop(a)
        dirs.snap(f"rename {a} -> {b}")
    it.models[os.rename] = m_rename

    def m_makedirs(it_, p, *a, **k):
        p = N(p)
        if faults.get("makedirs") == p:
            raise PyRaise(PermissionError(13, "denied"))
        if p in dirs.d:
            raise PyRaise(FileExistsError(17, p))
        dirs.d[p] = "empty"
        dirs.snap(f"makedirs {p}")
    it.models[os.makedirs] = m_makedirs

    def m_rmtree(it_, p, ignore_errors=False, **k):
        p = N(p)
        if p in dirs.d:
            if p == BASE:
                dirs.bad.append("rmtree of the repository path")
            dirs.d.pop(p)
            dirs.snap(f"rmtree {p}")
    it.models[shutil.rmtree] = m_rmtree
    it.models[os.path.exists] = lambda it_, p: N(p) in dirs.d
    it.models[os.path.isdir] = lambda it_, p: N(p) in dirs.d
    it.models[os.listdir] = lambda it_, p: [] if dirs.d.get(N(p)) == "empty" else ["profiles", "metadata"]

    def m_run(it_, cmd, **k):
        target = cmd[cmd.index("-C") + 1]
        if target != UPD:
            dirs.bad.append(f"tar unpacks into {target}")
        if faults.get("tar"):
            dirs.d[target] = "partial"
            dirs.snap("tar (fails half way)")
            e = subprocess.CalledProcessError(2, cmd, stderr="tar: Unexpected EOF in archive\n")
            raise PyRaise(e)
        dirs.d[target] = "new"
        dirs.snap("tar")
        return types.SimpleNamespace(returncode=0)
    it.models[subprocess.run] = m_run
    it.models[T.atexit.register] = lambda it_, f, *a, **k: dirs.at_exit.append(f)
    it.models[T.tempfile.NamedTemporaryFile] = lambda it_, *a, **k: types.SimpleNamespace(name="/tmp/download.tar.gz", close=lambda: None)
    it.models[T.http_syncer._post_download] = lambda it_, self_, path: None


START_STATES = {
    "fresh": {},
    "existing": {BASE: "old"},
    "stopped_while_unpacking": {BASE: "old", UPD: "partial", OLD: "empty"},
    "stopped_before_first_rename": {BASE: "old", UPD: "new", OLD: "empty"},
    "stopped_between_the_renames": {UPD: "new", OLD: "old"},
    "stopped_after_the_renames": {BASE: "new", OLD: "old"},
    "stopped_between_the_renames_then_http_recreated_the_path": {UPD: "new", OLD: "old"},
}


def t_sync(ex):
    import pkgcore.sync.tar as T
    from pkgcore.sync import base
    start = sorted(START_STATES)[ex.choose(len(START_STATES))]
    fault = (None, "makedirs_update", "makedirs_old", "tar", "rename_aside", "rename_in", "interrupt_before_rename_aside", "interrupt_before_rename_in",
             "rename_in_and_the_restoring_rename", "interrupt_before_rename_in_and_the_restoring_rename")[ex.choose(10)]
    interrupted = fault is not None and fault.startswith("interrupt")
    double = fault is not None and fault.endswith("the_restoring_rename")
    P = f"C47.tar_syncer[{start}{', ' + fault + ' fails' if fault else ''}]"
    it = Interp(ex, label=P)
    dirs = Dirs(START_STATES[start])
    faults = {"makedirs_update": {"makedirs": UPD}, "makedirs_old": {"makedirs": OLD}, "tar": {"tar": True}, "rename_aside": {"rename": BASE}, "rename_in": {"rename": UPD},
              "interrupt_before_rename_aside": {"interrupt": BASE}, "interrupt_before_rename_in": {"interrupt": UPD},
              "rename_in_and_the_restoring_rename": {"rename": UPD}, "interrupt_before_rename_in_and_the_restoring_rename": {"interrupt": UPD}}.get(fault, {})
    install_models(it, dirs, T, faults)
    me = SObj(T.tar_syncer, {"basedir": BASE + "/", "uri": "https://example.org/repo.tar.gz"})
    prev = "new" if start == "stopped_after_the_renames" else ("old" if any(v == "old" for v in START_STATES[start].values()) else None)
    r0 = call(it, it.target(TAR, "tar_syncer._pre_download"), me)
    ex.oblige(f"{P}._pre_download.raises.nothing", not r0.raised, kind="exceptional-postcondition")
    if r0.raised:
        return
    if prev is not None:
        ex.oblige(f"{P}._pre_download.ensures.the_previous_tree_is_at_the_repository_path_and_no_staging_directory_is_left",
                  dirs.d == {BASE: prev}, note=f"directories after _pre_download: {dirs.d}")
    # http_syncer._sync creates the repository path if it is missing before the download
    if BASE not in dirs.d:
        dirs.d[BASE] = "empty"
    mark = len(dirs.trace)
    if double:
        faults["rename_too"] = OLD      # (only now: _pre_download's own recovery of a tree left aside is not what fails here)
    out = call(it, it.target(TAR, "tar_syncer._post_download"), me, "/tmp/download.tar.gz")
    # the process ends: the registered exit handlers run, last registered first (after an interrupt from the keyboard just as after a normal return)
    import functools
    for h in reversed(dirs.at_exit):
        hr = call(it, h.func, *h.args, **h.keywords) if isinstance(h, functools.partial) else call(it, h)
        ex.oblige(f"{P}.exit_handlers.raise.nothing", not hr.raised, kind="exceptional-postcondition")
    ex.oblige(f"{P}.invariant.nothing_is_unpacked_or_deleted_at_the_repository_path", not dirs.bad, kind="invariant", note="; ".join(dirs.bad))
    if double:
        # two faults in a row (the swap's second rename and the rename that would put the old tree back): the repository path may be empty now,
        # but the previous tree still exists where the next sync looks for it -- the exit handlers must not have taken the only copy
        ex.oblige(f"{P}.raises.something", out.raised, kind="exceptional-postcondition")
        if prev is not None:
            ex.oblige(f"{P}.ensures.the_previous_tree_survives_the_exit_handlers_at_the_repository_path_or_moved_aside",
                      dirs.d.get(BASE) == prev or dirs.d.get(OLD) == prev, note=f"directories after the exit handlers: {dirs.d}")
        return
    for what, state in dirs.trace[mark:]:
        at = state.get(BASE)
        ok = at in ("old", "new") or (prev is None and at in (None, "empty"))
        between = at is None and prev is not None and state.get(OLD) == prev
        ex.oblige("C47.tar_syncer.invariant.the_repository_path_holds_a_complete_tree_after_every_effect", ok, kind="invariant", note=f"{P}: after '{what}': {state}",
                  known=[("KF-C47-1", between)])
    if interrupted:
        ex.oblige(f"{P}.raises.the_interrupt", out.raised_cls(KeyboardInterrupt), kind="exceptional-postcondition")
        if prev is not None:
            ex.oblige(f"{P}.ensures.an_interrupted_sync_leaves_the_previous_tree_at_the_repository_path_once_the_exit_handlers_ran", dirs.d.get(BASE) == prev, note=f"directories: {dirs.d}")
        return
    if fault is not None:
        ex.oblige(f"{P}.raises.SyncError", out.raised_cls(base.SyncError), kind="exceptional-postcondition")
        if prev is not None:
            ex.oblige(f"{P}.ensures.a_failed_sync_leaves_the_previous_tree_at_the_repository_path", dirs.d.get(BASE) == prev, note=f"directories: {dirs.d}")
        return
    ex.oblige(f"{P}.raises.nothing", not out.raised, kind="exceptional-postcondition")
    if not out.raised:
        ex.oblige(f"{P}.ensures.the_complete_new_tree_is_at_the_repository_path", dirs.d.get(BASE) == "new", note=f"directories: {dirs.d}")


# ------------------------------------------------------------------ bounded stand-in: real tarballs in a scratch directory ----
class _Stop(BaseException):
    pass


def enum_syncs(seed):
    import tarfile
    import tempfile
    import pkgcore.sync.tar as T
    from pkgcore.sync import base
    scratch = tempfile.mkdtemp(prefix="c47.", dir=os.environ.get("PYVC_SCRATCH", "/var/tmp"))
    fails, cases = [], 0

    def mktar(path, tag, kind="good"):
        src = os.path.join(scratch, f"src-{tag}")
        os.makedirs(os.path.join(src, "top", "profiles"), exist_ok=True)
        for n in ("profiles/repo_name", "metadata.xml", "profiles/arch.list"):
            with open(os.path.join(src, "top", n), "w") as f:
                f.write(f"{tag}:{n}\n" * 200)
        with tarfile.open(path, "w:gz") as tf:
            tf.add(os.path.join(src, "top"), arcname="top")
        data = open(path, "rb").read()
        if kind == "truncated":
            open(path, "wb").write(data[: len(data) // 2])
        elif kind == "corrupt":
            open(path, "wb").write(data[:100] + bytes(200) + data[300:])

    def tree_state(p):
        if not os.path.isdir(p):
            return None
        tags = set()
        for n in ("profiles/repo_name", "metadata.xml", "profiles/arch.list"):
            try:
                tags.add(open(os.path.join(p, n)).read().split(":")[0])
            except OSError:
                tags.add("MISSING")
        return tags.pop() if len(tags) == 1 else "PARTIAL"

    def snapshot(p):
        out = {}
        for dp, dn, fn in os.walk(p):
            for f in fn:
                q = os.path.join(dp, f)
                out[os.path.relpath(q, p)] = open(q, "rb").read()
        return out

    def one_sync(root, tarball, stop_at=None, etag="v1", interrupt=False):
        """the real http_syncer._sync / tar_syncer hooks against a stub HTTP response; returns 'ok' | 'SyncError' | 'stopped' | 'unchanged'"""
        import io
        import pkgcore.sync.http as H
        basedir = os.path.join(root, "name")
        s = object.__new__(T.tar_syncer)
        s.basedir, s.uri, s.basename = basedir + "/", "http://example.org/repo.tar.gz", "repo.tar.gz"
        data = open(tarball, "rb").read()

        class Resp(io.BytesIO):
            def getheader(self, name, default=None):
                return {"etag": etag, "last-modified": f"Mon, 01 Jan 2024 00:00:0{etag[-1]} GMT" if etag else None, "content-length": str(len(data))}.get(name.lower(), default)
        counter = {"n": 0}
        real = {"rename": os.rename, "makedirs": os.makedirs, "run": subprocess.run}

        def wrap(name):
            def f(*a, **k):
                if name == "makedirs" and k.get("exist_ok"):
                    return real[name](*a, **k)      # http_syncer creating the repository path: not part of the swap
                if counter.get("dead"):
                    raise _Stop()           # a killed process performs no further file operation, whatever handlers its code has
                counter["n"] += 1
                if stop_at is not None and counter["n"] == stop_at:
                    counter["dead"] = not interrupt
                    raise (KeyboardInterrupt() if interrupt else _Stop())
                return real[name](*a, **k)
            return f
        os.rename, os.makedirs, subprocess.run = wrap("rename"), wrap("makedirs"), wrap("run")
        regs = []
        real_reg, real_open = T.atexit.register, H.urllib.request.urlopen
        T.atexit.register = lambda f, *a, **k: regs.append(f)
        H.urllib.request.urlopen = lambda req, context=None: Resp(data)
        import sys
        real_stdout = sys.stdout
        sys.stdout = io.StringIO()
        try:
            before_etag = None
            res = "ok" if s._sync(0) else "failed"
        except _Stop:
            res = "stopped"      # process death: no atexit handlers run
            regs = []
        except KeyboardInterrupt:
            res = "stopped"      # the user's interrupt: the stack unwinds and the interpreter exits, running the registered exit handlers
        except base.SyncError:
            res = "SyncError"
        finally:
            sys.stdout = real_stdout
            os.rename, os.makedirs, subprocess.run = real["rename"], real["makedirs"], real["run"]
            T.atexit.register, H.urllib.request.urlopen = real_reg, real_open
        for f in regs:
            try:
                f()
            except Exception:
                pass
        return res
    try:
        tars = {}
        for tag, kind in (("old", "good"), ("new", "good"), ("bad1", "truncated"), ("bad2", "corrupt")):
            tars[tag] = os.path.join(scratch, f"{tag}.tar.gz")
            mktar(tars[tag], tag if kind == "good" else "new", kind)
        basedir = lambda root: os.path.join(root, "name")
        # failed downloads / unpacks leave the previous tree alone and the next sync completes
        for bad in ("bad1", "bad2"):
            root = os.path.join(scratch, f"f-{bad}")
            os.makedirs(root)
            cases += 1
            assert one_sync(root, tars["old"], etag="v1") == "ok"
            snap = snapshot(basedir(root))
            r = one_sync(root, tars[bad], etag="v2")
            st = tree_state(basedir(root))
            if r != "SyncError" or st != "old":
                fails.append({"model": {"tarball": bad}, "detail": f"sync from a {bad} tarball returned {r}; the repository path then holds {st} (expected SyncError and the old tree)"})
            after = snapshot(basedir(root))
            if after != snap:
                diff = sorted(k for k in set(snap) | set(after) if snap.get(k) != after.get(k))
                fails.append({"model": {"tarball": bad}, "detail": f"a failed sync ({bad} tarball) changed the previous tree: {diff}"})
            r2 = one_sync(root, tars["new"], etag="v2")     # the server still advertises the same validators
            if (r2, tree_state(basedir(root))) != ("ok", "new"):
                fails.append({"model": {"tarball": bad, "follow_up": True}, "detail": f"the sync after a failed one returned {r2}; the repository path holds {tree_state(basedir(root))}"})
        # every file operation as a stop point, then inspect, then sync again
        for have_old, interrupt in ((True, False), (False, False), (True, True), (False, True)):
            stop = 1
            while True:
                root = os.path.join(scratch, f"s-{int(have_old)}-{int(interrupt)}-{stop}")
                os.makedirs(root)
                if have_old:
                    assert one_sync(root, tars["old"], etag="v1") == "ok"
                cases += 1
                r = one_sync(root, tars["new"], stop_at=stop, etag="v2", interrupt=interrupt)
                st = tree_state(basedir(root))
                ok_now = st in ("old", "new") if have_old else st in (None, "new", "MISSING")
                model = {"existing_repository": have_old, "interruption": "keyboard interrupt, exit handlers run" if interrupt else "process killed", "stop_before_file_operation": stop, "repository_path": st, "leftovers": sorted(n for n in os.listdir(root) if n != "name")}
                if r == "stopped" and not ok_now:
                    between = have_old and st in (None, "MISSING") and tree_state(os.path.join(root, ".name.old")) == "old"
                    fails.append({"model": dict(model, between_the_two_renames=between), "detail": f"sync stopped ({model['interruption']}) before file operation #{stop}: the repository path holds {st}, other entries {model['leftovers']}"})
                r2 = one_sync(root, tars["new"], etag="v2")
                st2 = tree_state(basedir(root))
                if (r2, st2) != ("ok", "new"):
                    fails.append({"model": dict(model, follow_up=True), "detail": f"sync stopped ({model['interruption']}) before file operation #{stop}; the next sync returned {r2} and the repository path holds {st2}, other entries {sorted(n for n in os.listdir(root) if n != 'name')}"})
                left = sorted(n for n in os.listdir(root) if n != "name")
                if r2 == "ok" and left:
                    fails.append({"model": dict(model, follow_up=True), "detail": f"after the follow-up sync staging directories are left behind: {left}"})
                if r == "stopped" and have_old:
                    # the same interruption followed by a sync that fails (a corrupt archive): the old tree, put back by that sync, must survive it
                    root3 = os.path.join(scratch, f"t-{int(interrupt)}-{stop}")
                    os.makedirs(root3)
                    assert one_sync(root3, tars["old"], etag="v1") == "ok"
                    one_sync(root3, tars["new"], stop_at=stop, etag="v2", interrupt=interrupt)
                    cases += 1
                    r3 = one_sync(root3, tars["bad2"], etag="v3")
                    st3 = tree_state(basedir(root3))
                    if st3 not in ("old", "new"):
                        fails.append({"model": dict(model, follow_up=True, second_sync="corrupt archive"),
                                      "detail": f"sync stopped before file operation #{stop}, the next sync got a corrupt archive (returned {r3}): the repository path then holds {st3}, other entries {sorted(n for n in os.listdir(root3) if n != 'name')}"})
                    r4 = one_sync(root3, tars["new"], etag="v3")
                    if (r4, tree_state(basedir(root3))) != ("ok", "new"):
                        fails.append({"model": dict(model, follow_up=True, second_sync="corrupt archive", third_sync=True), "detail": f"sync stopped before file operation #{stop}, then a failed sync, then a good one: returned {r4}, the repository path holds {tree_state(basedir(root3))}"})
                if r != "stopped":
                    break
                stop += 1
    finally:
        shutil.rmtree(scratch, ignore_errors=True)
    return {"name": "C47.syncs.bounded_enumeration", "bound": "real _pre_download / _post_download with real gzip tarballs in a scratch directory: good, truncated and corrupt archives over an existing repository, and a good archive with the sync "
            "stopped before every rename / makedirs / tar invocation (with and without an existing repository; the process killed -- no exit handler runs -- or interrupted from the keyboard -- the stack unwinds and the registered exit handlers run), each followed by an inspection of the repository path and a second sync (a good one; and, over an existing repository, a failing one followed by a good one)", "cases": cases, "failures": sorted(fails, key=lambda f: bool(f["model"].get("between_the_two_renames")))[:8]}  # unlisted failures first: a listed one never crowds them out


def tasks():
    return [Task("C47.tar_syncer", t_sync, [(TAR, "tar_syncer._pre_download"), (TAR, "tar_syncer._post_download")], enumerate=enum_syncs)]


REPLAY = {}
WITNESSES = {"between_the_two_renames": lambda m: bool(m.get("between_the_two_renames")) and not m.get("follow_up")}
