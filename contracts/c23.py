"""C23 -- merge-time permission hardening never lets unsafe modes through (DESIGN.md section 4, C23)."""
import itertools
import types
import z3
from pyvc.api import Task, call, Interp
from pyvc.sym import KInt, SBool, SObj, And, Or, Not, Implies, fresh_name
from pyvc import cset
from pyvc.cset import field, Entry

PROPERTY = "C23"
FILE = "src/pkgcore/merge/triggers.py"

MANIFEST = {
    "text": "Unbounded proof over every contents set (any number of entries, every mode/uid/gid/kind combination; the set is an "
            "abstract map location->entry) and every order of the three pre-merge triggers fix_uid_perms, fix_gid_perms, "
            "fix_set_bits (plus detect_world_writable with fix_perms) that afterwards no non-symlink entry is both set-id and "
            "world-writable, no entry is owned by the build uid/gid, and kind, location, target, data and the key set are unchanged.",
    "note": "Trusted: contentsSet.update/iterlinks follow their contracts (map update keyed by location; C22 covers contentsSet); fsBase.change_attributes is under its own contract (C23.change_attributes, every entry class, attribute values >= 0); "
            "modes are 32-bit vectors (0 <= mode < 2**31); symlink modes carry no set-id "
            "bits (fs type invariant); the observer is None (reporting loops are not under contract); pyvc encoder.",
}
ASSUMPTIONS = [
    "file modes are non-negative ints below 2**31 (bit operations modelled on 32-bit vectors)",
    "contentsSet.update(iterable) stores each entry under its location; iterlinks(True) yields every non-symlink entry; "
    "fsBase.change_attributes(**kw) returns a copy differing only in kw (proved separately as C23.change_attributes for mode / uid / gid on every entry class)",
    "engine.observer is None in the verified runs (the reporter.warn loops have no effect on the contents set)",
    "the replacement uid/gid differs from the build uid/gid",
]

TRIGGERS = ("fix_uid_perms", "fix_gid_perms", "fix_set_bits")


def t_premerge(ex):
    import pkgcore.merge.triggers as T
    order = list(itertools.permutations(range(3)))[ex.choose(6)]
    with_ww = ex.choose(2) == 1
    it = Interp(ex, label="C23.pre_merge")
    cset.install_entry_attrs(it)
    cs = cset.CSet(ex, "new_cset")
    bad_uid, good_uid, bad_gid, good_gid = (KInt.fresh(n) for n in ("bad_uid", "good_uid", "bad_gid", "good_gid"))
    ex.assume(And(bad_uid != good_uid, bad_gid != good_gid))
    engine = types.SimpleNamespace(observer=None)
    objs = {
        "fix_uid_perms": SObj(T.fix_uid_perms, {"bad_uid": bad_uid, "good_uid": good_uid}),
        "fix_gid_perms": SObj(T.fix_gid_perms, {"bad_gid": bad_gid, "good_gid": good_gid}),
        "fix_set_bits": SObj(T.fix_set_bits, {}),
    }
    names = [TRIGGERS[i] for i in order] + (["detect_world_writable"] if with_ww else [])
    if with_ww:
        objs["detect_world_writable"] = SObj(T.detect_world_writable, {"fix_perms": True})
    P = "C23.pre_merge"
    for n in names:
        fn = it.target(FILE, f"{n}.trigger")
        out = call(it, fn, objs[n], engine, cs)
        ex.oblige(f"{P}.{n}.raises.nothing", not out.raised, kind="exceptional-postcondition")
        if out.raised:
            return
    ex.cover("all-triggers-ran")
    # arbitrary entry of the original set (skolem constant)
    l0 = z3.Const(fresh_name("l0"), z3.StringSort())
    e0 = cs.ent0[l0]
    ex.assume(SBool(z3.And(z3.IsMember(l0, cs.dom0), field(e0, "location") == l0)))
    ex.assume(SBool(z3.And(field(e0, "kind") >= 0, field(e0, "kind") <= 4, z3.ULT(field(e0, "mode"), 0o10000))))
    ex.assume(SBool(z3.Implies(field(e0, "kind") == cset.KINDS["sym"], (field(e0, "mode") & 0o6000) == 0)))
    e1 = cs.ent[l0]
    ex.inputs.update({"order": names, "kind": cset.SInt(field(e0, "kind")), "mode": cset.SInt(z3.BV2Int(field(e0, "mode"))),
                      "uid": cset.SInt(field(e0, "uid")), "gid": cset.SInt(field(e0, "gid")),
                      "bad_uid": bad_uid, "good_uid": good_uid, "bad_gid": bad_gid, "good_gid": good_gid})
    m1 = field(e1, "mode")
    ex.oblige(f"{P}.ensures.key_set_unchanged", SBool(cs.dom == cs.dom0))
    ex.oblige(f"{P}.ensures.no_setid_and_world_writable", SBool(z3.Not(z3.And((m1 & 0o6000) != 0, (m1 & 0o002) != 0))))
    ex.oblige(f"{P}.ensures.not_owned_by_build_user", SBool(field(e1, "uid") != bad_uid.t))
    ex.oblige(f"{P}.ensures.not_owned_by_build_group", SBool(field(e1, "gid") != bad_gid.t))
    for f in ("kind", "location", "target", "data"):
        ex.oblige(f"{P}.ensures.{f}_unchanged", SBool(field(e1, f) == field(e0, f)))
    if with_ww:
        ex.oblige(f"{P}.ensures.world_writable_cleared_when_fixing",
                  SBool(z3.Implies(field(e0, "kind") != cset.KINDS["sym"], (m1 & 0o002) == 0)))
    else:
        # only the unsafe bits are touched: other permission bits survive
        ex.oblige(f"{P}.ensures.other_mode_bits_kept", SBool((m1 & ~0o6002) == (field(e0, "mode") & ~0o6002)))


# --------------------------------- change_attributes: the callee contract the triggers rely on ----
FS = "src/pkgcore/fs/fs.py"
CLASSES = ("fsFile", "fsDir", "fsLink", "fsDev", "fsFifo")


def t_change_attributes(ex):
    """entry.change_attributes(mode= / uid= / gid=) on an entry of every kind with arbitrary attribute values: raises nothing, returns an entry of
    the same class whose named attribute is the new value and whose every other attribute is the old one (the contract t_premerge assumes)"""
    from pkgcore.fs import fs
    cls_name = CLASSES[ex.choose(len(CLASSES))]
    which = ("mode", "uid", "gid")[ex.choose(3)]
    cls = getattr(fs, cls_name)
    P = f"C23.change_attributes[{cls_name},{which}]"
    it = Interp(ex, label=P)
    fields = {"location": "/x/y"}
    for n in ("mode", "uid", "gid", "mtime"):
        fields[n] = KInt.fresh(n)
        ex.assume(fields[n] >= 0)
    if cls_name == "fsDev":
        # type invariant of a device entry: numbers are >= 0 (0 is a valid major / minor: /dev/mem is 1:1, ram0 is 1:0, nbd0 is 43:0)
        for n in ("major", "minor"):
            fields[n] = KInt.fresh(n)
            ex.assume(fields[n] >= 0)
    if cls_name == "fsLink":
        fields["target"] = "cur/../plugins//x/./"   # a target is opaque text: it is not a path of the image and must come back as it was
    if cls_name == "fsFile":
        from pyvc.sym import KRef
        fields["chksums"] = KRef("Chksums").fresh("chksums")
        fields["data"] = KRef("DataSource").fresh("data")
        if "dev" in getattr(cls, "__attrs__", ()):
            fields["dev"], fields["inode"] = KInt.fresh("dev"), KInt.fresh("inode")
    me = SObj(cls, dict(fields))
    newv = KInt.fresh("new_" + which)
    ex.assume(newv >= 0)
    from pyvc import models as _models
    it.target(FS, "fsBase.change_attributes")   # (registers the extracted text; the call below goes through the entry's own class, overrides included)
    try:
        bound = _models.getattr_(it, me, "change_attributes")
        out = call(it, bound, **{which: newv})
    except Exception:
        raise
    ex.oblige(f"{P}.raises.nothing", not out.raised, kind="exceptional-postcondition")
    if out.raised:
        return
    r = out.value
    ex.oblige(f"{P}.ensures.same_class", isinstance(r, SObj) and r.cls is cls)
    if not isinstance(r, SObj):
        return

    def same(a, b):
        if hasattr(a, "t") and hasattr(b, "t"):
            return SBool(a.t == b.t)
        if hasattr(a, "t") or hasattr(b, "t"):
            at = a.t if hasattr(a, "t") else z3.IntVal(a)
            bt = b.t if hasattr(b, "t") else z3.IntVal(b)
            return SBool(at == bt)
        return a == b or a is b
    ex.oblige(f"{P}.ensures.named_attribute_is_the_new_value", same(r.fields.get(which), newv))
    for n, v in fields.items():
        if n != which:
            ex.oblige(f"{P}.ensures.{n}_unchanged", n in r.fields and same(r.fields[n], v))


# -------------------------------------------------------- bounded enumeration ----
def _mk_entries():
    from pkgcore.fs import fs
    from snakeoil.data_source import data_source
    out = []
    for kind in ("file", "dir", "sym", "fifo"):
        for mode in (0o644, 0o4755, 0o2775, 0o4757, 0o2777, 0o6777, 0o666, 0o1777):
            for uid, gid in ((0, 0), (250, 250), (250, 0), (0, 250)):
                loc = f"/{kind}/{mode:o}/{uid}/{gid}"
                kw = dict(mode=mode, uid=uid, gid=gid, mtime=1, strict=False)
                if kind == "file":
                    out.append(fs.fsFile(loc, data=data_source(b"x"), **kw))
                elif kind == "dir":
                    out.append(fs.fsDir(loc, **kw))
                elif kind == "sym":
                    out.append(fs.fsSymlink(loc, target=("t", "cur/../plugins", "../share/doc/", "./libbar.so", "..//lib//x")[(mode + uid) % 5], **dict(kw, mode=mode & 0o1777)))
                else:
                    out.append(fs.fsFifo(loc, **kw))
    # device nodes, including major / minor 0 (1:0 is ram0, 43:0 nbd0)
    for mode in (0o20644, 0o64757, 0o22777):
        for (major, minor), (uid, gid) in zip(((0, 0), (1, 0), (0, 5), (8, 1)), ((0, 0), (250, 250), (250, 0), (0, 250))):
            out.append(fs.fsDev(f"/dev/{mode:o}/{major}/{minor}", major=major, minor=minor, mode=mode, uid=uid, gid=gid, mtime=1))
    return out


def enum_premerge(seed):
    """single-entry and pair contents sets over 4 kinds x 8 modes x 4 owners, all trigger orders"""
    import random
    from pkgcore.fs.contents import contentsSet
    import pkgcore.merge.triggers as T
    entries = _mk_entries()
    rnd = random.Random(seed)
    sets = [[e] for e in entries] + [rnd.sample(entries, 2) for _ in range(150)] + [rnd.sample(entries, 5) for _ in range(50)]
    engine = types.SimpleNamespace(observer=None)
    cases, fails = 0, []
    for order in itertools.permutations(range(3)):
        trig = [T.fix_uid_perms(250, 0), T.fix_gid_perms(250, 0), T.fix_set_bits()]
        for ents in sets:
            cases += 1
            cs = contentsSet(ents)
            before = {e.location: e for e in ents}
            bad = []
            for i in order:
                try:
                    trig[i].trigger(engine, cs)
                except Exception as e:   # the engine reports and skips a failing trigger: whatever it had not reached stays as it was
                    bad.append(f"{TRIGGERS[i]} raised {type(e).__name__}: {e}")
            if {e.location for e in cs} != set(before):
                bad.append("key set changed")
            for e in cs:
                b = before.get(e.location)
                if b is None:
                    continue
                if not e.is_sym and (e.mode & 0o6000) and (e.mode & 0o002):
                    bad.append(f"{e.location}: mode {e.mode:o} is set-id and world-writable")
                if e.uid == 250 or e.gid == 250:
                    bad.append(f"{e.location}: still owned by build uid/gid ({e.uid}/{e.gid})")
                if type(e) is not type(b) or getattr(e, "target", None) != getattr(b, "target", None) or getattr(e, "data", None) is not getattr(b, "data", None) \
                        or (getattr(e, "major", None), getattr(e, "minor", None)) != (getattr(b, "major", None), getattr(b, "minor", None)):
                    bad.append(f"{e.location}: type/target/data/device numbers changed")
            if bad and len(fails) < 3:
                fails.append({"model": {"entries": [repr(x) for x in ents], "order": [TRIGGERS[i] for i in order]},
                              "detail": f"order {[TRIGGERS[i] for i in order]} on {[repr(x) for x in ents]}: " + "; ".join(bad[:4])})
    return {"name": "C23.pre_merge.bounded_enumeration", "bound": "sets of 1/2/5 entries drawn from 4 kinds x 8 modes x 4 owners plus 12 device nodes (major / minor 0 included), 6 trigger orders",
            "cases": cases, "failures": fails}


def enum_engine(seed):
    """the triggers as a merge gets them: a MergeEngine.install with its default plugins, plus the permission triggers of a configured build
    account (another uid / gid than the default, world-writable bits to be fixed) registered on top, as a domain's triggers are; after the
    pre_merge hook no entry of the set to be merged is owned by that account or is world-writable"""
    import os
    import shutil
    import tempfile
    from pkgcore.fs import fs
    from pkgcore.fs.contents import contentsSet
    from pkgcore.merge import engine as E
    import pkgcore.merge.triggers as T
    from snakeoil.data_source import data_source
    scratch = tempfile.mkdtemp(prefix="c23.", dir=os.environ.get("PYVC_SCRATCH", "/var/tmp"))
    cases, fails = 0, []

    class _Quiet:
        def __getattr__(self, n):
            return lambda *a, **k: None
    try:
        for plugins, extra_first in ((True, False), (True, True), (False, False), (False, True), (False, None), (True, None)):
            if True:
                # (extra_first None: the engine is built without an observer, as its constructors allow; it then reports to an output of its own)
                cases += 1
                root, tmp = os.path.join(scratch, f"r{cases}"), os.path.join(scratch, f"t{cases}")
                os.makedirs(root)
                os.makedirs(tmp)
                ents = [fs.fsDir("/usr", mode=0o755, uid=0, gid=0, mtime=1, strict=False), fs.fsDir("/usr/bin", mode=0o755, uid=4242, gid=4343, mtime=1, strict=False),
                        fs.fsFile("/usr/bin/a", mode=0o755, uid=4242, gid=0, mtime=1, data=data_source(b"x"), strict=False),
                        fs.fsFile("/usr/bin/b", mode=0o666, uid=0, gid=4343, mtime=1, data=data_source(b"x"), strict=False),
                        fs.fsFile("/usr/bin/c", mode=0o4757, uid=4242, gid=4343, mtime=1, data=data_source(b"x"), strict=False)]
                pkg = types.SimpleNamespace(contents=contentsSet(ents), cpvstr="cat/pkg-1")
                model = {"default_plugins": plugins, "observer": "none given" if extra_first is None else "given"}
                try:
                    eng = E.MergeEngine.install(tmp, pkg, offset=root, observer=None if extra_first is None else _Quiet(), disable_plugins=not plugins)
                    own = [T.fix_uid_perms(uid=4242, replacement=0), T.fix_gid_perms(gid=4343, replacement=0), T.detect_world_writable(fix_perms=True), T.fix_set_bits()]
                    for trg in own:
                        trg.register(eng)
                    eng.execute_hook("pre_merge")
                    after = list(eng.csets["new_cset"])
                except Exception as e:
                    fails.append({"model": model, "detail": f"pre_merge of an install engine ({model}) raised {type(e).__name__}: {e}"})
                    continue
                bad = []
                for e in after:
                    if e.uid == 4242 or e.gid == 4343:
                        bad.append(f"{e.location} still belongs to the build account ({e.uid}/{e.gid})")
                    if not e.is_sym and not e.is_dir and e.mode & 0o002:
                        bad.append(f"{e.location} is still world-writable ({e.mode:o})")
                    if not e.is_sym and (e.mode & 0o6000) and (e.mode & 0o002):
                        bad.append(f"{e.location} is set-id and world-writable ({e.mode:o})")
                if len(after) != len(ents):
                    bad.append(f"the set holds {len(after)} entries, the package has {len(ents)}")
                if bad and len(fails) < 4:
                    fails.append({"model": model, "detail": f"install engine ({'default plugins, ' if plugins else 'no plugins, '}the triggers of a configured build account 4242:4343 registered on top), after pre_merge: " + "; ".join(bad[:4])})
    finally:
        shutil.rmtree(scratch, ignore_errors=True)
    return {"name": "C23.engine.bounded_enumeration", "bound": "an install engine with and without its default plugins, the permission triggers of a configured build account registered on top; 5 entries; the set to be merged inspected after pre_merge",
            "cases": cases, "failures": fails}


def tasks():
    fns = [(FILE, f"{n}.trigger") for n in TRIGGERS + ("detect_world_writable",)]
    return [Task("C23.pre_merge", t_premerge, fns, enumerate=enum_premerge),
            Task("C23.engine", None, [("src/pkgcore/merge/engine.py", "MergeEngine.add_trigger"), ("src/pkgcore/merge/engine.py", "MergeEngine.execute_hook")], enumerate=enum_engine),
            Task("C23.change_attributes", t_change_attributes, [(FS, "fsBase.change_attributes"), (FS, "fsBase.__init__"), (FS, "fsDev.__init__"), (FS, "fsFile.__init__"), (FS, "fsFile.change_attributes"), (FS, "fsLink.change_attributes"),
                                                                (FS, "fsLink.__init__")])]


def replay_premerge(model):
    """one-entry contents set with the model's kind/mode/owners through the real triggers"""
    from pkgcore.fs import fs
    from pkgcore.fs.contents import contentsSet
    from snakeoil.data_source import data_source
    import pkgcore.merge.triggers as T
    kind = {0: "file", 1: "dir", 2: "sym", 3: "fifo", 4: "dev"}.get(model["kind"], "file")
    kw = dict(mode=model["mode"] & 0o7777, uid=model["uid"], gid=model["gid"], mtime=1, strict=False)
    loc = "/x"
    e = {"file": lambda: fs.fsFile(loc, data=data_source(b"x"), **kw), "dir": lambda: fs.fsDir(loc, **kw),
         "sym": lambda: fs.fsSymlink(loc, target="t", **kw), "fifo": lambda: fs.fsFifo(loc, **kw),
         "dev": lambda: fs.fsDev(loc, major=1, minor=1, **kw)}[kind]()
    cs = contentsSet([e])
    engine = types.SimpleNamespace(observer=None)
    mk = {"fix_uid_perms": lambda: T.fix_uid_perms(model["bad_uid"], model["good_uid"]),
          "fix_gid_perms": lambda: T.fix_gid_perms(model["bad_gid"], model["good_gid"]),
          "fix_set_bits": lambda: T.fix_set_bits(), "detect_world_writable": lambda: T.detect_world_writable(fix_perms=True)}
    for n in model["order"]:
        mk[n]().trigger(engine, cs)
    out = list(cs)
    bad = []
    if len(out) != 1 or out[0].location != loc:
        bad.append(f"entries now {out}")
    else:
        r = out[0]
        if not r.is_sym and (r.mode & 0o6000) and (r.mode & 0o002):
            bad.append(f"mode {r.mode:o} still set-id and world-writable")
        if r.uid == model["bad_uid"] or r.gid == model["bad_gid"]:
            bad.append(f"still owned by build uid/gid: {r.uid}/{r.gid}")
        if type(r) is not type(e):
            bad.append("type changed")
    return bool(bad), f"{kind} mode={kw['mode']:o} uid={kw['uid']} gid={kw['gid']} through {model['order']}: " + ("; ".join(bad) or "ok")


REPLAY = {"C23.pre_merge": replay_premerge}
