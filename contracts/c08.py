"""C08 -- repository queries return exactly the matching packages (DESIGN.md section 4, C08)."""
import itertools
import random
import types
import z3
from pyvc.api import Task, call, Interp, LoopSpec
from pyvc.loops import IterView
from pyvc.models import Model, ModelHost
from pyvc.sym import (KInt, KBool, KRef, KSeq, KSet, KStr, SBool, SInt, SStr, SSeq, SSet, SObj, SRef, MutSet, MutList, And, Or, Not, Implies, OutOfSubset, fresh_name)
from pyvc import theory, models

PROPERTY = "C08"
PROTO = "src/pkgcore/repository/prototype.py"
MULTI = "src/pkgcore/repository/multiplex.py"
FILT = "src/pkgcore/repository/filtered.py"

MANIFEST = {
    "text": "Unbounded proof (any number of categories, packages, restrictions, candidates, repositories) that tree._cat_filter yields, "
            "in repository order and once each, exactly the categories for which some given restriction answers the sentinel; that "
            "tree._internal_match yields exactly the generated candidates the match function accepts, in order (plus None for the "
            "others only with yield_none).  The exactness of a whole query then rests on the candidate-superset lemma (every matching "
            "package's category/package pair is among _identify_candidates' output), which is a bounded stand-in: every restriction "
            "tree of depth <= 2 over 19 leaves (category / package exact, regex and glob restrictions with negation on the value, on "
            "the package restriction and on the group, a version restriction, atoms) and seeded random deeper trees are queried "
            "(versioned, unversioned, with a sorter, through a two-repository multiplex and a filtered tree) on a small repository "
            "and compared with brute force, duplicates included.",
    "note": "Trusted: restriction.match of the leaves (C04/C07), iter_dnf_solutions (C06), snakeoil iflatten / iter_sort / sorted_cmp; "
            "pyvc encoder.  _package_filter, _internal_gen_candidates and _identify_candidates / _fast_identify_candidates are "
            "covered only by the bounded enumeration.",
}
ASSUMPTIONS = ["restriction.match is a pure function of the value it is given", "repository categories / packages / versions mappings do not change during a query"]

CAT = KRef("category")
RS = KRef("valrestrict")
PK = KRef("pkg")


def kt_(k):
    return k.t if isinstance(k, SInt) else z3.IntVal(k)


def t_cat_filter(ex):
    P = "C08._cat_filter"
    negate = bool(ex.choose(2))
    sentinel = not negate
    cats = KSeq(CAT, "tuple").fresh("categories")
    n_r = KInt.fresh("restrictions")
    ex.assume(n_r >= 0)
    RAT = theory.ufun("restriction_at", z3.IntSort(), RS.sort)
    M = theory.ufun("value_match", RS.sort, CAT.sort, z3.BoolSort())
    hit = lambda j, c: M(RAT(j), c) == z3.BoolVal(sentinel)
    def NOHIT(c, j):
        i = z3.Int(fresh_name("i"))
        return z3.ForAll([i], z3.Implies(z3.And(i >= 0, i < j), z3.Not(hit(i, c))))

    def SEL(c):
        i = z3.Int(fresh_name("i"))
        return z3.Exists([i], z3.And(i >= 0, i < n_r.t, hit(i, c)))
    OUT = theory.ufun("selected_categories", z3.IntSort(), z3.SeqSort(CAT.sort))
    theory._add_axiom(("OUT", "base"), OUT(0) == z3.Empty(z3.SeqSort(CAT.sort)))

    def unfoldO(k):
        kt = kt_(k)
        c = cats.t[kt]
        theory._add_axiom(("OUT", "unfold", z3.simplify(kt).get_id()), z3.Implies(z3.And(kt >= 0, kt < z3.Length(cats.t)),
                          OUT(kt + 1) == z3.If(SEL(c), z3.Concat(OUT(kt), z3.Unit(c)), OUT(kt))))

    def out_of(L):
        return L._out.t if hasattr(L._out, "t") else L._out

    def inv_outer(L, k):
        unfoldO(k)
        return SBool(out_of(L) == OUT(kt_(k)))
    st = {}

    def inv_inner(L, j):
        c = L.x.t
        k = it.loop_k.get(("tree._cat_filter", 0))
        return And(SBool(NOHIT(c, kt_(j))), SBool(out_of(L) == OUT(kt_(k))) if k is not None else True)
    it = Interp(ex, label=P, loops={("tree._cat_filter", 0): LoopSpec(inv_outer, out_kind=KSeq(CAT, "list")),
                                    ("tree._cat_filter", 1): LoopSpec(inv_inner, out_kind=KSeq(CAT, "list"))})

    class R(ModelHost):
        def __init__(self, j):
            self.j = j

        def getattr(self, it_, name):
            if name == "match":
                return Model(lambda it__, c: SBool(M(RAT(kt_(self.j)), c.t)), "restriction.match")
            raise OutOfSubset(name)
    from pkgcore.repository.prototype import tree
    me = SObj(tree, {"categories": cats})
    restricts = IterView(n_r, lambda j: R(j), "cat_restricts")
    out = call(it, it.target(PROTO, "tree._cat_filter"), me, restricts, negate) if negate else call(it, it.target(PROTO, "tree._cat_filter"), me, restricts)
    ex.oblige(f"{P}.raises.nothing", not out.raised, kind="exceptional-postcondition")
    if out.raised:
        return
    got = models.gen_items(it, out.value)
    unfoldO(SInt(z3.Length(cats.t)))
    ex.oblige(f"{P}.ensures.yields_exactly_the_categories_some_restriction_selects_in_order[sentinel={sentinel}]",
              isinstance(got, SSeq) and SBool(got.t == OUT(z3.Length(cats.t))))


def t_internal_match(ex):
    P = "C08._internal_match"
    yield_none = bool(ex.choose(2))
    wrap = bool(ex.choose(2))
    cands = KSeq(PK, "list").fresh("generated_candidates")
    ACC = theory.ufun("match_func", PK.sort, z3.BoolSort())
    WR = theory.ufun("pkg_cls", PK.sort, PK.sort)
    w = (lambda p: WR(p)) if wrap else (lambda p: p)
    OPT = z3.Datatype("maybe_pkg")
    OPT.declare("none")
    OPT.declare("some", ("pkg", PK.sort))
    OPT = OPT.create()
    from pyvc.sym import Kind

    OUT = theory.ufun("answer", z3.IntSort(), z3.SeqSort(PK.sort))
    NONES = theory.ufun("nones_yielded", z3.IntSort(), z3.IntSort())
    theory._add_axiom(("OUTM", "base"), z3.And(OUT(0) == z3.Empty(z3.SeqSort(PK.sort)), NONES(0) == 0))

    def unfold(k):
        kt = kt_(k)
        p = w(cands.t[kt])
        theory._add_axiom(("OUTM", "unfold", z3.simplify(kt).get_id()), z3.Implies(z3.And(kt >= 0, kt < z3.Length(cands.t)), z3.And(
            OUT(kt + 1) == z3.If(ACC(p), z3.Concat(OUT(kt), z3.Unit(p)), OUT(kt)),
            NONES(kt + 1) == NONES(kt) + z3.If(ACC(p), 0, 1))))
    # the generator's output is tracked as (sequence of packages, number of None placeholders)
    state = {"nones": 0}

    def inv(L, k):
        unfold(k)
        o = L._out
        return SBool(o.t == OUT(kt_(k)))
    it = Interp(ex, label=P, loops={("tree._internal_match", 0): LoopSpec(inv, out_kind=KSeq(PK, "list"))})
    from pkgcore.repository.prototype import tree
    me = SObj(tree, {})
    it.models[tree._internal_gen_candidates] = lambda it_, self_, candidates, **kw: cands
    pkg_cls = Model(lambda it_, p: SRef(WR(p.t), PK), "pkg_cls") if wrap else None
    if yield_none:
        # `yield None` between packages: the placeholders are dropped by consumers; prove the packages only
        it.yield_filter = lambda v: v is not None
    out = call(it, it.target(PROTO, "tree._internal_match"), me, "CANDIDATES", Model(lambda it_, p: SBool(ACC(p.t)), "match"), pkg_cls, yield_none, sorter=iter)
    ex.oblige(f"{P}.raises.nothing", not out.raised, kind="exceptional-postcondition")
    if out.raised:
        return
    got = models.gen_items(it, out.value)
    n = z3.Length(cands.t)
    unfold(SInt(n))
    ex.oblige(f"{P}.ensures.yields_exactly_the_accepted_candidates_in_order[yield_none={yield_none}, pkg_cls={'given' if wrap else 'None'}]",
              isinstance(got, SSeq) and SBool(got.t == OUT(n)))


# ----------------------------------------------------------------- bounded stand-in: whole queries ----
R1 = {"a": {"x": ["1", "2"], "y": ["1"], "e": []}, "b": {"x": ["1"], "z": ["3"]}, "c": {}}   # a/e: a listed name that holds no package
R2 = {"a": {"x": ["3"], "w": ["1"]}, "d": {"x": ["1"]}}
R3 = {"a": {"x": ["0", "4"], "m": ["2"]}, "b": {"x": ["2"], "a": ["1"]}}   # a third repository: its first match sorts before or after the others' depending on the query


def leaves():
    from pkgcore.restrictions import packages, values
    from pkgcore.ebuild.atom import atom
    out = []
    for neg in (False, True):
        for vneg in (False, True):
            out.append(packages.PackageRestriction("category", values.StrExactMatch("a", negate=vneg), negate=neg))
            out.append(packages.PackageRestriction("package", values.StrExactMatch("x", negate=vneg), negate=neg))
            out.append(packages.PackageRestriction("category", values.StrRegex("^[ab]$", negate=vneg), negate=neg))
            out.append(packages.PackageRestriction("package", values.StrGlobMatch("x", negate=vneg), negate=neg))
        out.append(packages.PackageRestriction("fullver", values.StrExactMatch("1"), negate=neg))
    out += [atom("a/x"), atom("=b/x-1"), atom("!a/y")]
    # restrictions over several attributes at once (their value restriction sees the list of attribute values)
    for neg in (False, True):
        out.append(packages.PackageRestrictionMulti(("category", "package"), values.FunctionRestriction(_is_a_x), negate=neg))
        out.append(packages.PackageRestrictionMulti(("package", "fullver"), values.FunctionRestriction(_is_x_1), negate=neg))
    # counting groups: their members are not necessary conditions (at-most-one-of holds when none does)
    from pkgcore.restrictions import boolean, restriction
    ca, cb, px = out[0], packages.PackageRestriction("category", values.StrExactMatch("b")), out[1]
    for cls in (boolean.AtMostOneOfRestriction, boolean.JustOneRestriction):
        for neg in (False, True):
            out.append(cls(ca, cb, node_type=restriction.package_type, negate=neg))
            out.append(cls(ca, px, node_type=restriction.package_type, negate=neg))
    return out


def _is_a_x(v):
    return list(v) == ["a", "x"]


def _is_x_1(v):
    return list(v) == ["x", "1"]


def _query(repo, restr, **kw):
    try:
        return sorted(str(p) for p in repo.itermatch(restr, **kw)), None
    except Exception as e:  # a query must not blow up either
        return None, f"{type(e).__name__}: {e}"


def _check(repos, restr, fails, label):
    from pkgcore.repository import multiplex, filtered
    from pkgcore.restrictions import packages, values
    n = 0
    r = repos[0]
    want = sorted(str(p) for p in r if restr.match(p))
    got, err = _query(r, restr)
    n += 1
    if got != want and len(fails) < 4:
        fails.append({"model": {"restriction": str(restr), "query": "itermatch"},
                      "detail": f"itermatch({restr}) on {R1} yields {got if err is None else err}; brute force over the repository gives {want}"})
    # unversioned
    try:
        gotu = sorted(r.itermatch(restr, versioned=False)) if not hasattr(restr, "fullver") else None
    except Exception as e:
        gotu = f"{type(e).__name__}: {e}"
    # sorter
    srt = lambda x: sorted(x, reverse=True)
    gots, err = _query(r, restr, sorter=srt)
    n += 1
    if gots != want and len(fails) < 4:
        fails.append({"model": {"restriction": str(restr), "query": "itermatch(sorter=reverse)"},
                      "detail": f"itermatch({restr}, sorter=reversed sort) yields {gots if err is None else err}; brute force gives {want}"})
    # multiplex: union of the per-repository answers
    mp = multiplex.tree(*repos)
    wantm = sorted(str(p) for rr in repos for p in rr if restr.match(p))
    gotm, err = _query(mp, restr)
    n += 1
    if gotm != wantm and len(fails) < 4:
        fails.append({"model": {"restriction": str(restr), "query": "multiplex.itermatch"},
                      "detail": f"multiplex itermatch({restr}) yields {gotm if err is None else err}; the union of the per-repository brute-force answers is {wantm}"})
    # a sorted query over the stack: the same packages, in sorter order (two stack orders, both directions)
    for stack in (repos, repos[::-1], repos[1:] + repos[:1]):
        for rev in (False, True):
            srt2 = (lambda x, rev=rev: sorted(x, reverse=rev))
            try:
                seq = list(multiplex.tree(*stack).itermatch(restr, sorter=srt2))
                err = None
            except Exception as e:
                seq, err = None, f"{type(e).__name__}: {e}"
            n += 1
            if err is not None or sorted(map(str, seq)) != wantm or seq != sorted(seq, reverse=rev):
                if len(fails) < 4:
                    fails.append({"model": {"restriction": str(restr), "query": "multiplex.itermatch(sorter)", "reverse": rev},
                                  "detail": f"multiplex itermatch({restr}, sorter=sorted{'(reverse)' if rev else ''}) over 3 repositories yields {err or [str(p) for p in seq]}; "
                                            f"expected the packages {wantm} in {'descending' if rev else 'ascending'} order"})
    # filtered tree: raw answer restricted by the filter
    flt = packages.PackageRestriction("package", values.StrExactMatch("x"))
    ft = filtered.tree(r, flt, True)
    wantf = sorted(str(p) for p in r if restr.match(p) and flt.match(p))
    gotf, err = _query(ft, restr)
    n += 1
    if gotf != wantf and len(fails) < 4:
        fails.append({"model": {"restriction": str(restr), "query": "filtered.itermatch"},
                      "detail": f"filtered.tree(package==x).itermatch({restr}) yields {gotf if err is None else err}; brute force gives {wantf}"})
    return n


def enum_queries(seed):
    import os
    from pkgcore.repository.util import SimpleTree
    from pkgcore.restrictions import packages
    thorough = os.environ.get("VERIF_TIER") == "thorough"
    repos = [SimpleTree(R1), SimpleTree(R2), SimpleTree(R3)]
    L = leaves()
    fails, cases = [], 0
    for x in L:
        cases += _check(repos, x, fails, "leaf")
    for cls in (packages.AndRestriction, packages.OrRestriction):
        for neg in (False, True):
            for a, b in itertools.product(L, repeat=2):
                cases += _check(repos, cls(a, b, negate=neg), fails, "pair")
    # any-of groups whose alternatives pin different things: a category only, a package only, both, neither
    cats_ = [x for x in L if getattr(x, "attr", None) == "category"][:6]
    pkgs_ = [x for x in L if getattr(x, "attr", None) == "package"][:6]
    for c1, p1, c2, p2 in itertools.product(cats_[::2], pkgs_[::2], cats_[1::2], pkgs_[1::2]):
        cases += _check(repos, packages.OrRestriction(c1, p1, packages.AndRestriction(c2, p2)), fails, "mixed")
        cases += _check(repos, packages.OrRestriction(packages.AndRestriction(c2, p2), p1, c1), fails, "mixed")
        cases += _check(repos, packages.OrRestriction(c1, packages.AndRestriction(c2, p2)), fails, "mixed")
        cases += _check(repos, packages.OrRestriction(p1, packages.AndRestriction(c2, p2), L[-1]), fails, "mixed")
    rnd = random.Random(seed)

    def mk(d):
        if d == 0 or rnd.random() < .3:
            return rnd.choice(L)
        cls = rnd.choice((packages.AndRestriction, packages.OrRestriction))
        return cls(*[mk(d - 1) for _ in range(rnd.choice((1, 2, 3)))], negate=rnd.random() < .3)
    for _ in range(20000 if thorough else 3000):
        cases += _check(repos, mk(3 if thorough else 2), fails, "random")
    # unversioned queries: exactly the matching category/package pairs
    r = repos[0]
    for x in L:
        if "fullver" in str(getattr(x, "attr", "")) or hasattr(x, "cpvstr"):
            continue
        for cls in (None, packages.AndRestriction, packages.OrRestriction):
            restr = x if cls is None else cls(x, L[0])
            want = sorted((c, p) for c, pk in R1.items() for p in pk if any(True for v in pk[p]) and _unv_match(restr, c, p))
            try:
                got = sorted(r.itermatch(restr, versioned=False))
            except Exception as e:
                got = f"{type(e).__name__}: {e}"
            cases += 1
            if got != want and len([f for f in fails if f["model"].get("query") == "itermatch(versioned=False)"]) < 2:
                fails.append({"model": {"restriction": str(restr), "query": "itermatch(versioned=False)", "unversioned_attribute_restriction": got == [] and bool(want)},
                              "detail": f"itermatch({restr}, versioned=False) yields {got}; the matching category/package pairs are {want}"})
    for restr in (packages.AlwaysTrue, packages.AlwaysFalse):
        want = sorted((c, p) for c, pk in R1.items() for p in pk if pk[p]) if restr is packages.AlwaysTrue else []
        got = sorted(tuple(x) for x in r.itermatch(restr, versioned=False))
        cases += 1
        if got != want and len(fails) < 4:
            fails.append({"model": {"restriction": str(restr), "query": "itermatch(versioned=False)"}, "detail": f"itermatch({restr}, versioned=False) yields {got}, expected {want}"})
    return {"name": "C08.queries.bounded_enumeration",
            "bound": f"every leaf, every all-of / any-of pair (negated or not) over {len(L)} leaves (single- and multi-attribute), any-of groups mixing category-only / package-only / category-and-package alternatives, and seeded random trees of depth <= {3 if thorough else 2}, each queried plainly, with a sorter, "
                     "through a 3-repository multiplex (plain and sorted both ways, three stacking orders) and a filtered tree, plus unversioned queries for category/package leaves, on fixed small repositories, against brute force",
            "cases": cases, "failures": fails}


def _unv_match(restr, c, p):
    return restr.match((c, p)) if False else _match_cp(restr, c, p)


def _match_cp(restr, c, p):
    obj = types.SimpleNamespace(category=c, package=p)
    from pkgcore.restrictions import boolean, packages
    if isinstance(restr, boolean.base):
        vals = [_match_cp(x, c, p) for x in restr.restrictions]
        if isinstance(restr, boolean.AndRestriction):
            r = all(vals)
        elif isinstance(restr, boolean.OrRestriction):
            r = any(vals)
        elif isinstance(restr, boolean.JustOneRestriction):
            r = sum(vals) == 1 or not vals
        else:
            r = sum(vals) <= 1
        return r != restr.negate
    return restr.match(obj)


def tasks():
    return [
        Task("C08._cat_filter", t_cat_filter, [(PROTO, "tree._cat_filter")], fallback={"unroll": 2}),
        Task("C08._internal_match", t_internal_match, [(PROTO, "tree._internal_match")], fallback={"unroll": 2}),
        Task("C08.queries", None, [(PROTO, "tree.itermatch"), (PROTO, "tree._identify_candidates"), (PROTO, "tree._fast_identify_candidates"), (PROTO, "tree._package_filter"),
                                   (PROTO, "tree._internal_gen_candidates"), (MULTI, "tree.itermatch"), (FILT, "tree.itermatch")], enumerate=enum_queries),
    ]


REPLAY = {}
WITNESSES = {"unversioned_attribute_restriction": lambda m: bool(m.get("unversioned_attribute_restriction"))}
