"""C17 -- planner rollback restores the exact earlier state (DESIGN.md section 4, C17).

Three layers.  (1) Proved, for an arbitrary planner state: every operation class's revert undoes its apply (C17.operations; the state is
abstracted to total maps, see the comment above t_ops).  (2) plan_state.backtrack calls revert once per newer operation, newest first,
and cuts the plan at the position -- checked for plans of <= 4 operations (bounded: the loop runs over enumerate(reversed(slice))).
(3) A bounded, exhaustive enumeration of planner histories on the real code, compared with a replay of the surviving prefix.
The step from (1) + (2) to the statement is an induction over the plan that is argued in DESIGN.md, not machine-checked, which is why
the level stays `other`."""
import itertools
from pyvc.api import Task

PROPERTY = "C17"
FILE = "src/pkgcore/resolver/state.py"
LEVEL = "other"
EXPLANATION = ("per-operation proofs plus bounded stand-ins: (1) unbounded proof, for an arbitrary planner state abstracted to its components "
               "(slot table, limiters, package-to-choice bindings keyed by ==, reverse blocker lists, the three reference-counted sets), that for "
               "add / remove / replace / incref / decref / hardref / backref operations revert restores every component apply changed, that a "
               "refused add or replace leaves the state unchanged and records nothing, and that replace and remove hand the displaced package's "
               "blockers to decref operations of their own; (2) plan_state.backtrack on plans of <= 4 operations, every position and every "
               "failing revert: reverts newest first, once each, cuts the plan at the position (bounded); (3) every history of up to 4 planner "
               "operations over 5 packages (two sharing key and slot, two equal but distinct: one version from two repositories), 3 blockers with "
               "fixed match tables and 2 choice points is applied to the real plan_state, rolled back to every earlier position and compared, as "
               "multisets, with a replay of the surviving prefix (bounded).  The induction from (1) and (2) to whole histories is not machine-checked.")
MANIFEST = {
    "category": "other",
    "text": EXPLANATION,
    "note": "Trusted in (1): PigeonHoledSlots' methods follow the ghost slot table (fill appends iff no conflict or forced, remove drops every "
            "occurrence of that object, limiters likewise), RefCountingSet counts, dict keys compare by ==; caller preconditions (a package object "
            "is planned once, remove / replace name a planned package, replace is never forced).  _remove_pkg_blockers' loop is abstracted by its "
            "contract (one decref operation per blocker).  Bounded in (2), (3).  KF-C17-1 is visible in (1) as replace_op.revert raising when the "
            "limiter answer before and after dropping the displaced package's own blockers differ.",
    "technique": "contract proofs per operation over an abstract state (z3 arrays) + bounded loop / history enumeration on the real code (labelled bounded)",
}
ASSUMPTIONS = ["bounded universe in the history enumeration: 5 packages, 3 blockers, 2 choice points, histories of <= 4 operations",
               "states are compared as multisets (a reverted remove re-appends at the end of a slot list)",
               "RefCountingSet and dict behave as the ghost state of C17.operations says (their code is not under contract here)",
               "PigeonHoledSlots behaves as the ghost slot table of C17.operations says: proved for remove_slotting, remove_limiter, check_limiters (own contracts, all list lengths, entries as sets -- order and multiplicity of what stays not covered) , find_atom_matches and get_conflicting_slot (first entry in the slot, loop invariant); fill_slotting and add_limiter stay assumed, compared with the real class on every sequence of <= 4 calls (bounded)",
               "the induction over the plan (each revert meets the state its apply left, because newer operations are reverted first) is argued, not machine-checked"]


class Pkg:
    """compares and hashes like pkgcore packages do: by key and version, not by identity or repository (foo-1 and foo-1@bin are equal,
    distinct objects: the same version offered by two repositories)"""

    def __init__(self, name, key, slot):
        self.name, self.key, self.slot = name, key, slot
        self.ident = (key, name.split("@")[0])

    def __repr__(self):
        return self.name

    def __eq__(self, o):
        return isinstance(o, Pkg) and self.ident == o.ident

    def __ne__(self, o):
        return not self == o

    def __hash__(self):
        return hash(self.ident)


def _universe():
    from pkgcore.restrictions import restriction
    pkgs = [Pkg("foo-1", "cat/foo", "0"), Pkg("foo-2", "cat/foo", "0"), Pkg("foo-3", "cat/foo", "1"), Pkg("bar-1", "cat/bar", "0"), Pkg("foo-1@bin", "cat/foo", "0")]

    class Blocker(restriction.base):
        __slots__ = ("name", "key", "hits")

        def __init__(self, name, key, hits):
            object.__setattr__(self, "name", name)
            object.__setattr__(self, "key", key)
            object.__setattr__(self, "hits", hits)

        def match(self, pkg):
            return pkg.name.split("@")[0] in self.hits

        def __repr__(self):
            return self.name

        def __hash__(self):
            return hash(self.name)

        def __eq__(self, o):
            return self is o
    blockers = [Blocker("!foo<2", "cat/foo", frozenset({"foo-1"})), Blocker("!foo", "cat/foo", frozenset({"foo-1", "foo-2", "foo-3"})), Blocker("!bar", "cat/bar", frozenset({"bar-1"}))]
    return pkgs, blockers


def _snapshot(p):
    ms = lambda xs: sorted(map(repr, xs))
    return {
        "slots": {k: ms(v) for k, v in p.state.slot_dict.items()},
        "limiters": {k: ms(v) for k, v in p.state.limiters.items()},
        "pkg_choices": sorted((repr(k), repr(v)) for k, v in p.pkg_choices.items()),
        "rev_blockers": {repr(k): ms(v) for k, v in p.rev_blockers.items()},
        "refcnt": sorted((repr(k), v) for k, v in dict(p.blockers_refcnt).items()),
        "vdb_filter": ms(p.vdb_filter),
        "forced": sorted((repr(k), v) for k, v in dict(p.forced_restrictions).items()),
        "plan_len": len(p.plan),
    }


def _ops(pkgs, blockers):
    import pkgcore.resolver.state as S
    choices = ["cp1", "cp2"]
    ops = []
    class Skip(Exception):
        pass

    def need(cond):
        if not cond:
            raise Skip()

    # caller preconditions of the planner API (the resolver never plans a package twice, removes only planned
    # packages, replaces only an occupied slot): histories violating them are skipped, not counted
    def add(plan, p, c, force):
        need(p not in plan.pkg_choices)
        return S.add_op(c, p, force=force).apply(plan)

    def remove(plan, p):
        need(any(k is p for k in plan.pkg_choices))
        return S.remove_op(plan.pkg_choices[p], p).apply(plan)

    def replace(plan, p):
        need(not any(k is p for k in plan.pkg_choices) and plan.state.get_conflicting_slot(p) is not None)
        if plan.state.check_limiters(plan.state.get_conflicting_slot(p)):
            plan.kf_replace_of_blocked = True  # input feature used by known finding KF-C17-1
        return S.replace_op(choices[1], p).apply(plan)
    for p in pkgs:
        ops.append(("add " + p.name, lambda plan, p=p: add(plan, p, choices[0], False)))
        ops.append(("add! " + p.name, lambda plan, p=p: add(plan, p, choices[1], True)))
        ops.append(("remove " + p.name, lambda plan, p=p: remove(plan, p)))
        ops.append(("replace-> " + p.name, lambda plan, p=p: replace(plan, p)))
    for b in blockers:
        for c in choices:
            ops.append((f"block {b.name}@{c}", lambda plan, b=b, c=c: plan.add_blocker(c, b)))
    ops.append(("hardref", lambda plan: S.add_hardref_op(blockers[0]).apply(plan)))
    _ops.Skip = Skip
    return ops


def _run(history, ops):
    """apply the history on a fresh plan_state; an operation whose precondition fails (KeyError/AssertionError/TypeError:
    removing an unplanned package, replacing nothing) ends the history there.  Returns (plan, positions after each op)."""
    import pkgcore.resolver.state as S
    plan = S.plan_state()
    marks = [0]
    for i in history:
        before = _snapshot(plan)
        try:
            ops[i][1](plan)
        except _ops.Skip:
            break
        except (KeyError, AssertionError, TypeError, AttributeError) as e:
            return plan, marks, f"operation {ops[i][0]} raised {e!r} although its precondition held"
        marks.append(len(plan.plan))
    return plan, marks, None


def _room(fails, flagged):
    """keep a few examples of each input class: at most 3 with the KF-C17-1 feature, at most 20 without"""
    n = sum(1 for f in fails if bool(f["model"].get("replace_of_blocked_occupant")) == bool(flagged))
    return n < (3 if flagged else 20)


def enum_histories(seed):
    pkgs, blockers = _universe()
    ops = _ops(pkgs, blockers)
    cases, fails = 0, []
    seen_prefix = {}
    maxlen = 4
    # length-4 histories are sampled by stride to keep the quick run short; lengths 1-3 are exhaustive
    for n in range(1, maxlen + 1):
        hs = itertools.product(range(len(ops)), repeat=n)
        if n == maxlen:
            hs = itertools.islice(hs, seed % 7, None, 7)
        for h in hs:
            plan, marks, err = _run(h, ops)
            if err and _room(fails, getattr(plan, "kf_replace_of_blocked", False)):
                fails.append({"model": {"history": [ops[i][0] for i in h], "replace_of_blocked_occupant": getattr(plan, "kf_replace_of_blocked", False)}, "detail": err})
                continue
            if len(marks) - 1 < n:
                continue  # history was cut short: covered at its own length
            for cut in range(len(marks) - 1):
                cases += 1
                key = h[:cut]
                if key not in seen_prefix:
                    seen_prefix[key] = _snapshot(_run(key, ops)[0])
                want = seen_prefix[key]
                p2, _, _ = _run(h, ops)
                try:
                    p2.backtrack(marks[cut])
                    got = _snapshot(p2)
                    exc = None
                except Exception as e:  # noqa
                    got, exc = None, e
                if (got != want) and _room(fails, getattr(plan, "kf_replace_of_blocked", False)):
                    diff = {k: (got[k], want[k]) for k in want if got and got[k] != want[k]} if got else repr(exc)
                    fails.append({"model": {"history": [ops[i][0] for i in h], "rollback_to": cut,
                                            "replace_of_blocked_occupant": getattr(plan, "kf_replace_of_blocked", False)},
                                  "detail": f"history {[ops[i][0] for i in h]} rolled back to position {cut}: state differs from replaying the prefix: {diff}"})
    return {"name": "C17.plan_state.backtrack.bounded_enumeration",
            "bound": f"histories of <= {maxlen} operations (length {maxlen} sampled 1/7) over {len(ops)} operations on 5 packages, 3 blockers, 2 choice points; every rollback position",
            "cases": cases, "failures": fails}


def enum_slot_table(seed):
    """the slot table the operations undo themselves on: the real PigeonHoledSlots against the table that C17.operations assumes of it (fill
    appends iff nothing conflicts or the add is forced and reports the conflicts; remove drops every occurrence of THAT OBJECT -- an equal
    package from another repository stays -- and raises KeyError when it is absent; limiters likewise) -- every sequence of <= 4 calls"""
    from pkgcore.resolver.pigeonholes import PigeonHoledSlots
    pkgs, blockers = _universe()
    calls = [("fill", p, f) for p in pkgs for f in (False, True)] + [("remove", p, None) for p in pkgs] + [("limit", b, None) for b in blockers] + [("unlimit", b, None) for b in blockers]
    ids = lambda xs: [id(x) for x in xs]
    cases, fails = 0, []
    for n in range(1, 5):
        seqs = itertools.product(range(len(calls)), repeat=n)
        if n == 4:
            seqs = itertools.islice(seqs, seed % 11, None, 11)
        for seq in seqs:
            cases += 1
            real, slots, lims = PigeonHoledSlots(), {}, {}
            for step, i in enumerate(seq):
                kind, x, force = calls[i]
                try:
                    if kind == "fill":
                        want = [b for b in lims.get(x.key, []) if b.match(x)] + [y for y in slots.get(x.key, []) if y.slot == x.slot]
                        if not want or force:
                            slots.setdefault(x.key, []).append(x)
                        got = real.fill_slotting(x, force=force)
                    elif kind == "remove":
                        left = [y for y in slots.get(x.key, []) if y is not x]
                        want = KeyError if len(left) == len(slots.get(x.key, [])) else None
                        if want is None:
                            slots[x.key] = left
                            if not left:
                                del slots[x.key]
                        got = real.remove_slotting(x)
                    elif kind == "limit":
                        lims.setdefault(x.key, []).append(x)
                        want = [y for y in slots.get(x.key, []) if x.match(y)]
                        got = real.add_limiter(x)
                    else:
                        left = [y for y in lims.get(x.key, []) if y is not x]
                        want = KeyError if len(left) == len(lims.get(x.key, [])) else None
                        if want is None:
                            lims[x.key] = left
                            if not left:
                                del lims[x.key]
                        got = real.remove_limiter(x)
                except KeyError:
                    got = KeyError
                except Exception as e:
                    got = f"{type(e).__name__}: {e}"
                same_ret = (got is want) if (want is None or want is KeyError or not isinstance(got, list)) else ids(got) == ids(want)
                same_state = {k: ids(v) for k, v in real.slot_dict.items()} == {k: ids(v) for k, v in slots.items()} and \
                    {k: ids(v) for k, v in real.limiters.items()} == {k: ids(v) for k, v in lims.items()}
                if not (same_ret and same_state):
                    if len(fails) < 5:
                        hist = [f"{calls[j][0]} {calls[j][1]!r}{' forced' if calls[j][2] else ''}" for j in seq[:step + 1]]
                        fails.append({"model": {"calls": hist}, "detail": f"PigeonHoledSlots after {hist}: returned {got!r}, slot table {real.slot_dict}, limiters {real.limiters}; "
                                                                          f"the table the planner's operations rely on: returns {want!r}, slots {slots}, limiters {lims} (objects compared by identity)"})
                    break
    return {"name": "C17.PigeonHoledSlots.bounded_enumeration", "bound": f"every sequence of <= 3 calls and 1/11 of the 4-call sequences over {len(calls)} calls (fill / forced fill / remove of 5 packages, two of them equal but "
            "distinct objects; add / remove of 3 limiters), return value and both tables compared by object identity after every call", "cases": cases, "failures": fails}


# =============================================================== per-operation proofs: revert undoes apply ====
# The planner state is abstracted to its components as total maps (multiplicities for the list- and refcount-shaped ones):
#   slots : package object -> how often it sits in the slot table           (PigeonHoledSlots.slot_dict, keyed by identity)
#   lims  : (blocker, key) -> how often it is an active limiter             (PigeonHoledSlots.limiters)
#   has / val : package (by ==) -> bound?, its choice point                  (plan.pkg_choices, a dict: keys compare by ==)
#   rev   : (choice point, blocker, key) -> multiplicity                    (plan.rev_blockers, lists; an emptied list is dropped)
#   refs / vdb / forced : blocker / package (by ==) / restriction -> count  (RefCountingSets)
# Every operation's apply is run on an arbitrary such state, then its revert on the state apply left; the obligation is that every
# component is back to what it was.  plan_state.backtrack is proved to call revert once per operation after the position, newest
# first, and to cut the plan there; by induction over the plan (the state revert meets is the one apply left, because everything
# newer has been reverted already) rollback restores the state at the position.
import z3
from pyvc.api import call, Interp, LoopSpec
from pyvc.interp import PyRaise
from pyvc.models import Model, ModelHost
from pyvc.sym import KRef, KBool, KInt, SBool, SInt, SObj, SRef, And, Or, Not, OutOfSubset, fresh_name
from pyvc import theory

PkgK, AtomK, ChoiceK, KeyK = KRef("Pkg"), KRef("Blocker"), KRef("ChoicePoint"), KRef("Key")
_EQ = z3.DeclareSort("PkgEqClass")


class _State:
    """the abstract planner state (z3 arrays), mutated by the ghost objects below"""
    COMPONENTS = ("slots", "lims", "has", "val", "rev", "revlen", "revhas", "refs", "vdb", "forced")

    def __init__(self, tag):
        A = z3.ArraySort
        I = z3.IntSort()
        self.slots = z3.Const(fresh_name(tag + "_slots"), A(PkgK.sort, I))
        self.lims = z3.Const(fresh_name(tag + "_lims"), A(AtomK.sort, A(KeyK.sort, I)))
        self.has = z3.Const(fresh_name(tag + "_has"), A(_EQ, z3.BoolSort()))
        self.val = z3.Const(fresh_name(tag + "_val"), A(_EQ, ChoiceK.sort))
        self.rev = z3.Const(fresh_name(tag + "_rev"), A(ChoiceK.sort, A(AtomK.sort, A(KeyK.sort, I))))
        self.revlen = z3.Const(fresh_name(tag + "_revlen"), A(ChoiceK.sort, I))
        self.revhas = z3.Const(fresh_name(tag + "_revhas"), A(ChoiceK.sort, z3.BoolSort()))   # the dict holds a list for that choice point
        self.refs = z3.Const(fresh_name(tag + "_refs"), A(AtomK.sort, I))
        self.vdb = z3.Const(fresh_name(tag + "_vdb"), A(_EQ, I))
        self.forced = z3.Const(fresh_name(tag + "_forced"), A(AtomK.sort, I))
        self.appended = []

    def snapshot(self):
        return {c: getattr(self, c) for c in self.COMPONENTS}


def _ghost_plan(ex, st, cls_of, conflicts):
    """plan_state as the operations see it; `conflicts(kind, obj)` supplies the (arbitrary) answer of the slot table's conflict queries"""
    def raise_(e):
        raise PyRaise(e)

    class Slots(ModelHost):
        def getattr(self, it, name):
            if name == "fill_slotting":
                def f(it_, obj, force=False):
                    l = conflicts("fill", obj)
                    ins = Or(Not(SBool(l.length().t > 0)), force if isinstance(force, SBool) else SBool(z3.BoolVal(bool(force))))
                    st.slots = z3.If(ins.t, z3.Store(st.slots, obj.t, st.slots[obj.t] + 1), st.slots)
                    return l
                return Model(f, "PigeonHoledSlots.fill_slotting")
            if name == "remove_slotting":
                def f(it_, obj):
                    if not ex.branch(SBool(st.slots[obj.t] > 0)):
                        raise_(KeyError("obj isn't slotted"))
                    st.slots = z3.Store(st.slots, obj.t, 0)     # every occurrence of that object goes (the filter is `x is not obj`)
                return Model(f, "PigeonHoledSlots.remove_slotting")
            if name == "get_conflicting_slot":
                return Model(lambda it_, pkg: conflicts("occupant", pkg), "PigeonHoledSlots.get_conflicting_slot")
            if name == "check_limiters":
                return Model(lambda it_, obj: conflicts("limiters", obj), "PigeonHoledSlots.check_limiters")
            if name == "add_limiter":
                def f(it_, atom, key=None):
                    st.lims = z3.Store(st.lims, atom.t, z3.Store(st.lims[atom.t], key.t, st.lims[atom.t][key.t] + 1))
                    return conflicts("matches", atom)
                return Model(f, "PigeonHoledSlots.add_limiter")
            if name == "remove_limiter":
                def f(it_, atom, key=None):
                    if not ex.branch(SBool(st.lims[atom.t][key.t] > 0)):
                        raise_(KeyError("obj isn't slotted"))
                    st.lims = z3.Store(st.lims, atom.t, z3.Store(st.lims[atom.t], key.t, 0))
                return Model(f, "PigeonHoledSlots.remove_limiter")
            self._unmodelled(name)

    class Choices(ModelHost):
        def getitem(self, it, k):
            c = cls_of(k)
            if not ex.branch(SBool(z3.Select(st.has, c))):
                raise_(KeyError("pkg_choices"))
            return ChoiceK.wrap(z3.Select(st.val, c))

        def setitem(self, it, k, v):
            c = cls_of(k)
            st.has, st.val = z3.Store(st.has, c, True), z3.Store(st.val, c, v.t)

        def delitem(self, it, k):
            c = cls_of(k)
            if not ex.branch(SBool(z3.Select(st.has, c))):
                raise_(KeyError("pkg_choices"))
            st.has = z3.Store(st.has, c, False)

        def contains(self, it, k):
            return SBool(z3.Select(st.has, cls_of(k)))

    class RevList(ModelHost):
        """plan.rev_blockers[choices]: a view on one choice point's list"""
        def __init__(self, ch):
            self.ch = ch

        def truth_term(self, it):
            return st.revlen[self.ch.t] > 0

        def contains(self, it, pair):
            b, k = pair
            return SBool(st.rev[self.ch.t][b.t][k.t] > 0)

        def _bump(self, pair, d):
            b, k = pair
            inner = st.rev[self.ch.t]
            st.rev = z3.Store(st.rev, self.ch.t, z3.Store(inner, b.t, z3.Store(inner[b.t], k.t, inner[b.t][k.t] + d)))
            st.revlen = z3.Store(st.revlen, self.ch.t, st.revlen[self.ch.t] + d)

        def getattr(self, it, name):
            if name == "append":
                return Model(lambda it_, pair: self._bump(pair, 1), "list.append")
            if name == "remove":
                def f(it_, pair):
                    b, k = pair
                    if not ex.branch(SBool(st.rev[self.ch.t][b.t][k.t] > 0)):
                        raise_(ValueError("list.remove(x): x not in list"))
                    self._bump(pair, -1)
                return Model(f, "list.remove")
            self._unmodelled(name)

    class Rev(ModelHost):
        def getitem(self, it, ch):
            if not ex.branch(SBool(z3.Select(st.revhas, ch.t))):
                raise_(KeyError("rev_blockers"))
            return RevList(ch)

        def delitem(self, it, ch):
            if not ex.branch(SBool(z3.Select(st.revhas, ch.t))):
                raise_(KeyError("rev_blockers"))
            # only ever done for an emptied list; with entries left it would lose them
            if not ex.branch(SBool(st.revlen[ch.t] == 0)):
                st.rev = z3.Store(st.rev, ch.t, z3.K(AtomK.sort, z3.K(KeyK.sort, z3.IntVal(0))))
                st.revlen = z3.Store(st.revlen, ch.t, 0)
            st.revhas = z3.Store(st.revhas, ch.t, False)

        def getattr(self, it, name):
            if name == "setdefault":
                def f(it_, ch, default=None):
                    st.revhas = z3.Store(st.revhas, ch.t, True)
                    return RevList(ch)
                return Model(f, "dict.setdefault")
            if name == "get":
                self._unmodelled("get (only _remove_pkg_blockers reads the lists that way; it is under its own contract)")
            self._unmodelled(name)

    class RefSet(ModelHost):
        def __init__(self, comp, index):
            self.comp, self.index = comp, index

        def _arr(self):
            return getattr(st, self.comp)

        def contains(self, it, x):
            return SBool(self._arr()[self.index(x)] > 0)

        def getattr(self, it, name):
            if name == "add":
                def f(it_, x):
                    setattr(st, self.comp, z3.Store(self._arr(), self.index(x), self._arr()[self.index(x)] + 1))
                return Model(f, "RefCountingSet.add")
            if name == "remove":
                def f(it_, x):
                    if not ex.branch(SBool(self._arr()[self.index(x)] > 0)):
                        raise_(KeyError("RefCountingSet.remove"))
                    setattr(st, self.comp, z3.Store(self._arr(), self.index(x), self._arr()[self.index(x)] - 1))
                return Model(f, "RefCountingSet.remove")
            self._unmodelled(name)

    class PlanList(ModelHost):
        def getattr(self, it, name):
            if name == "append":
                return Model(lambda it_, op: st.appended.append(op), "list.append")
            self._unmodelled(name)

    class Plan(ModelHost):
        def __init__(self):
            self.parts = {"state": Slots(), "pkg_choices": Choices(), "rev_blockers": Rev(), "blockers_refcnt": RefSet("refs", lambda x: x.t),
                          "vdb_filter": RefSet("vdb", cls_of), "forced_restrictions": RefSet("forced", lambda x: x.t), "plan": PlanList()}
            self.removed_blockers_of = []

        def getattr(self, it, name):
            if name in self.parts:
                return self.parts[name]
            if name == "current_state":
                return len(st.appended)
            if name == "_remove_pkg_blockers":
                # contract of the callee (its loop applies one decref operation per blocker of the choice point, each of which is
                # an operation of the plan in its own right and is proved on its own): here it only has to be called with the
                # displaced package's choice point; the blocker components it changes belong to those operations
                def f(it_, ch):
                    self.removed_blockers_of.append(ch)
                    for comp in ("lims", "rev", "revlen", "revhas", "refs"):
                        setattr(st, comp, z3.Const(fresh_name("after_decrefs_" + comp), getattr(st, comp).sort()))
                return Model(f, "plan_state._remove_pkg_blockers")
            if name == "backtrack":
                def f(it_, pos):
                    self.backtracked_to = pos
                return Model(f, "plan_state.backtrack")
            self._unmodelled(name)
    return Plan()


def _same_state(ex, P, before, st, skip=()):
    for c in _State.COMPONENTS:
        if c in skip:
            continue
        a, b = before[c], getattr(st, c)
        if c == "val":     # the choice bound to a package only matters where a package is bound
            x = z3.Const(fresh_name("k"), _EQ)
            cond = z3.ForAll([x], z3.Implies(z3.Select(st.has, x), z3.Select(a, x) == z3.Select(b, x)))
        else:
            cond = a == b
        ex.oblige(f"{P}.ensures.{c}_restored", SBool(cond))


def t_ops(ex):
    """apply then revert of one planner operation on an arbitrary state"""
    import pkgcore.resolver.state as S
    kind = ("add_op", "add_op_refused", "remove_op", "replace_op", "replace_op_refused", "incref_forward_block_op", "decref_forward_block_op", "add_hardref_op", "add_backref_op")[ex.choose(9)]
    cls_name = kind.replace("_refused", "")
    P = f"C17.{kind}"
    st = _State("s")
    cls_f = theory.ufun("pkg_eq_class", PkgK.sort, _EQ)
    cls_of = lambda x: cls_f(x.t)
    pkg, old, blocker, ch, key = PkgK.fresh("pkg"), PkgK.fresh("occupant"), AtomK.fresh("blocker"), ChoiceK.fresh("choices"), KeyK.fresh("key")
    force = KBool.fresh("force")
    answers = {}

    def conflicts(kind_, obj):
        from pyvc.sym import KSeq
        if kind_ == "occupant":
            return old
        k = (kind_, len([a for a in answers if a[0] == kind_]))
        answers[k] = KSeq(KRef("Conflict")).fresh(f"conflicts_{kind_}")
        return answers[k]
    plan = _ghost_plan(ex, st, cls_of, conflicts)
    it = Interp(ex, label=P)
    # caller preconditions of the planner API, and representation invariants of the state
    zero_i = lambda arr, i: SBool(arr[i] == 0)
    for arr in (st.slots,):
        x = z3.Const(fresh_name("p"), PkgK.sort)
        ex.assume(SBool(z3.ForAll([x], arr[x] >= 0)))
    a_, k_, c_ = z3.Const(fresh_name("a"), AtomK.sort), z3.Const(fresh_name("k"), KeyK.sort), z3.Const(fresh_name("c"), ChoiceK.sort)
    e_ = z3.Const(fresh_name("e"), _EQ)
    ex.assume(SBool(z3.ForAll([a_, k_], st.lims[a_][k_] >= 0)))
    ex.assume(SBool(z3.ForAll([c_, a_, k_], st.rev[c_][a_][k_] >= 0)))
    ex.assume(SBool(z3.ForAll([c_], st.revlen[c_] >= 0)))
    ex.assume(SBool(z3.ForAll([c_, a_, k_], z3.Implies(st.revlen[c_] == 0, st.rev[c_][a_][k_] == 0))))
    ex.assume(SBool(z3.ForAll([c_], z3.Select(st.revhas, c_) == (st.revlen[c_] > 0))))   # an emptied list is dropped from the dict
    ex.assume(SBool(z3.ForAll([a_], z3.And(st.refs[a_] >= 0, st.forced[a_] >= 0))))
    ex.assume(SBool(z3.ForAll([e_], st.vdb[e_] >= 0)))
    # an active limiter is referenced, and the other way round (incref / decref keep this; it is what makes "not in refcnt" mean "not a limiter")
    ex.assume(SBool(z3.ForAll([k_], z3.Implies(st.refs[blocker.t] == 0, st.lims[blocker.t][k_] == 0))))
    ex.assume(SBool(z3.Implies(st.refs[blocker.t] > 0, st.lims[blocker.t][key.t] == 1)))
    before = st.snapshot()
    ex.inputs.update({"operation": kind, "blocker_refcount_before": SInt(st.refs[blocker.t]), "limiter_multiplicity_before": SInt(st.lims[blocker.t][key.t]),
                      "reverse_blocker_entries_before": SInt(st.rev[ch.t][blocker.t][key.t]), "reverse_blocker_list_length_before": SInt(st.revlen[ch.t]),
                      "new_package_equals_the_displaced_one": SBool(cls_of(pkg) == cls_of(old))})
    # replace is never forced (plan.py builds it without force); add may be (installed packages are inserted that way)
    fields = {"choices": ch, "pkg": pkg, "force": force if cls_name == "add_op" else False}
    if cls_name in ("incref_forward_block_op", "decref_forward_block_op"):
        fields = {"choices": ch, "blocker": blocker, "key": key}
    if cls_name == "add_hardref_op":
        fields = {"restriction": blocker}
    if cls_name == "replace_op":
        fields.update({"old_pkg": None, "old_choices": None, "force_old": False})
    op = SObj(getattr(S, cls_name), fields)
    if cls_name == "add_op":
        ex.assume(SBool(st.slots[pkg.t] == 0))                       # a package object is planned once
        ex.assume(Not(SBool(z3.Select(st.has, cls_of(pkg)))))         # and nothing equal to it is bound
    if cls_name == "remove_op":
        ex.assume(SBool(st.slots[pkg.t] == 1))
        ex.assume(SBool(z3.Select(st.has, cls_of(pkg))))
        ex.assume(SBool(z3.Select(st.val, cls_of(pkg)) == ch.t))      # remove_op is built from the package's own choice point
    if cls_name == "replace_op":
        ex.assume(SBool(st.slots[old.t] == 1))
        ex.assume(SBool(st.slots[pkg.t] == 0))
        ex.assume(SBool(pkg.t != old.t))
        ex.assume(SBool(z3.Select(st.has, cls_of(old))))
        # the new package may well be == the one it replaces (the same version from another repository); nothing else equal to it is bound
        ex.assume(SBool(z3.Or(cls_of(pkg) == cls_of(old), z3.Not(z3.Select(st.has, cls_of(pkg))))))
    if cls_name == "decref_forward_block_op":
        ex.assume(SBool(st.rev[ch.t][blocker.t][key.t] > 0))
        ex.assume(SBool(st.refs[blocker.t] > 0))
    out = call(it, it.target(FILE, f"{cls_name}.apply"), op, plan)
    refused_wanted = kind.endswith("_refused")
    if out.raised:
        ex.oblige(f"{P}.apply.raises.nothing", False, kind="exceptional-postcondition", note=str(out.exc))
        return
    r = out.value
    refused = bool(getattr(r, "length", None)) and ex.branch(SBool(r.length().t > 0)) if r is not None and hasattr(r, "length") else False
    appended = list(st.appended)
    if cls_name in ("add_op", "replace_op") and (refused and not (cls_name == "add_op" and ex.branch(force))) :
        if not refused_wanted:
            return
        # refused: the conflicts are handed back and the state is what it was (for replace: up to the blocker operations its own
        # rollback to the entry position undoes)
        ex.cover("refused")
        if cls_name == "replace_op":
            ex.oblige(f"{P}.ensures.rolls_its_blocker_operations_back_to_the_entry_position", getattr(plan, "backtracked_to", None) == 0)
            _same_state(ex, P, before, st, skip=("lims", "rev", "revlen", "revhas", "refs"))
        else:
            _same_state(ex, P, before, st)
        ex.oblige(f"{P}.ensures.nothing_recorded_in_the_plan", appended == [])
        return
    if refused_wanted:
        return
    ex.cover("applied")
    ex.oblige(f"{P}.apply.ensures.records_itself_once", appended == [op])
    mid = st.snapshot()
    rv = call(it, it.target(FILE, f"{cls_name}.revert"), op, plan)
    if cls_name == "replace_op":
        # KF-C17-1: whether the displaced package is forced back is decided from the limiters *before* its own blockers were dropped;
        # revert meets the state after; when the two answers differ revert raises
        lim0 = answers.get(("limiters", 0))
        fill_back = answers.get(("fill", 1))
        differ = SBool((lim0.length().t > 0) != (fill_back.length().t > 0)) if lim0 is not None and fill_back is not None else False
        ex.oblige(f"{P}.revert.raises.nothing", not rv.raised, kind="exceptional-postcondition", known=[("KF-C17-1", differ)], note=str(rv.exc) if rv.raised else "")
    else:
        ex.oblige(f"{P}.revert.raises.nothing", not rv.raised, kind="exceptional-postcondition", note=str(rv.exc) if rv.raised else "")
    if rv.raised:
        return
    ex.oblige(f"{P}.revert.ensures.records_nothing", list(st.appended) == appended)
    if cls_name == "replace_op":
        # the blocker components were changed by the decref operations replace pushed before itself; they are theirs to restore
        ex.oblige(f"{P}.apply.ensures.drops_the_displaced_packages_blockers", len(plan.removed_blockers_of) == 1)
        for c in ("lims", "rev", "revlen", "revhas", "refs"):
            ex.oblige(f"{P}.revert.frame.{c}_untouched", SBool(getattr(st, c) == mid[c]))
        _same_state(ex, P, before, st, skip=("lims", "rev", "revlen", "revhas", "refs"))
    elif cls_name == "remove_op":
        # likewise: remove drops the package's blockers through decref operations of their own
        ex.oblige(f"{P}.apply.ensures.drops_the_packages_blockers", len(plan.removed_blockers_of) == 1 and plan.removed_blockers_of[0] is ch)
        for c in ("lims", "rev", "revlen", "revhas", "refs"):
            ex.oblige(f"{P}.revert.frame.{c}_untouched", SBool(getattr(st, c) == mid[c]))
        _same_state(ex, P, before, st, skip=("lims", "rev", "revlen", "revhas", "refs"))
    else:
        _same_state(ex, P, before, st)


def t_backtrack(ex):
    """plan_state.backtrack(pos) on a plan of k operations: revert is called once on each operation after the position, newest first, and
    the plan is cut at the position; when a revert raises, exactly the operations already reverted are cut off"""
    import pkgcore.resolver.state as S
    k = ex.choose(5)
    pos = ex.choose(k + 1)
    failing = ex.choose(k - pos + 1)    # 0: none; j: the j-th revert (newest first) raises
    P = f"C17.backtrack[{k} operations, to position {pos}{', revert #%d raises' % failing if failing else ''}]"
    calls = []

    class Boom(Exception):
        pass

    class Op(ModelHost):
        def __init__(self, i):
            self.i = i

        def getattr(self, it, name):
            if name == "revert":
                def f(it_, plan):
                    calls.append(self.i)
                    if failing and len(calls) == failing:
                        raise PyRaise(Boom(f"revert of operation {self.i}"))
                return Model(f, f"op{self.i}.revert")
            self._unmodelled(name)
    ops = [Op(i) for i in range(k)]
    me = SObj(S.plan_state, {"plan": list(ops)})
    it = Interp(ex, label=P)
    out = call(it, it.target(FILE, "plan_state.backtrack"), me, pos)
    left = me.fields["plan"]
    if not failing:
        ex.oblige(f"{P}.raises.nothing", not out.raised, kind="exceptional-postcondition")
        ex.oblige(f"{P}.ensures.reverts_each_newer_operation_once_newest_first", calls == list(range(k - 1, pos - 1, -1)))
        ex.oblige(f"{P}.ensures.plan_cut_at_the_position", list(left) == ops[:pos])
    else:
        ex.oblige(f"{P}.raises.the_failing_reverts_exception", out.raised_cls(Boom), kind="exceptional-postcondition")
        ex.oblige(f"{P}.ensures.stops_at_the_failing_revert", calls == list(range(k - 1, k - 1 - failing, -1)))
        ex.oblige(f"{P}.ensures.only_the_operations_already_reverted_are_cut_off", list(left) == ops[:k - (failing - 1)])


def t_remove_slotting(ex):
    """PigeonHoledSlots.remove_slotting(obj) -- what add_op.revert, replace_op and remove_op undo themselves with -- drops from the slot list
    of obj's key exactly the entries that ARE obj (an equal package from another repository stays), raises KeyError exactly when no entry is
    obj, deletes the key when nothing is left and touches no other key; for slot lists of any length.  (Entries as a set: order and
    multiplicity of what stays are not stated by this contract.)"""
    from pkgcore.resolver.pigeonholes import PigeonHoledSlots
    from pyvc.sym import Kind, KSeq, SSeq
    P = "C17.PigeonHoledSlots.remove_slotting"
    sort = z3.DeclareSort("SlottedPkg")
    eqcls = theory.ufun("slotted_pkg_eq_class", sort, _EQ)

    class PkgRef(SRef):
        """a package object: == compares what packages compare by (key and version: the equality class), identity is the reference"""
        def __eq__(self, o):
            return SBool(eqcls(self.t) == eqcls(o.t)) if isinstance(o, PkgRef) else False

        def __ne__(self, o):
            r = self.__eq__(o)
            return True if r is False else Not(r)
        __hash__ = None
    K = Kind("SlottedPkg", sort, lambda t: PkgRef(t, K), lambda v: v.t if isinstance(v, PkgRef) else None)
    obj = K.fresh("obj")
    slots = KSeq(K, "list").fresh("slots")
    key_present = bool(ex.choose(2))
    other = ("an", "other", "key's", "list")
    table = {"cat/other": other}
    if key_present:
        ex.assume(slots.length() >= 1)       # the table holds no empty lists (representation invariant: remove deletes an emptied key)
        table["cat/foo"] = slots
    me = SObj(PigeonHoledSlots, {"slot_dict": table, "limiters": {}})
    it = Interp(ex, label=P)
    it.ref_attrs = {("SlottedPkg", "key"): lambda it_, o: "cat/foo"}
    out = call(it, it.target("src/pkgcore/resolver/pigeonholes.py", "PigeonHoledSlots.remove_slotting"), me, obj)
    y = z3.Const("y!c17rs", sort)
    before = slots.as_set().t if key_present else z3.EmptySet(sort)
    is_there = z3.IsMember(obj.t, before)
    ex.oblige(f"{P}.frame.other_keys_untouched", table.get("cat/other") is other and set(table) <= {"cat/other", "cat/foo"})
    if out.raised:
        ex.cover("raises")
        ex.oblige(f"{P}.raises.KeyError_only", out.exc.cls is KeyError, kind="exceptional-postcondition")
        ex.oblige(f"{P}.raises.only_when_no_entry_is_the_object", Not(SBool(is_there)), kind="exceptional-postcondition")
        ex.oblige(f"{P}.raises.leaves_the_table_as_it_was", table.get("cat/foo") is (slots if key_present else None), kind="exceptional-postcondition")
        return
    ex.cover("returns")
    ex.oblige(f"{P}.ensures.returns_only_when_an_entry_is_the_object", SBool(is_there))
    left = table.get("cat/foo")
    if left is None:
        ex.cover("key deleted")
        ex.oblige(f"{P}.ensures.key_deleted_only_when_every_entry_was_the_object", SBool(z3.ForAll([y], z3.Implies(z3.IsMember(y, before), y == obj.t))))
    else:
        ex.cover("entries left")
        ok = isinstance(left, SSeq)
        ex.oblige(f"{P}.ensures.the_key_keeps_a_list", ok)
        if ok:
            ex.oblige(f"{P}.ensures.exactly_the_entries_that_are_the_object_are_dropped_equal_ones_stay",
                      SBool(z3.ForAll([y], z3.IsMember(y, left.as_set().t) == z3.And(z3.IsMember(y, before), y != obj.t))))
            ex.oblige(f"{P}.ensures.no_empty_list_is_left_in_the_table", left.length() >= 1)


def t_remove_limiter(ex):
    """PigeonHoledSlots.remove_limiter(atom[, key]) -- how a reverted blocker leaves the table -- drops from the limiter list of the key (the
    atom's own key when none is given) exactly the entries that ARE the atom, raises KeyError exactly when none is (or the key has no list),
    deletes the key when nothing is left and touches no other key; for limiter lists of any length (entries as a set)."""
    from pkgcore.resolver.pigeonholes import PigeonHoledSlots
    from pyvc.sym import Kind, KSeq, SSeq
    P = "C17.PigeonHoledSlots.remove_limiter"
    sort = z3.DeclareSort("Limiter")
    eqcls = theory.ufun("limiter_eq_class", sort, _EQ)

    class LimRef(SRef):
        """a blocker restriction: == may hold between distinct objects (two equal atoms), identity is the reference"""
        def __eq__(self, o):
            return SBool(eqcls(self.t) == eqcls(o.t)) if isinstance(o, LimRef) else False

        def __ne__(self, o):
            r = self.__eq__(o)
            return True if r is False else Not(r)
        __hash__ = None
    K = Kind("Limiter", sort, lambda t: LimRef(t, K), lambda v: v.t if isinstance(v, LimRef) else None)
    atom_ = K.fresh("atom")
    lims = KSeq(K, "list").fresh("limiters")
    key_present, key_given = bool(ex.choose(2)), bool(ex.choose(2))
    other = ("an", "other", "key's", "limiters")
    the_key = "cat/given" if key_given else "cat/foo"
    table = {"cat/other": other}
    if key_present:
        ex.assume(lims.length() >= 1)
        table[the_key] = lims
    me = SObj(PigeonHoledSlots, {"slot_dict": {}, "limiters": table})
    it = Interp(ex, label=P)
    it.ref_attrs = {("Limiter", "key"): lambda it_, o: "cat/foo"}
    args = (me, atom_) + (("cat/given",) if key_given else ())
    out = call(it, it.target("src/pkgcore/resolver/pigeonholes.py", "PigeonHoledSlots.remove_limiter"), *args)
    y = z3.Const("y!c17rl", sort)
    before = lims.as_set().t if key_present else z3.EmptySet(sort)
    is_there = z3.IsMember(atom_.t, before)
    ex.oblige(f"{P}.frame.other_keys_untouched", table.get("cat/other") is other and set(table) <= {"cat/other", the_key})
    if out.raised:
        ex.cover("raises")
        ex.oblige(f"{P}.raises.KeyError_only", out.exc.cls is KeyError, kind="exceptional-postcondition")
        ex.oblige(f"{P}.raises.only_when_no_entry_is_the_atom", Not(SBool(is_there)), kind="exceptional-postcondition")
        ex.oblige(f"{P}.raises.leaves_the_table_as_it_was", table.get(the_key) is (lims if key_present else None), kind="exceptional-postcondition")
        return
    ex.cover("returns")
    ex.oblige(f"{P}.ensures.returns_only_when_an_entry_is_the_atom", SBool(is_there))
    left = table.get(the_key)
    if left is None:
        ex.cover("key deleted")
        ex.oblige(f"{P}.ensures.key_deleted_only_when_every_entry_was_the_atom", SBool(z3.ForAll([y], z3.Implies(z3.IsMember(y, before), y == atom_.t))))
    else:
        ex.cover("entries left")
        ok = isinstance(left, SSeq)
        ex.oblige(f"{P}.ensures.the_key_keeps_a_list", ok)
        if ok:
            ex.oblige(f"{P}.ensures.exactly_the_entries_that_are_the_atom_are_dropped_equal_ones_stay",
                      SBool(z3.ForAll([y], z3.IsMember(y, left.as_set().t) == z3.And(z3.IsMember(y, before), y != atom_.t))))
            ex.oblige(f"{P}.ensures.no_empty_list_is_left_in_the_table", left.length() >= 1)


def t_check_limiters(ex):
    """PigeonHoledSlots.check_limiters(obj) -- the question every add, replace and revert asks -- answers with exactly the active limiters of
    obj's key that match obj (none when the key has no limiters) and changes nothing; for limiter lists of any length (entries as a set)."""
    from pkgcore.resolver.pigeonholes import PigeonHoledSlots
    from pyvc.sym import Kind, KSeq, SSeq
    P = "C17.PigeonHoledSlots.check_limiters"
    lsort, psort = z3.DeclareSort("Limiter2"), z3.DeclareSort("CheckedPkg")
    matches = theory.ufun("limiter_matches", lsort, psort, z3.BoolSort())
    KL = Kind("Limiter2", lsort, lambda t: SRef(t, KL), lambda v: v.t if isinstance(v, SRef) and v.kind is KL else None)
    KP = Kind("CheckedPkg", psort, lambda t: SRef(t, KP), lambda v: v.t if isinstance(v, SRef) and v.kind is KP else None)
    obj = KP.fresh("obj")
    lims = KSeq(KL, "list").fresh("limiters")
    key_present = bool(ex.choose(2))
    other = ("an", "other", "key's", "limiters")
    table = {"cat/other": other}
    if key_present:
        table["cat/foo"] = lims
    slot_table = {"cat/foo": ("slots",)}
    me = SObj(PigeonHoledSlots, {"slot_dict": slot_table, "limiters": table})
    it = Interp(ex, label=P)
    it.ref_attrs = {("CheckedPkg", "key"): lambda it_, o: "cat/foo",
                    ("Limiter2", "match"): lambda it_, o: Model(lambda it__, p: SBool(matches(o.t, p.t)), "restriction.match", pure=True)}
    out = call(it, it.target("src/pkgcore/resolver/pigeonholes.py", "PigeonHoledSlots.check_limiters"), me, obj)
    ex.oblige(f"{P}.raises.nothing", not out.raised, kind="exceptional-postcondition")
    if out.raised:
        return
    ex.cover("returns")
    ex.oblige(f"{P}.frame.tables_untouched", table == ({"cat/other": other, "cat/foo": lims} if key_present else {"cat/other": other}) and table.get("cat/foo") is (lims if key_present else None)
              and slot_table == {"cat/foo": ("slots",)})
    r = out.value
    y = z3.Const("y!c17cl", lsort)
    if key_present:
        ok = isinstance(r, SSeq)
        ex.oblige(f"{P}.ensures.a_list_of_limiters", ok)
        if ok:
            ex.oblige(f"{P}.ensures.exactly_the_limiters_of_the_key_that_match_the_object",
                      SBool(z3.ForAll([y], z3.IsMember(y, r.as_set().t) == z3.And(z3.IsMember(y, lims.as_set().t), matches(y, obj.t)))))
    else:
        ex.oblige(f"{P}.ensures.no_limiters_no_conflicts", (isinstance(r, (list, tuple)) and len(r) == 0) or (isinstance(r, SSeq) and ex.must(r.length() == 0)))


def t_find_atom_matches(ex):
    """PigeonHoledSlots.find_atom_matches(atom[, key]) -- what add_limiter reports as conflicts -- is exactly the entries of the key (the atom's
    own key when none is given) that the atom matches, none when the key has no entries; the tables stay as they are (entries as a set)."""
    from pkgcore.resolver.pigeonholes import PigeonHoledSlots
    from pyvc.sym import Kind, KSeq, SSeq
    P = "C17.PigeonHoledSlots.find_atom_matches"
    lsort, psort = z3.DeclareSort("Limiter3"), z3.DeclareSort("SlottedPkg3")
    matches = theory.ufun("limiter3_matches", lsort, psort, z3.BoolSort())
    KL = Kind("Limiter3", lsort, lambda t: SRef(t, KL), lambda v: v.t if isinstance(v, SRef) and v.kind is KL else None)
    KP = Kind("SlottedPkg3", psort, lambda t: SRef(t, KP), lambda v: v.t if isinstance(v, SRef) and v.kind is KP else None)
    atom_ = KL.fresh("atom")
    slots = KSeq(KP, "list").fresh("slots")
    key_present, key_given = bool(ex.choose(2)), bool(ex.choose(2))
    the_key = "cat/given" if key_given else "cat/foo"
    table = {"cat/other": ("x",)}
    if key_present:
        table[the_key] = slots
    snapshot = dict(table)
    me = SObj(PigeonHoledSlots, {"slot_dict": table, "limiters": {}})
    it = Interp(ex, label=P)
    it.ref_attrs = {("Limiter3", "key"): lambda it_, o: "cat/foo",
                    ("Limiter3", "match"): lambda it_, o: Model(lambda it__, p: SBool(matches(o.t, p.t)), "restriction.match", pure=True)}
    out = call(it, it.target("src/pkgcore/resolver/pigeonholes.py", "PigeonHoledSlots.find_atom_matches"), me, atom_, **({"key": "cat/given"} if key_given else {}))
    ex.oblige(f"{P}.raises.nothing", not out.raised, kind="exceptional-postcondition")
    if out.raised:
        return
    ex.cover("returns")
    ex.oblige(f"{P}.frame.tables_untouched", table == snapshot and all(table[k] is snapshot[k] for k in table))
    r = out.value
    r = r.val if hasattr(r, "val") and isinstance(getattr(r, "val", None), SSeq) else r
    y = z3.Const("y!c17fm", psort)
    if key_present:
        ok = isinstance(r, SSeq)
        ex.oblige(f"{P}.ensures.a_list_of_entries", ok)
        if ok:
            ex.oblige(f"{P}.ensures.exactly_the_entries_of_the_key_that_the_atom_matches",
                      SBool(z3.ForAll([y], z3.IsMember(y, r.as_set().t) == z3.And(z3.IsMember(y, slots.as_set().t), matches(atom_.t, y)))))
    else:
        ex.oblige(f"{P}.ensures.no_entries_no_matches", (isinstance(r, (list, tuple)) and len(r) == 0) or (isinstance(r, SSeq) and ex.must(r.length() == 0)))


def t_get_conflicting_slot(ex):
    """PigeonHoledSlots.get_conflicting_slot(pkg) -- the occupant replace_op displaces -- is the first entry of pkg's key that sits in pkg's
    slot, None exactly when there is none; for slot lists of any length (loop invariant: nothing scanned so far is in the slot)."""
    from pkgcore.resolver.pigeonholes import PigeonHoledSlots
    from pyvc.sym import Kind, KSeq
    P = "C17.PigeonHoledSlots.get_conflicting_slot"
    sort = z3.DeclareSort("SlotEntry")
    slot_of = theory.ufun("slot_of_entry", sort, z3.IntSort())
    K = Kind("SlotEntry", sort, lambda t: SRef(t, K), lambda v: v.t if isinstance(v, SRef) and v.kind is K else None)
    pkg = K.fresh("pkg")
    slots = KSeq(K, "list").fresh("slots")
    me = SObj(PigeonHoledSlots, {"slot_dict": {"cat/foo": slots, "cat/other": ("x",)}, "limiters": {}})

    def inv(L, k):
        j = z3.Int("j!c17gc")
        kt = k.t if isinstance(k, SInt) else z3.IntVal(k)
        return SBool(z3.ForAll([j], z3.Implies(z3.And(j >= 0, j < kt), slot_of(slots.t[j]) != slot_of(pkg.t))))
    it = Interp(ex, label=P, loops={("PigeonHoledSlots.get_conflicting_slot", 0): LoopSpec(inv)})
    it.ref_attrs = {("SlotEntry", "key"): lambda it_, o: "cat/foo", ("SlotEntry", "slot"): lambda it_, o: SInt(slot_of(o.t))}
    out = call(it, it.target("src/pkgcore/resolver/pigeonholes.py", "PigeonHoledSlots.get_conflicting_slot"), me, pkg)
    ex.oblige(f"{P}.raises.nothing", not out.raised, kind="exceptional-postcondition")
    if out.raised:
        return
    r = out.value
    j, i = z3.Int("j!c17gcp"), z3.Int("i!c17gcp")
    n = z3.Length(slots.t)
    if r is None:
        ex.cover("no occupant")
        ex.oblige(f"{P}.ensures.None_only_when_no_entry_is_in_the_slot", SBool(z3.ForAll([j], z3.Implies(z3.And(j >= 0, j < n), slot_of(slots.t[j]) != slot_of(pkg.t)))))
    else:
        ex.cover("occupant")
        ok = isinstance(r, SRef)
        ex.oblige(f"{P}.ensures.an_entry", ok)
        if ok:
            ex.oblige(f"{P}.ensures.the_first_entry_of_the_key_in_the_same_slot",
                      SBool(z3.Exists([i], z3.And(i >= 0, i < n, slots.t[i] == r.t, slot_of(r.t) == slot_of(pkg.t),
                                                  z3.ForAll([j], z3.Implies(z3.And(j >= 0, j < i), slot_of(slots.t[j]) != slot_of(pkg.t)))))))


def tasks():
    fns = [(FILE, n) for n in ("plan_state.backtrack", "add_op.apply", "add_op.revert", "remove_op.apply", "remove_op.revert",
                               "replace_op.apply", "replace_op.revert", "incref_forward_block_op.apply", "incref_forward_block_op.revert",
                               "decref_forward_block_op.apply", "decref_forward_block_op.revert")]
    return [Task("C17.plan_state.backtrack", None, fns, enumerate=enum_histories),
            Task("C17.PigeonHoledSlots", None, [("src/pkgcore/resolver/pigeonholes.py", "PigeonHoledSlots." + n) for n in ("fill_slotting", "remove_slotting", "add_limiter", "remove_limiter", "check_limiters", "find_atom_matches")],
                 enumerate=enum_slot_table),
            Task("C17.remove_slotting", t_remove_slotting, [("src/pkgcore/resolver/pigeonholes.py", "PigeonHoledSlots.remove_slotting")]),
            Task("C17.remove_limiter", t_remove_limiter, [("src/pkgcore/resolver/pigeonholes.py", "PigeonHoledSlots.remove_limiter")]),
            Task("C17.check_limiters", t_check_limiters, [("src/pkgcore/resolver/pigeonholes.py", "PigeonHoledSlots.check_limiters")]),
            Task("C17.find_atom_matches", t_find_atom_matches, [("src/pkgcore/resolver/pigeonholes.py", "PigeonHoledSlots.find_atom_matches")]),
            Task("C17.get_conflicting_slot", t_get_conflicting_slot, [("src/pkgcore/resolver/pigeonholes.py", "PigeonHoledSlots.get_conflicting_slot")]),
            Task("C17.operations", t_ops, fns[1:]),
            Task("C17.backtrack", t_backtrack, fns[:1], bounded={"operations in the plan": 4, "note": "every position, every failing revert"})]


REPLAY = {}
WITNESSES = {"replace_of_blocked_occupant": lambda m: bool(m.get("replace_of_blocked_occupant"))}
