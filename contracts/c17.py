"""C17 -- planner rollback restores the exact earlier state (DESIGN.md section 4, C17).

Demoted from the DESIGN's "P": plan_state is a dict-of-lists/refcount structure mutated through aliases
(rev_blockers lists, PigeonHoledSlots lists keyed by symbolic package keys); the engine has no map-of-sequence
theory with aliasing, so no unbounded contract proof is claimed.  What stands in is a bounded, exhaustive
enumeration of planner histories on the real code, compared with a replay of the surviving prefix."""
import itertools
from pyvc.api import Task

PROPERTY = "C17"
FILE = "src/pkgcore/resolver/state.py"
LEVEL = "other"
EXPLANATION = ("bounded stand-in only (nothing proved): every history of up to 4 planner operations over 5 packages (two sharing "
               "key and slot, two equal but distinct: one version from two repositories), 3 blockers with fixed match tables and 2 choice points is applied to the real plan_state, rolled back "
               "to every earlier position, and the resulting state (slot occupancy, limiters, package bindings, reverse blockers, "
               "blocker reference counts, vdb filter, forced restrictions, plan length) is compared, as multisets, with the state "
               "obtained by replaying the surviving prefix on a fresh plan_state.")
MANIFEST = {
    "category": "other",
    "text": EXPLANATION,
    "note": "Bounded: histories <= 4 ops over a fixed universe; no unbounded claim.  Reason for not proving: the state is a "
            "dict-of-mutable-lists structure with aliasing that the VC generator does not model (DESIGN section 4, C17 addendum).",
    "technique": "bounded exhaustive enumeration of operation histories on the real code (stand-in for contract verification; labelled bounded)",
}
ASSUMPTIONS = ["bounded universe: 5 packages, 3 blockers, 2 choice points, histories of <= 4 operations",
               "states are compared as multisets (a reverted remove re-appends at the end of a slot list)"]


class Pkg:
    """compares and hashes like pkgcore packages do: by key and version, not by identity or repository (foo-1 and foo-1@bin are equal,
    distinct objects: the same version offered by two repositories)"""

    def __init__(self, name, key, slot):
        self.name, self.key, self.slot = name, key, slot
        self.ident = (key, name.split("@")[0])

    def __repr__(self):
        return self.name

    def __eq__(self, o):
        return isinstance(o, Pkg) and self.ident == o.ident

    def __ne__(self, o):
        return not self == o

    def __hash__(self):
        return hash(self.ident)


def _universe():
    from pkgcore.restrictions import restriction
    pkgs = [Pkg("foo-1", "cat/foo", "0"), Pkg("foo-2", "cat/foo", "0"), Pkg("foo-3", "cat/foo", "1"), Pkg("bar-1", "cat/bar", "0"), Pkg("foo-1@bin", "cat/foo", "0")]

    class Blocker(restriction.base):
        __slots__ = ("name", "key", "hits")

        def __init__(self, name, key, hits):
            object.__setattr__(self, "name", name)
            object.__setattr__(self, "key", key)
            object.__setattr__(self, "hits", hits)

        def match(self, pkg):
            return pkg.name.split("@")[0] in self.hits

        def __repr__(self):
            return self.name

        def __hash__(self):
            return hash(self.name)

        def __eq__(self, o):
            return self is o
    blockers = [Blocker("!foo<2", "cat/foo", frozenset({"foo-1"})), Blocker("!foo", "cat/foo", frozenset({"foo-1", "foo-2", "foo-3"})), Blocker("!bar", "cat/bar", frozenset({"bar-1"}))]
    return pkgs, blockers


def _snapshot(p):
    ms = lambda xs: sorted(map(repr, xs))
    return {
        "slots": {k: ms(v) for k, v in p.state.slot_dict.items()},
        "limiters": {k: ms(v) for k, v in p.state.limiters.items()},
        "pkg_choices": sorted((repr(k), repr(v)) for k, v in p.pkg_choices.items()),
        "rev_blockers": {repr(k): ms(v) for k, v in p.rev_blockers.items()},
        "refcnt": sorted((repr(k), v) for k, v in dict(p.blockers_refcnt).items()),
        "vdb_filter": ms(p.vdb_filter),
        "forced": sorted((repr(k), v) for k, v in dict(p.forced_restrictions).items()),
        "plan_len": len(p.plan),
    }


def _ops(pkgs, blockers):
    import pkgcore.resolver.state as S
    choices = ["cp1", "cp2"]
    ops = []
    class Skip(Exception):
        pass

    def need(cond):
        if not cond:
            raise Skip()

    # caller preconditions of the planner API (the resolver never plans a package twice, removes only planned
    # packages, replaces only an occupied slot): histories violating them are skipped, not counted
    def add(plan, p, c, force):
        need(p not in plan.pkg_choices)
        return S.add_op(c, p, force=force).apply(plan)

    def remove(plan, p):
        need(any(k is p for k in plan.pkg_choices))
        return S.remove_op(plan.pkg_choices[p], p).apply(plan)

    def replace(plan, p):
        need(not any(k is p for k in plan.pkg_choices) and plan.state.get_conflicting_slot(p) is not None)
        if plan.state.check_limiters(plan.state.get_conflicting_slot(p)):
            plan.kf_replace_of_blocked = True  # input feature used by known finding KF-C17-1
        return S.replace_op(choices[1], p).apply(plan)
    for p in pkgs:
        ops.append(("add " + p.name, lambda plan, p=p: add(plan, p, choices[0], False)))
        ops.append(("add! " + p.name, lambda plan, p=p: add(plan, p, choices[1], True)))
        ops.append(("remove " + p.name, lambda plan, p=p: remove(plan, p)))
        ops.append(("replace-> " + p.name, lambda plan, p=p: replace(plan, p)))
    for b in blockers:
        for c in choices:
            ops.append((f"block {b.name}@{c}", lambda plan, b=b, c=c: plan.add_blocker(c, b)))
    ops.append(("hardref", lambda plan: S.add_hardref_op(blockers[0]).apply(plan)))
    _ops.Skip = Skip
    return ops


def _run(history, ops):
    """apply the history on a fresh plan_state; an operation whose precondition fails (KeyError/AssertionError/TypeError:
    removing an unplanned package, replacing nothing) ends the history there.  Returns (plan, positions after each op)."""
    import pkgcore.resolver.state as S
    plan = S.plan_state()
    marks = [0]
    for i in history:
        before = _snapshot(plan)
        try:
            ops[i][1](plan)
        except _ops.Skip:
            break
        except (KeyError, AssertionError, TypeError, AttributeError) as e:
            return plan, marks, f"operation {ops[i][0]} raised {e!r} although its precondition held"
        marks.append(len(plan.plan))
    return plan, marks, None


def _room(fails, flagged):
    """keep a few examples of each input class: at most 3 with the KF-C17-1 feature, at most 20 without"""
    n = sum(1 for f in fails if bool(f["model"].get("replace_of_blocked_occupant")) == bool(flagged))
    return n < (3 if flagged else 20)


def enum_histories(seed):
    pkgs, blockers = _universe()
    ops = _ops(pkgs, blockers)
    cases, fails = 0, []
    seen_prefix = {}
    maxlen = 4
    # length-4 histories are sampled by stride to keep the quick run short; lengths 1-3 are exhaustive
    for n in range(1, maxlen + 1):
        hs = itertools.product(range(len(ops)), repeat=n)
        if n == maxlen:
            hs = itertools.islice(hs, seed % 7, None, 7)
        for h in hs:
            plan, marks, err = _run(h, ops)
            if err and _room(fails, getattr(plan, "kf_replace_of_blocked", False)):
                fails.append({"model": {"history": [ops[i][0] for i in h], "replace_of_blocked_occupant": getattr(plan, "kf_replace_of_blocked", False)}, "detail": err})
                continue
            if len(marks) - 1 < n:
                continue  # history was cut short: covered at its own length
            for cut in range(len(marks) - 1):
                cases += 1
                key = h[:cut]
                if key not in seen_prefix:
                    seen_prefix[key] = _snapshot(_run(key, ops)[0])
                want = seen_prefix[key]
                p2, _, _ = _run(h, ops)
                try:
                    p2.backtrack(marks[cut])
                    got = _snapshot(p2)
                    exc = None
                except Exception as e:  # noqa
                    got, exc = None, e
                if (got != want) and _room(fails, getattr(plan, "kf_replace_of_blocked", False)):
                    diff = {k: (got[k], want[k]) for k in want if got and got[k] != want[k]} if got else repr(exc)
                    fails.append({"model": {"history": [ops[i][0] for i in h], "rollback_to": cut,
                                            "replace_of_blocked_occupant": getattr(plan, "kf_replace_of_blocked", False)},
                                  "detail": f"history {[ops[i][0] for i in h]} rolled back to position {cut}: state differs from replaying the prefix: {diff}"})
    return {"name": "C17.plan_state.backtrack.bounded_enumeration",
            "bound": f"histories of <= {maxlen} operations (length {maxlen} sampled 1/7) over {len(ops)} operations on 5 packages, 3 blockers, 2 choice points; every rollback position",
            "cases": cases, "failures": fails}


def tasks():
    fns = [(FILE, n) for n in ("plan_state.backtrack", "add_op.apply", "add_op.revert", "remove_op.apply", "remove_op.revert",
                               "replace_op.apply", "replace_op.revert", "incref_forward_block_op.apply", "incref_forward_block_op.revert",
                               "decref_forward_block_op.apply", "decref_forward_block_op.revert")]
    return [Task("C17.plan_state.backtrack", None, fns, enumerate=enum_histories)]


REPLAY = {}
WITNESSES = {"replace_of_blocked_occupant": lambda m: bool(m.get("replace_of_blocked_occupant"))}
