"""C05 -- atom intersection is symmetric, complete and witnessed (DESIGN.md section 4, C05)."""
import itertools
import z3
from pyvc.api import Task, call, Interp
from pyvc.models import Model, ModelHost
from pyvc.sym import (KInt, KBool, KSet, KStr, SBool, SInt, SObj, MutSet, Opt, And, Or, Not, Implies, OutOfSubset)

PROPERTY = "C05"
ATOM = "src/pkgcore/ebuild/atom.py"
OPS = ("", "<", "<=", "=", "~", ">=", ">")

MANIFEST = {
    "text": "For every ordered pair of the operators none, <, <=, =, ~, >=, > and arbitrary versions (an abstract total order of "
            "versions, revisions as integers, VersionMatch replaced by its C07/C01 contract), arbitrary optional slot, sub-slot and "
            "repository constraints: proof that atom.intersects gives the same answer in both argument orders (symmetry), answers "
            "True whenever some version satisfies both atoms (completeness, the common package Skolemised) and, when it answers True, "
            "one of a fixed list of versions built from the two atoms' own versions (either version, either with its revision bumped "
            "or dropped, or a version just below / above either) satisfies both (witness).  Pairs involving =* (string prefixes against the version order) and the USE "
            "dependency conflict rule are a bounded stand-in: every ordered pair over 8 operators x 11 versions, with slot / sub-slot / "
            "repository / USE variants, against packages from a version universe closed under the perturbations the code reasons about.",
    "note": "Trusted: restricts.VersionMatch (C07) and ver_cmp (C01) as the meaning of the range operators, atom parsing; pyvc encoder. "
            "The deductive part treats ~ atoms as carrying no revision (the parser rejects ~ with a revision).",
}
ASSUMPTIONS = ["every version has a smaller and a larger one (append _alpha / a component)", "versions without their revision form a total order; a revision is a non-negative integer, absent = 0 (C01)",
               "VersionMatch(op, v, r).match(x) compares (x.version, x.revision) with (v, r) lexicographically, ~ ignoring revisions (C07)"]


def lex(av, ar, bv, br):
    """sign of comparing (av, ar) with (bv, br)"""
    return z3.If(av < bv, -1, z3.If(av > bv, 1, z3.If(ar < br, -1, z3.If(ar > br, 1, 0))))


def sat(op, v, r, pv, pr):
    """does package version (pv, pr) satisfy operator op on (v, r)"""
    c = lex(pv, pr, v, r)
    return {"": z3.BoolVal(True), "<": c < 0, "<=": c <= 0, "=": c == 0, "~": pv == v, ">=": c >= 0, ">": c > 0}[op]


def t_version_pairs(ex):
    import pkgcore.ebuild.atom as A
    opa, opb = OPS[ex.choose(len(OPS))], OPS[ex.choose(len(OPS))]
    P = f"C05.intersects[{opa or 'any'} vs {opb or 'any'}]"
    it = Interp(ex, label=P)

    class VM(ModelHost):
        def __init__(self, op, v, r):
            self.op, self.v, self.r = op, v, r

        def getattr(self, it_, name):
            if name == "match":
                def match(it__, x):
                    xv, xr = x.fields["version"], x.fields["revision"]
                    return SBool(sat(self.op, self.v.t, _rev(self.r), xv.t, _rev(xr)))
                return Model(match, "VersionMatch.match")
            raise OutOfSubset(name)
    it.models[A.restricts.VersionMatch] = lambda it_, op, v, r, **k: VM(op, v, r)
    # the version comparison itself (C01's contract): the sign of comparing (version, revision) pairs in the abstract order
    it.models[A.cpv.ver_cmp] = Model(lambda it_, v1, r1, v2, r2: SInt(lex(v1.t, _rev(r1), v2.t, _rev(r2))), "ver_cmp", pure=True)

    def mk(tag, op):
        v, r = KInt.fresh(f"{tag}_version"), KInt.fresh(f"{tag}_revision")
        ex.assume(r >= 0)
        if op == "~":
            ex.assume(r == 0)
        slot, sub, repo = (Opt(KBool.fresh(f"{tag}_has_{n}").t == z3.BoolVal(False), KStr.fresh(f"{tag}_{n}")) for n in ("slot", "subslot", "repo"))
        return SObj(A.atom, {"key": "cat/pkg", "op": op, "version": v if op else None, "revision": r if op else None, "slot": slot, "subslot": sub, "repo_id": repo, "use": None,
                             "fullver": None}), v, r, (slot, sub, repo)
    a, av, ar, ca = mk("a", opa)
    b, bv, br, cb = mk("b", opb)
    fn = it.target(ATOM, "atom.intersects")
    r1 = call(it, fn, a, b)
    r2 = call(it, fn, b, a)
    ex.oblige(f"{P}.raises.nothing", not r1.raised and not r2.raised, kind="exceptional-postcondition")
    if r1.raised or r2.raised:
        return
    t1 = r1.value.t if isinstance(r1.value, SBool) else z3.BoolVal(bool(r1.value))
    t2 = r2.value.t if isinstance(r2.value, SBool) else z3.BoolVal(bool(r2.value))
    ex.oblige(f"{P}.ensures.symmetric", SBool(t1 == t2))
    # the non-version constraints agree iff not both given and different
    def compat(x, y):
        return z3.Or(x.isnone, y.isnone, x.val.t == y.val.t)
    other_ok = z3.And(*[compat(x, y) for x, y in zip(ca, cb)])
    pv, pr = z3.Int("p_version"), z3.Int("p_revision")
    both = z3.And(pr >= 0, sat(opa, av.t, ar.t, pv, pr), sat(opb, bv.t, br.t, pv, pr))
    ex.oblige(f"{P}.ensures.complete_some_common_version_implies_true", SBool(z3.Implies(z3.And(other_ok, both), t1)))
    ex.oblige(f"{P}.ensures.false_when_slot_subslot_or_repository_differ", SBool(z3.Implies(z3.Not(other_ok), z3.Not(t1))))
    cands = []
    for v, r in ((av.t, ar.t), (bv.t, br.t)):
        cands += [(v, r), (v, r + 1), (v, z3.IntVal(0)), (v, z3.If(r > 0, r - 1, 0)), (v - 1, z3.IntVal(0)), (v + 1, z3.IntVal(0))]
    wit = z3.Or(*[z3.And(sat(opa, av.t, ar.t, v, r), sat(opb, bv.t, br.t, v, r)) for v, r in cands])
    ex.oblige(f"{P}.ensures.witnessed_true_implies_a_version_built_from_the_two_atoms_satisfies_both", SBool(z3.Implies(t1, wit)))


def _rev(r):
    if r is None:
        return z3.IntVal(0)
    return r.t if isinstance(r, SInt) else z3.IntVal(int(r))


# ------------------------------------------------------------------ bounded stand-in ----
POOL = ["1", "1-r1", "1-r2", "1.0", "1.1", "1.10", "2", "10", "1_alpha", "1_alpha1", "1a"]
ALLOPS = ["", "<", "<=", "=", "~", ">=", ">", "=*"]


def universe():
    from pkgcore.ebuild.atom import atom
    out = set(POOL)
    for v in POOL:
        base = v.split("-r")[0]
        rev = int(v.split("-r")[1]) if "-r" in v else 0
        out |= {f"{base}-r{rev + 1}", base, f"{base}-r{rev}0", f"{base}-r{rev}5" if rev else f"{base}-r5", base + "_alpha", base + "_p1", base + ".0", base + ".1", base + "_alpha1"}
        if rev > 1:
            out.add(f"{base}-r{rev - 1}")
        if base[-1].isdigit():
            out |= {base + "0", base + "1"}
    out |= {"2-r0", "2-r00", "2-r01"}   # versions spelled with an explicit revision 0 (what a glob written as 2-r0* selects by text)
    ok = []
    for v in sorted(out):
        try:
            atom(f"=cat/pkg-{v}")
            ok.append(v)
        except Exception:
            pass
    return ok


def enum_pairs(seed):
    from pkgcore.ebuild.atom import atom
    from pkgcore.test.misc import FakePkg, FakeRepo
    uni = universe()
    pk = [FakePkg(f"cat/pkg-{v}") for v in uni]
    fails, cases = [], 0

    def mk(op, v, tail=""):
        if op == "":
            return atom("cat/pkg" + tail)
        if op == "=*":
            return atom(f"=cat/pkg-{v}*{tail}")
        if op == "~" and "-r" in v:
            return None
        return atom(f"{op}cat/pkg-{v}{tail}")
    atoms = [a for op in ALLOPS for v in (POOL if op else ["1"]) for a in [mk(op, v)] if a is not None] + [mk("=*", "2-r0")]

    def note(kind, a, b, detail, **extra):
        extra["glob_spelled_with_revision_0"] = any(x.op == "=*" and x.fullver.endswith("-r0") for x in (a, b))
        cls_ = lambda m: (m["kind"], m.get("glob_prefix_continues_a_number"), m.get("glob_spelled_with_revision_0"))
        if sum(1 for f in fails if cls_(f["model"]) == cls_(dict(extra, kind=kind))) < 3:
            fails.append({"model": dict({"kind": kind, "a": str(a), "b": str(b)}, **extra), "detail": detail})
    for a, b in itertools.product(atoms, repeat=2):
        cases += 1
        i1, i2 = a.intersects(b), b.intersects(a)
        if i1 != i2:
            note("asymmetric", a, b, f"{a}.intersects({b}) is {i1} but {b}.intersects({a}) is {i2}")
        w = [p for p in pk if a.match(p) and b.match(p)]
        if w and not i1:
            # is the common package only common because =* matched it across a number boundary (KF-C04-1)?
            def across(g, p):
                return g.op == "=*" and len(p.fullver) > len(g.fullver) and g.fullver[-1].isdigit() and p.fullver[len(g.fullver)].isdigit()
            kf = all(across(a, p) or across(b, p) for p in w)
            note("incomplete", a, b, f"{w[0].cpvstr} matches both {a} and {b}, yet they are reported as not intersecting", glob_prefix_continues_a_number=kf)
        if i1 and not w:
            note("unwitnessed", a, b, f"{a} and {b} are reported as intersecting, but none of the {len(uni)} versions of the closed universe matches both")
    # slot / sub-slot / repository / USE constraints on top of a few version pairs
    # slot and sub-slot names that are string prefixes of one another (1 / 15) are different names
    tails = ["", ":0", ":1", ":15", ":0/0", ":0/1", ":0/15", ":1/5", ":15/2", "::gentoo", "::other", ":0::gentoo", "[x]", "[-x]", "[x,y]", "[-y]", "[x(+)]", "[-x(+)]", "[-x(-)]", "[x(-)]", ":0[x]"]
    repos = {"gentoo": FakeRepo(repo_id="gentoo"), "other": FakeRepo(repo_id="other")}
    var = [FakePkg(f"cat/pkg-{v}", slot=sl, subslot=ss, repo=repos[r], iuse=iuse, use=use) for v in ("1", "2") for sl, ss in (("0", "0"), ("0", "1"), ("1", "1"), ("0", "15"), ("1", "5"), ("15", "2")) for r in repos
           for iuse, use in (((), ()), (("x", "y"), ()), (("x", "y"), ("x",)), (("x", "y"), ("x", "y")), (("x", "y"), ("y",)), (("y",), ("y",)), (("y",), ()))]
    for (opa, va), (opb, vb) in ((("", "1"), ("", "1")), ((">=", "1"), ("<", "2")), (("=", "1"), (">", "1")), (("~", "1"), ("=*", "1"))):
        for ta, tb in itertools.product(tails, repeat=2):
            a, b = mk(opa, va, ta), mk(opb, vb, tb)
            cases += 1
            i1, i2 = a.intersects(b), b.intersects(a)
            if i1 != i2:
                note("asymmetric", a, b, f"{a}.intersects({b}) is {i1} but {b}.intersects({a}) is {i2}")
            # plain USE dependencies on flags a package lacks are outside the domain (PMS: an error)
            def ok(at, p):
                return all(t.endswith(")") or t.lstrip("-") in p.iuse for t in (at.use or ()))
            w = [p for p in var if ok(a, p) and ok(b, p) and a.match(p) and b.match(p)]
            if w and not i1:
                note("incomplete", a, b, f"{w[0].cpvstr}:{w[0].slot}/{w[0].subslot}::{w[0].repo.repo_id} iuse={list(w[0].iuse)} use={list(w[0].use)} matches both {a} and {b}, yet they are reported as not intersecting")
            if i1 and not w:
                note("unwitnessed", a, b, f"{a} and {b} are reported as intersecting, but none of {len(var)} package variants (2 versions x slots x repositories x USE states) matches both")
    # versions that differ in their suffix chains (a different number of suffixes, the same suffix with another number, a suffix with and without
    # its number): the interval arithmetic of intersects and the matching of packages rest on the same comparison, asked in either argument order
    POOL2 = ["1_p1", "1_p2", "1_p2_p1", "1_p20230101", "1_p20221014_p1", "1_p", "1_p0", "1", "1_alpha", "1_alpha0", "1_alpha1_p1", "1_beta2", "1_beta1_p3", "1_rc1", "1_rc1_p1_p2"]
    atoms2 = [atom(f"{op}cat/pkg-{v}") for op in ("<", "<=", "=", ">=", ">", "~") for v in POOL2]
    pk2 = [FakePkg(f"cat/pkg-{v}{t}") for v in POOL2 for t in ("", "-r1", "_p5")]
    for a, b in itertools.product(atoms2, repeat=2):
        cases += 1
        i1, i2 = a.intersects(b), b.intersects(a)
        if i1 != i2:
            note("asymmetric", a, b, f"{a}.intersects({b}) is {i1} but {b}.intersects({a}) is {i2}")
        w = [p for p in pk2 if a.match(p) and b.match(p)]
        if w and not i1:
            note("incomplete", a, b, f"{w[0].cpvstr} matches both {a} and {b}, yet they are reported as not intersecting")
    return {"name": "C05.pairs.bounded_enumeration",
            "bound": f"every ordered pair of {len(atoms2)} atoms over {len(POOL2)} versions with suffix chains (6 operators) against {len(pk2)} such versions; every ordered pair of {len(atoms)} atoms (8 operators x {len(POOL)} versions) against {len(uni)} versions closed under revision bump / drop / extension, suffix and component appends; "
                     f"4 version pairs x every ordered pair of {len(tails)} slot / sub-slot / repository / USE tails against {len(var)} package variants", "cases": cases, "failures": fails}


def tasks():
    return [
        *[Task(f"C05.intersects.{i}.{j}", t_version_pairs, [(ATOM, "atom.intersects")], preset=[i, j], group="C05.intersects") for i in range(len(OPS)) for j in range(len(OPS))],
        Task("C05.pairs", None, [(ATOM, "atom.intersects")], enumerate=enum_pairs),
    ]


REPLAY = {}
WITNESSES = {"glob_prefix_continues_a_number": lambda m: m.get("kind") == "incomplete" and bool(m.get("glob_prefix_continues_a_number")),
             "glob_spelled_with_revision_0": lambda m: m.get("kind") in ("incomplete", "unwitnessed") and bool(m.get("glob_spelled_with_revision_0"))}
