"""C24 -- installed-file listings (CONTENTS) round-trip and are replaced atomically (DESIGN.md section 4, C24)."""
import itertools
import z3
from pyvc.api import Task, call, Interp
from pyvc.models import Model, ModelHost
from pyvc import models, theory, ghost
from pyvc.sym import (KStr, KInt, KBool, SBool, SInt, SStr, SObj, And, Or, Not, Implies, OutOfSubset)

PROPERTY = "C24"
FILE = "src/pkgcore/vdb/contents.py"

MANIFEST = {
    "text": "Proof, for every entry kind and for paths / link targets of unbounded length whose content is arbitrary between at "
            "most 3 (path) resp. 2 (target) embedded spaces -- empty segments included, so leading, trailing and doubled spaces "
            "are covered -- that the line ContentsFile._write produces is read back by _iter_contents as an entry of the same kind "
            "with the same location, md5, integer mtime and target (the number of spaces is the only bound: a bounded stand-in in "
            "that one dimension); unbounded effect proof that _write replaces the file only by AtomicWriteFile.close() after all "
            "lines were written and never closes on a failure.  A bounded native enumeration over awkward names backs both.",
    "note": "Trusted: md5 long2str / int(..., 16) are mutually inverse; AtomicWriteFile's contract; the fs entry constructors "
            "store their arguments; a sym entry's location does not contain the space-delimited token '->' (the format cannot "
            "represent it: stated precondition); pyvc encoder.",
}
ASSUMPTIONS = ["md5_handler.long2str and int(text, 16) are inverse on checksum values",
               "entries' mtime is a non-negative number; locations/targets contain no newline",
               "the location of a symlink entry has no space-delimited '->' token (CONTENTS cannot express it)",
               "bounded: at most 3 spaces in a location and 2 in a link target (segments between them arbitrary, possibly empty)"]
LEVEL = "proof"


class Captured:
    def __init__(self, kind, a, kw):
        self.kind, self.a, self.kw = kind, a, kw


def spaced(ex, it, name, maxspaces):
    """a string with 0..maxspaces spaces between arbitrary space-free (possibly empty) segments"""
    n = ex.choose(maxspaces + 1)
    segs = [KStr.fresh(f"{name}_seg{i}") for i in range(n + 1)]
    for s in segs:
        it.sepfree.setdefault(" ", []).append(s.t)
        it.sepfree.setdefault("\n", []).append(s.t)   # stated precondition: a path or link target holds no line end (the format is line based)
    out = segs[0]
    for s in segs[1:]:
        out = out + " " + s
    return out, segs


def t_roundtrip(ex):
    import pkgcore.vdb.contents as C
    from pkgcore.fs import fs
    import snakeoil.chksum
    P = "C24.codec"
    kind = ("obj", "sym", "dir", "dev", "fif")[ex.choose(5)]
    hexf = theory.ufun("md5_long2str", z3.IntSort(), z3.StringSort())
    unhex = theory.ufun("int_base16", z3.StringSort(), z3.IntSort())

    class Handler(ModelHost):
        def getattr(self, it, name):
            if name == "long2str":
                def l2s(it_, v):
                    t = hexf(v.t)
                    # a hex digest: non-empty, no spaces; int(.,16) inverts it (assumed)
                    theory._add_axiom(("hex", t.get_id()), z3.And(unhex(t) == v.t, z3.Length(t) > 0))
                    it_.sepfree.setdefault(" ", []).append(z3.simplify(t))
                    it_.sepfree.setdefault("\n", []).append(z3.simplify(t))
                    return SStr(t)
                return Model(l2s, "md5.long2str")
            raise OutOfSubset(name)

    written = []

    class Out(ModelHost):
        def getattr(self, it, name):
            if name == "write":
                return Model(lambda it_, data: written.append(data), "outfile.write")
            if name == "close":
                return Model(lambda it_: written.append("<close>"), "outfile.close")
            raise OutOfSubset(name)

    captured = []

    def ctor(k):
        def make(it_, *a, **kw):
            c = Captured(k, a, kw)
            captured.append(c)
            return c
        return make

    it = Interp(ex, label=P, models={C.get_handler: lambda it_, n: Handler(), fs.fsDir: ctor("dir"), fs.fsFifo: ctor("fif"),
                                     fs.fsFile: ctor("obj"), fs.fsLink: ctor("sym"), C.LookupFsDev: ctor("dev"),
                                     sorted: lambda it_, x: x.fields["_entries"]})
    it.sepfree = {}
    it.int_base_model = lambda it_, v, base: SInt(unhex(v.t))
    loc, lsegs = spaced(ex, it, "loc", 3)
    mtime = KInt.fresh("mtime")
    md5 = KInt.fresh("md5")
    ex.assume(And(mtime >= 0, md5 >= 0))
    from pyvc.sym import str_of_int
    mt_text = z3.simplify(z3.IntToStr(mtime.t))   # str(int(mtime)): digits, no space (mtime >= 0)
    it.sepfree.setdefault(" ", []).append(mt_text)
    it.sepfree.setdefault("\n", []).append(mt_text)
    it.digit_terms = [mt_text]
    ex.assume(SBool(z3.StrToInt(mt_text) == mtime.t))
    target, tsegs = (spaced(ex, it, "target", 2) if kind == "sym" else (None, []))
    if kind == "sym":
        for s in lsegs:
            ex.assume(s != "->")   # stated precondition: the format cannot carry a '->' token inside a location
    ent = SObj(type("entry", (), {}), {"is_reg": kind == "obj", "is_sym": kind == "sym", "is_dir": kind == "dir", "is_dev": kind == "dev",
                                       "is_fifo": kind == "fif", "location": loc, "chksums": {"md5": md5}, "mtime": mtime, "target": target})
    me = SObj(C.ContentsFile, {"_entries": [ent]})
    me.fields["_get_fd"] = Model(lambda it_, write=False: Out() if write else [ln for ln in lines], "_get_fd")
    me.fields["clear"] = Model(lambda it_: None, "clear")
    lines = []
    ex.inputs.update({"kind": kind, "location": loc, "target": target, "mtime": mtime})
    w = call(it, it.target(FILE, "ContentsFile._write"), me)
    ex.oblige(f"{P}.{kind}.write.raises.nothing", not w.raised, kind="exceptional-postcondition")
    if w.raised:
        return
    ex.oblige(f"{P}.{kind}.write.one_line_then_close", len(written) == 2 and written[1] == "<close>")
    if len(written) != 2:
        return
    line = written[0]
    # the channel (trusted; the enumeration runs it for real through a file and a data source): iterating the source yields each written
    # line as written, line end included -- whatever the reader removes, it removes itself
    ok_nl = isinstance(line, SStr) and ex.must(line.endswith("\n"))
    ex.oblige(f"{P}.{kind}.write.line_ends_with_newline", bool(ok_nl))
    if not ok_nl:
        return
    lines.append(line)
    r = call(it, it.target(FILE, "ContentsFile._iter_contents"), me)
    ex.oblige(f"{P}.{kind}.read.raises.nothing", not r.raised, kind="exceptional-postcondition")
    if r.raised:
        return
    objs = models.iter_concrete(it, r.value)
    ex.oblige(f"{P}.{kind}.read.one_entry_of_the_same_kind", len(objs) == 1 and isinstance(objs[0], Captured) and objs[0].kind == kind)
    if not (len(objs) == 1 and isinstance(objs[0], Captured)):
        return
    c = objs[0]
    ex.oblige(f"{P}.{kind}.read.same_location", models.eq(it, c.a[0] if c.a else None, loc))
    if kind == "obj":
        ex.oblige(f"{P}.obj.read.same_md5", models.eq(it, c.kw.get("chksums", {}).get("md5"), md5))
        ex.oblige(f"{P}.obj.read.same_mtime", models.eq(it, c.kw.get("mtime"), mtime))
    if kind == "sym":
        ex.oblige(f"{P}.sym.read.same_target", models.eq(it, c.a[1] if len(c.a) > 1 else c.kw.get("target"), target))
        ex.oblige(f"{P}.sym.read.same_mtime", models.eq(it, c.kw.get("mtime"), mtime))


def t_write_effects(ex):
    """replacement is atomic: the only effect on the target is AtomicWriteFile.close(), after every line; no close on failure"""
    import pkgcore.vdb.contents as C
    from snakeoil.fileutils import AtomicWriteFile
    P = "C24.ContentsFile._write"
    it = Interp(ex, label=P, models={AtomicWriteFile: ghost.awf_contract(), sorted: lambda it_, x: x.fields["_entries"],
                                     C.get_handler: lambda it_, n: None})
    n = ex.choose(3)
    ents = [SObj(type("entry", (), {}), {"is_reg": False, "is_sym": False, "is_dir": True, "is_dev": False, "is_fifo": False,
                                         "location": KStr.fresh(f"dir{i}")}) for i in range(n)]
    me = SObj(C.ContentsFile, {"_entries": ents, "_source": "/var/db/pkg/c/p-1/CONTENTS"})
    out = call(it, it.target(FILE, "ContentsFile._write"), me)
    kinds = [e.kind for e in it.trace]
    if "fault" in kinds:
        ex.cover("fault")
        ex.oblige(f"{P}.fault.exception_propagates", out.raised, kind="exceptional-postcondition")
        ex.oblige(f"{P}.fault.target_never_replaced", "awf_close" not in kinds, kind="effect-invariant")
        return
    ex.cover("normal")
    ex.oblige(f"{P}.raises.nothing_without_fault", not out.raised, kind="exceptional-postcondition")
    ex.oblige(f"{P}.effects.open_lines_close", kinds == ["awf_open"] + ["awf_write"] * n + ["awf_close"], kind="effect-invariant")
    ex.oblige(f"{P}.effects.writes_to_its_own_path", bool(it.trace) and it.trace[0].path == "/var/db/pkg/c/p-1/CONTENTS")


def enum_contents(seed):
    """native round trip through a real file for awkward names"""
    import os, tempfile, random
    from pkgcore.fs import fs
    from pkgcore.vdb.contents import ContentsFile
    from snakeoil.data_source import data_source
    rnd = random.Random(seed)
    frags = ["a", "b c", " lead", "trail ", "two  sp", "x->y", "-> ", "é", "tab\there", "q" * 40, "a -b", "->"]
    # characters that str.splitlines() (but not a text file's line iteration) treats as line ends
    seps = ["vt\x0bx", "ff\x0cx", "fs\x1cx", "gs\x1dx", "rs\x1ex", "nel\x85x", "ls\u2028x", "ps\u2029x"]
    names = ["/" + "/".join(rnd.sample(frags[:-1], k)) for k in (1, 2, 3) for _ in range(12)]
    names += ["/" + f for f in seps] + ["/" + "/".join(rnd.sample(seps + frags[:4], 2)) for _ in range(6)]
    names += ["//opt/two lead", "///opt/three lead", "////opt/four", "/opt//inner//double", "/opt/./dot/../up"]   # whatever the constructor makes of these, it comes back
    targets = ["t", "a b", "c ", " d", "x -> y", "../up dir/f ", "vt\x0bx", "nel\x85 y", "ls\u2028x"]
    cases, fails = 0, []
    with tempfile.TemporaryDirectory(dir="/var/tmp") as d:
        from snakeoil import data_source as _ds
        # every kind of entry gets the awkward name itself (so a name that ends in a blank ends its line), through both kinds of source
        # the class accepts: a path and a data source
        for i, (nm, via) in enumerate((nm, via) for nm in names for via in ("path", "data_source")):
            tails = (".lnk", ".d", ".fifo") if i % 3 else (" l", " d ", "\tf\t")
            ents = [fs.fsFile(nm, chksums={"md5": 0xabc + i, "size": 1}, mtime=1000 + i, data=data_source(b"x"), strict=False),
                    fs.fsSymlink(nm + tails[0], target=targets[i % len(targets)], mtime=5 + i, strict=False),
                    fs.fsDir(nm + tails[1], strict=False), fs.fsFifo(nm + tails[2], strict=False),
                    # a device entry; no such node exists on the file system the check runs on (a package's device node may be long gone when its record is read)
                    fs.fsDev(nm + ".dev", major=1, minor=3, mode=0o20666, uid=0, gid=0, mtime=1)]
            p = os.path.join(d, f"CONTENTS{i}")
            open(p, "w").close()
            if i % 5 == 0:
                # device records whose path cannot even be looked up on the file system the check runs on: below a regular file, a name longer than any file system takes
                ents += [fs.fsDev(p + "/below-a-file.dev", major=4, minor=1, mode=0o20600, uid=0, gid=0, mtime=1), fs.fsDev("/" + "n" * 300, major=4, minor=2, mode=0o20600, uid=0, gid=0, mtime=1)]
                # device records whose path is taken, when the record is read, by something that is no file, directory or fifo: a symbolic link (device
                # numbers 0, 0), and live device nodes of the machine the check runs on, one of them with a zero in its numbers (/dev/tty is 5, 0)
                lnk = os.path.join(d, f"node-now-a-link{i}")
                os.symlink("nowhere", lnk)
                ents += [fs.fsDev(lnk, major=9, minor=9, mode=0o20600, uid=0, gid=0, mtime=1)]
                ents += [fs.fsDev(n, major=1, minor=1, mode=0o20666, uid=0, gid=0, mtime=1) for n in ("/dev/tty", "/dev/null", "/dev/zero") if os.path.lexists(n)]
            src = p if via == "path" else _ds.data_source("", mutable=True)
            cases += 1
            try:
                cf = ContentsFile(src, mutable=True, create=via != "path")
                for e in ents:
                    cf.add(e)
                cf.flush()
                back = {e.location: e for e in ContentsFile(src)}
            except Exception as ex_:
                if len(fails) < 4:
                    fails.append({"model": {"location": nm, "kind": "set of 4 entries", "target": targets[i % len(targets)]},
                                  "detail": f"writing and reading back the entries under {nm!r} (link target {targets[i % len(targets)]!r}) raised {type(ex_).__name__}: {ex_}"})
                continue
            for e in ents:
                b = back.get(e.location)
                bad = None
                if b is None:
                    bad = f"{e.location!r} missing after read-back (got {sorted(back)!r})"
                elif [k for k in ("is_reg", "is_dir", "is_sym", "is_fifo", "is_dev") if getattr(b, k)] != [k for k in ("is_reg", "is_dir", "is_sym", "is_fifo", "is_dev") if getattr(e, k)]:
                    bad = f"{e.location!r} came back as {type(b).__name__}"
                elif e.is_reg and (b.chksums["md5"] != e.chksums["md5"] or int(b.mtime) != int(e.mtime)):
                    bad = f"{e.location!r}: md5/mtime changed"
                elif e.is_sym and (b.target != e.target or int(b.mtime) != int(e.mtime)):
                    bad = f"{e.location!r}: target {e.target!r} came back as {b.target!r}"
                if bad and len(fails) < 4:
                    fails.append({"model": {"location": e.location, "kind": type(e).__name__, "target": getattr(e, "target", None), "source": via}, "detail": f"[{via} source] " + bad})
            # a second flush: entries replaced by others of the same kind at the same path (a rebuilt file, a re-pointed link), on the instance
            # that wrote the file and on one that read it -- what is flushed is what comes back
            if i % 4 == 0:
                for who in ("the instance that wrote the file", "an instance that read the file"):
                    cases += 1
                    gen = 2 if who.startswith("the") else 3
                    try:
                        c2 = cf if gen == 2 else ContentsFile(src, mutable=True)
                        if gen == 3:
                            list(c2)
                        repl = [fs.fsFile(nm, chksums={"md5": 0xdef00 + i + gen, "size": 1}, mtime=2000 + i + gen, data=data_source(b"y"), strict=False),
                                fs.fsSymlink(nm + tails[0], target=f"retargeted {gen}", mtime=50 + i + gen, strict=False)]
                        for e in repl:
                            c2.add(e)
                        c2.flush()
                        back = {e.location: e for e in ContentsFile(src)}
                        b0, b1 = back.get(repl[0].location), back.get(repl[1].location)
                        bad = None
                        if b0 is None or b1 is None or len(back) != len(ents):
                            bad = f"entries after the second flush: {sorted(back)!r}"
                        elif b0.chksums["md5"] != repl[0].chksums["md5"] or int(b0.mtime) != int(repl[0].mtime):
                            bad = f"{nm!r}: flushed with md5 {repl[0].chksums['md5']:x} mtime {repl[0].mtime}, reads back md5 {b0.chksums['md5']:x} mtime {b0.mtime}"
                        elif b1.target != repl[1].target or int(b1.mtime) != int(repl[1].mtime):
                            bad = f"{repl[1].location!r}: flushed with target {repl[1].target!r}, reads back {b1.target!r}"
                    except Exception as ex_:
                        bad = f"raised {type(ex_).__name__}: {ex_}"
                    if bad and len(fails) < 4:
                        fails.append({"model": {"location": nm, "kind": "replacement of entries, second flush", "source": via, "instance": who}, "detail": f"[{via} source] entries replaced in place on {who}, flushed, read back: " + bad})
    return {"name": "C24.codec.bounded_enumeration", "bound": f"{len(names)} awkward paths (spaces incl. leading/trailing/double, '->' fragments, unicode, tabs, the 8 characters at which only str.splitlines() breaks a line) x 5 entry kinds (a device entry without a live node, below a file, with an over-long name, with a symbolic link or a live device node -- zero numbers included -- at its path; names ending in blanks / tabs included) through a real file and through a data source",
            "cases": cases, "failures": fails}


def tasks():
    return [
        Task("C24.codec", t_roundtrip, [(FILE, "ContentsFile._write"), (FILE, "ContentsFile._iter_contents")],
             bounded={"spaces in a location": 3, "spaces in a link target": 2}, enumerate=enum_contents),
        Task("C24.ContentsFile._write.effects", t_write_effects, [(FILE, "ContentsFile._write"), (FILE, "ContentsFile._get_fd")]),
    ]


REPLAY = {}
