"""C16 -- resolver choice policy: highest version for upgrades, reuse for minimal installs (DESIGN.md section 4, C16)."""
import hashlib
import json
import random
import z3
from pyvc.api import Task, call, Interp
from pyvc.models import Model, ModelHost
from pyvc.sym import (KInt, KBool, KRef, SBool, SInt, SRef, And, Or, Not, Implies, OutOfSubset)
from pyvc import theory

PROPERTY = "C16"
PLAN = "src/pkgcore/resolver/plan.py"
MISC = "src/pkgcore/repository/misc.py"
RES = "src/pkgcore/ebuild/resolver.py"
PKG = KRef("pkg")

MANIFEST = {
    "text": "Proof, for arbitrary packages under an abstract total preorder of versions (C01/C02), that the comparators of "
            "highest_iter_sort and lowest_iter_sort are valid orderings (antisymmetric, transitive) that rank by version first and "
            "put the installed (livefs) instance first among equal versions, that highest_iter_sort sorts descending and "
            "lowest_iter_sort ascending with the candidate itself as key and return the list they were given; that "
            "prefer_highest_version_strategy merges all repositories (installed ones first) under highest_iter_sort, "
            "prefer_reuse_strategy searches the installed repositories' merge before the others', multiplex_sorting_repo.itermatch "
            "merges the per-repository answers with the given sorter in repository order, and upgrade_resolver / "
            "min_install_resolver hand these strategies to merge_plan.  The use of the strategies inside resolution is a bounded "
            "stand-in: fixed seeded universes (<= 4 packages x <= 3 versions, versioned / any-of dependencies, random installed "
            "sets) are resolved with both strategies, twice each, and compared with a brute-force oracle.",
    "note": "Trusted: snakeoil cmp / sort_cmp (stable sort by comparator) / iter_sort (lazy merge by sorter), the version order "
            "(C01/C02); pyvc encoder.  Not under contract: merge_plan._rec_add_atom and its choice points (bounded enumeration only).",
}
ASSUMPTIONS = ["cmp(x, y) on packages is a total preorder returning -1/0/1 (C01, C02)", "sort_cmp is a stable sort by the comparator; iter_sort merges already sorted iterables by the sorter"]


def cmp_theory(ex, pk):
    """abstract three-way comparison with the total-preorder axioms instantiated on the given packages"""
    CMP = theory.ufun("cmp", PKG.sort, PKG.sort, z3.IntSort())
    for a in pk:
        ex.assume(SBool(CMP(a.t, a.t) == 0))
        for b in pk:
            ex.assume(SBool(z3.And(CMP(a.t, b.t) >= -1, CMP(a.t, b.t) <= 1, CMP(a.t, b.t) == -CMP(b.t, a.t))))
            for c in pk:
                ex.assume(SBool(z3.Implies(z3.And(CMP(a.t, b.t) >= 0, CMP(b.t, c.t) >= 0), z3.And(CMP(a.t, c.t) >= 0, z3.Implies(z3.Or(CMP(a.t, b.t) > 0, CMP(b.t, c.t) > 0), CMP(a.t, c.t) > 0)))))
    return CMP


def setup(ex, which):
    import pkgcore.resolver.plan as plan
    it = Interp(ex, label=f"C16.{which}")
    LIVE = theory.ufun("repo_livefs", PKG.sort, z3.BoolSort())
    pk = [PKG.fresh(n) for n in ("x", "y", "z")]
    CMP = cmp_theory(ex, pk)
    it.models[plan.cmp] = lambda it_, a, b: SInt(CMP(a.t, b.t))

    class Repo(ModelHost):
        def __init__(self, p):
            self.p = p

        def getattr(self, it_, name):
            if name == "livefs":
                return SBool(LIVE(self.p.t))
            raise OutOfSubset(name)
    it.ref_attrs = {("pkg", "repo"): lambda it_, o: Repo(o)}
    seen = {}

    def m_sort_cmp(it_, l, f, key=None, reverse=False):
        seen.update(l=l, f=f, key=key, reverse=reverse)
    it.models[plan.sort_cmp] = m_sort_cmp
    return it, plan, pk, CMP, LIVE, seen


def t_iter_sort(ex):
    which = ("highest_iter_sort", "lowest_iter_sort")[ex.choose(2)]
    P = f"C16.{which}"
    it, plan, (x, y, z), CMP, LIVE, seen = setup(ex, which)
    the_list = ["the-list"]
    out = call(it, it.target(PLAN, which), the_list)
    ex.oblige(f"{P}.raises.nothing", not out.raised, kind="exceptional-postcondition")
    if out.raised:
        return
    ex.oblige(f"{P}.ensures.sorts_the_given_list_in_place_and_returns_it", out.value is the_list and seen.get("l") is the_list)
    ex.oblige(f"{P}.ensures.candidates_are_compared_by_their_package", seen.get("key") is plan.pkg_grabber)
    ex.oblige(f"{P}.ensures.direction", seen.get("reverse") is (which == "highest_iter_sort"), note="highest first needs reverse=True, lowest first reverse=False")
    f = seen.get("f")
    if f is None:
        ex.oblige(f"{P}.ensures.comparator_given", False)
        return

    def F(a, b):
        r = call(it, f, a, b)
        if r.raised:
            raise OutOfSubset("comparator raised")
        v = r.value
        return v.t if isinstance(v, SInt) else z3.IntVal(int(v))
    fxy, fyx, fyz, fxz = F(x, y), F(y, x), F(y, z), F(x, z)
    cxy = CMP(x.t, y.t)
    lx, ly = LIVE(x.t), LIVE(y.t)
    if which == "highest_iter_sort":
        # descending sort: x is placed before y iff f(x, y) > 0
        before = z3.Or(cxy > 0, z3.And(cxy == 0, lx, z3.Not(ly)))
        ex.oblige(f"{P}.comparator.ensures.higher_version_first_then_installed_first_among_equals", SBool((fxy > 0) == before))
    else:
        before = z3.Or(cxy < 0, z3.And(cxy == 0, lx, z3.Not(ly)))
        ex.oblige(f"{P}.comparator.ensures.lower_version_first_then_installed_first_among_equals", SBool((fxy < 0) == before))
    ex.oblige(f"{P}.comparator.ensures.ties_exactly_for_equal_version_and_same_installedness", SBool((fxy == 0) == z3.And(cxy == 0, lx == ly)))
    sign = lambda t: z3.If(t > 0, 1, z3.If(t < 0, -1, 0))
    ex.oblige(f"{P}.comparator.ensures.antisymmetric", SBool(sign(fxy) == -sign(fyx)))
    ex.oblige(f"{P}.comparator.ensures.transitive", SBool(z3.Implies(z3.And(fxy >= 0, fyz >= 0), z3.And(fxz >= 0, z3.Implies(z3.Or(fxy > 0, fyz > 0), fxz > 0)))))


def t_strategies(ex):
    import pkgcore.resolver.plan as plan
    which = ("prefer_highest_version_strategy", "prefer_reuse_strategy")[ex.choose(2)]
    P = f"C16.{which}"
    it = Interp(ex, label=P)

    class R:
        def __init__(self, name, livefs):
            self.name, self.livefs = name, livefs
    dbs = [R("src1", False), R("vdb1", True), R("src2", False), R("vdb2", True)]
    it.models[plan.misc.multiplex_sorting_repo] = lambda it_, sorter, repos: ("msr", sorter, tuple(_items(it_, repos)))
    it.models[plan.multiplex.tree] = lambda it_, *trees: ("multiplex", trees)
    out = call(it, it.target(PLAN, f"merge_plan.{which}"), plan.merge_plan, dbs)
    ex.oblige(f"{P}.raises.nothing", not out.raised, kind="exceptional-postcondition")
    if out.raised:
        return
    live, non = (dbs[1], dbs[3]), (dbs[0], dbs[2])
    ex.notes.append(f"{which} -> {out.value!r}"[:300])
    if which == "prefer_highest_version_strategy":
        ex.oblige(f"{P}.ensures.one_merge_of_all_repositories_by_highest_iter_sort_installed_first",
                  out.value == ("msr", plan.highest_iter_sort, live + non))
    else:
        ex.oblige(f"{P}.ensures.installed_repositories_are_searched_before_the_others_each_by_highest_iter_sort",
                  out.value == ("multiplex", (("msr", plan.highest_iter_sort, live), ("msr", plan.highest_iter_sort, non))))


def _items(it, v):
    from pyvc import models
    return models.iter_concrete(it, v)


def t_sorting_repo(ex):
    import pkgcore.repository.misc as misc
    P = "C16.multiplex_sorting_repo.itermatch"
    it = Interp(ex, label=P)
    it.models[misc.iter_sort] = lambda it_, sorter, *iters: ("iter_sort", sorter, iters)

    class Repo:
        def __init__(self, n):
            self.n = n

        def itermatch(self, restrict):
            return ("answer", self.n, restrict)
    repos = (Repo(1), Repo(2), Repo(3))
    for r in repos:
        it.models[r.itermatch] = None
    from pyvc.sym import SObj
    me = SObj(misc.multiplex_sorting_repo, {"__repos__": repos, "__sorter__": "SORTER"})
    # the query is any restriction: an opaque one, or an atom of any version operator (several versions and revisions of a package may sit in
    # different repositories whatever the operator is -- '~' pins the version, not the revision)
    import types as _types
    kind = ex.choose(8)
    RESTRICT = "RESTRICT" if kind == 0 else _types.SimpleNamespace(op=("", "=", "~", ">=", "<", "=*", None)[kind - 1], negate_vers=False, blocks=False, version="1", key="a/b")
    out = call(it, it.target(MISC, "multiplex_sorting_repo.itermatch"), me, RESTRICT)
    ex.oblige(f"{P}.raises.nothing", not out.raised, kind="exceptional-postcondition")
    if not out.raised:
        ex.oblige(f"{P}.ensures.merges_every_repositorys_answer_with_the_sorter_in_order",
                  out.value == ("iter_sort", "SORTER", (("answer", 1, RESTRICT), ("answer", 2, RESTRICT), ("answer", 3, RESTRICT))))


def t_resolvers(ex):
    import pkgcore.ebuild.resolver as res
    import pkgcore.resolver.plan as plan
    which = ("upgrade_resolver", "min_install_resolver")[ex.choose(2)]
    P = f"C16.{which}"
    it = Interp(ex, label=P)
    out = call(it, it.target(RES, which), ["VDB"], ["SRC"], resolver_cls=Model(lambda it_, dbs, per_repo, glob, **kw: ("plan", list(dbs), per_repo, glob), "resolver_cls"))
    ex.oblige(f"{P}.raises.nothing", not out.raised, kind="exceptional-postcondition")
    if out.raised:
        return
    _, dbs, per_repo, glob = out.value
    ex.oblige(f"{P}.ensures.all_repositories_are_searched", sorted(dbs) == ["SRC", "VDB"])
    ex.oblige(f"{P}.ensures.per_repository_order_is_highest_first", per_repo is plan.pkg_sort_highest)
    want = plan.merge_plan.prefer_highest_version_strategy if which == "upgrade_resolver" else plan.merge_plan.prefer_reuse_strategy
    ex.oblige(f"{P}.ensures.strategy", getattr(glob, "__func__", glob) is getattr(want, "__func__", want))


# ------------------------------------------------------------------ bounded stand-in: resolution ----
QUICK_SEEDS = (11, 12, 13)
THOROUGH_SEEDS = (11, 12, 13, 14, 15, 16, 17, 18)


def _digest(*parts):
    return hashlib.sha256(json.dumps(parts, sort_keys=True).encode()).hexdigest()[:12]


def enum_resolution(seed):
    import os
    from contracts import resolver_harness as H
    from pkgcore.ebuild.atom import atom
    thorough = os.environ.get("VERIF_TIER") == "thorough"
    fails, cases = [], 0
    asserted = {"highest": 0, "installed_equal": 0, "reuse": 0}
    per = 250
    for s in (THOROUGH_SEEDS if thorough else QUICK_SEEDS):   # fixed universes: listed findings are identified by input
        rnd = random.Random(s)
        for _ in range(per):
            src_d, inst_d = H.random_universe(rnd)
            tname = rnd.choice(sorted(src_d["a"]))
            t = f"a/{tname}"
            for kind in ("upgrade", "min_install"):
                cases += 1
                dg = _digest(src_d, inst_d, t, kind)
                try:
                    r, src, vdb, failures, ops = H.resolve(kind, src_d, inst_d, [t])
                    r2, _, _, failures2, ops2 = H.resolve(kind, src_d, inst_d, [t])
                except Exception as e:
                    if len(fails) < 6:
                        fails.append({"model": {"digest": dg, "source": src_d, "installed": inst_d, "target": t, "strategy": kind}, "detail": f"resolution raised {type(e).__name__}: {e}"})
                    continue
                model = {"digest": dg, "source": src_d, "installed": inst_d, "target": t, "strategy": kind, "ops": ops}
                if (ops, bool(failures)) != (ops2, bool(failures2)):
                    fails.append({"model": model, "detail": f"resolving {t} twice on identical inputs gave {ops} and then {ops2}"})
                if failures:
                    continue
                fin = H.final_state(vdb, r)
                allp = list(src)
                cand = sorted((p for p in allp if atom(t).match(p)), reverse=True)
                if kind == "upgrade" and cand:
                    hi = cand[0]
                    got = [p for p in fin if p.key == hi.key]
                    resolvable = any(hi in c and H.buildable_in_order(c) for c in H.all_closed_sets(allp))
                    asserted["highest"] += resolvable
                    if not any(p.fullver == hi.fullver for p in got) and resolvable:
                        fails.append({"model": dict(model, greedy_gives_up_on_highest=dg), "detail": f"upgrade of {t}: highest version {hi.cpvstr} is resolvable (a dependency-closed selection containing it exists that can be merged in dependency order) "
                                      f"but the plan is {ops}, leaving {[p.cpvstr for p in got]}; source {src_d} installed {inst_d}"})
                    same = [p for p in vdb if p.key == hi.key and p.fullver == hi.fullver]
                    asserted["installed_equal"] += bool(same)
                    if same and any(o[1] == hi.cpvstr and o[0] in ("add", "replace") for o in ops):
                        fails.append({"model": model, "detail": f"upgrade of {t}: {hi.cpvstr} is installed at the highest version already, yet the plan re-merges it: {ops}"})
                if kind == "min_install":
                    asserted["reuse"] += any(atom(t).match(p) for p in vdb)
                    if any(atom(t).match(p) for p in vdb) and any(o[1].startswith(f"a/{tname}-") for o in ops):
                        fails.append({"model": model, "detail": f"minimal install of {t}: an installed package satisfies it, yet the plan merges another: {ops}"})
    # sessions with two targets in one resolver: what an earlier target left behind must not change the policy for a later one
    sessions = 0
    for s in (THOROUGH_SEEDS if thorough else QUICK_SEEDS):
        rnd = random.Random(1000 + s)
        for _ in range(per):
            src_d, inst_d = H.random_universe(rnd, build_deps=True)
            names = sorted(src_d["a"])
            t1, t2 = (f"a/{n}" for n in rnd.sample(names, 2))
            for kind in ("upgrade", "min_install"):
                sessions += 1
                dg = _digest(src_d, inst_d, [t1, t2], kind)
                try:
                    r, src, vdb, failures, ops = H.resolve(kind, src_d, inst_d, [t1, t2])
                    ra, _, vdba, failures_a, ops_a = H.resolve(kind, src_d, inst_d, [t2])
                except Exception as e:
                    fails.append({"model": {"digest": dg, "source": src_d, "installed": inst_d, "targets": [t1, t2], "strategy": kind}, "detail": f"resolution raised {type(e).__name__}: {e}"})
                    continue
                model = {"digest": dg, "source": src_d, "installed": inst_d, "targets": [t1, t2], "strategy": kind, "ops": ops}
                if failures_a:
                    continue
                fin = H.final_state(vdb, r)
                allp = list(src)
                first_choice = [p for p in fin if p.key == t1]
                cand = sorted((p for p in allp if atom(t2).match(p)), reverse=True)
                if kind == "upgrade" and cand and first_choice:
                    hi = cand[0]
                    # resolvable together with what the first target settled on
                    r1, _, vdb1, f1, _ = H.resolve(kind, src_d, inst_d, [t1])
                    settled = {p.cpvstr for p in H.final_state(vdb1, r1) if p.key != hi.key} if not f1 else None
                    joint = settled is not None and any(hi in c and settled <= {q.cpvstr for q in c} and H.buildable_in_order(c) for c in H.all_closed_sets(allp))
                    asserted["highest"] += joint
                    t2_fail = any(f[0] == t2 for f in failures)
                    got = [p for p in fin if p.key == hi.key]
                    if joint and (t2_fail or not any(p.fullver == hi.fullver for p in got)):
                        fails.append({"model": model, "detail": f"upgrade of {t1} then {t2} in one resolver: highest version {hi.cpvstr} is resolvable together with everything the plan for {t1} settled on "
                                      f"(a dependency-closed selection containing all of it can be merged in dependency order) but {'the target failed' if t2_fail else 'the plan leaves ' + str([p.cpvstr for p in got])}; plan {ops}; source {src_d} installed {inst_d}"})
                if kind == "min_install":
                    inst_ok = [p for p in vdb if atom(t2).match(p)]
                    asserted["reuse"] += bool(inst_ok)
                    if inst_ok and not ops_a and any(o[1].startswith(t2 + "-") for o in ops) and not any(f[0] == t1 for f in failures):
                        # alone, the installed package is kept; after another target it must still be (unless that target's own plan replaced it)
                        needed = any(o[1].startswith(t2 + "-") for o in H.resolve(kind, src_d, inst_d, [t1])[4])
                        if not needed:
                            fails.append({"model": model, "detail": f"minimal install of {t1} then {t2}: {t2} is satisfied by an installed package and {t1}'s own plan does not touch it, yet the joint plan merges another: {ops}"})
    # targets with a version operator over a package that exists in several revisions, the installed one not the highest: the upgrade ends at
    # the highest version the target matches (directly, and as the dependency of another target), the minimal install keeps a matching installed one
    rev_src = {"a": {"b": {"1": {}, "1-r1": {}, "1-r2": {}, "2": {}, "2-r1": {}, "3": {}}, "top": {"1": {"RDEPEND": "~a/b-1"}}, "top2": {"1": {"RDEPEND": "<a/b-3 >=a/b-1-r1"}}}}
    for inst_v in (None, "1", "1-r1", "2"):
        inst_d = {"a": {"b": {inst_v: {}}}} if inst_v else {}
        for t in ("~a/b-1", "=a/b-1", "=a/b-1*", ">=a/b-1-r1", "<a/b-2", "<=a/b-2", "~a/b-2", ">a/b-1", "<a/b-3", "a/top", "a/top2"):
            for kind in ("upgrade", "min_install"):
                sessions += 1
                cases += 1
                model = {"digest": _digest(rev_src, inst_d, t, kind), "source": rev_src, "installed": inst_d, "target": t, "strategy": kind}
                try:
                    r, src, vdb, failures, ops = H.resolve(kind, rev_src, inst_d, [t])
                except Exception as e:
                    fails.append({"model": model, "detail": f"resolution raised {type(e).__name__}: {e}"})
                    continue
                if failures:
                    fails.append({"model": model, "detail": f"{kind} of {t} failed: {failures}"})
                    continue
                fin = H.final_state(vdb, r)
                dep = {"a/top": "~a/b-1", "a/top2": None}.get(t, t)
                bs = sorted(p for p in fin if p.key == "a/b")
                if kind == "upgrade" and dep is not None:
                    want = sorted(p for p in src if atom(dep).match(p))[-1]
                    if [p.cpvstr for p in bs] != [want.cpvstr]:
                        fails.append({"model": dict(model, ops=ops), "detail": f"upgrade of {t} with a/b-{inst_v} installed: the highest version {dep} matches is {want.cpvstr}; the final state holds {[p.cpvstr for p in bs]}, plan {ops}"})
                if kind == "upgrade" and t == "a/top2" and not any(atom("<a/b-3").match(p) and atom(">=a/b-1-r1").match(p) for p in bs):
                    fails.append({"model": dict(model, ops=ops), "detail": f"upgrade of {t}: its dependency <a/b-3 >=a/b-1-r1 is not satisfied by the final state {[p.cpvstr for p in bs]}, plan {ops}"})
                if kind == "min_install" and dep is not None and inst_v and atom(dep).match(next(iter(vdb))) and any(o[1].startswith("a/b-") for o in ops):
                    fails.append({"model": dict(model, ops=ops), "detail": f"minimal install of {t}: the installed a/b-{inst_v} satisfies {dep}, yet the plan merges {ops}"})
    # one package installed in several slots, slot-qualified targets given to one resolver in sequence: every addressed slot gets its
    # own highest version on upgrade (whatever an earlier target of the same package loaded into the plan), nothing on minimal install
    for deps in ({}, {"RDEPEND": "a/lib"}):
        src_d = {"a": {"b": {"1.0": dict(deps, SLOT="1"), "1.5": dict(deps, SLOT="1"), "2.0": dict(deps, SLOT="2"), "2.5": dict(deps, SLOT="2"), "3.0": dict(deps, SLOT="3")},
                       "lib": {"1": {}}, "c": {"1": {"RDEPEND": "a/b:2"}}}}
        for inst_d in ({"a": {"b": {"1.0": dict(deps, SLOT="1"), "2.0": dict(deps, SLOT="2")}, "lib": {"1": {}}}},
                       {"a": {"b": {"1.0": dict(deps, SLOT="1"), "2.5": dict(deps, SLOT="2")}, "lib": {"1": {}}}},
                       {"a": {"b": {"1.5": dict(deps, SLOT="1"), "2.0": dict(deps, SLOT="2"), "3.0": dict(deps, SLOT="3")}, "lib": {"1": {}}}}):
            for targets in (["a/b:2", "a/b:1"], ["a/b:1", "a/b:2"], ["a/b:3", "a/b:1", "a/b:2"], ["a/c", "a/b:1"], ["a/b:1", "a/c"], ["a/b"], ["a/b", "a/b:1"], ["a/c", "a/b"]):
                for kind in ("upgrade", "min_install"):
                    sessions += 1
                    cases += 1
                    dg = _digest(src_d, inst_d, targets, kind)
                    model = {"digest": dg, "source": src_d, "installed": inst_d, "targets": targets, "strategy": kind}
                    try:
                        r, src, vdb, failures, ops = H.resolve(kind, src_d, inst_d, targets)
                    except Exception as e:
                        fails.append({"model": model, "detail": f"resolution raised {type(e).__name__}: {e}"})
                        continue
                    model["ops"] = ops
                    if failures:
                        fails.append({"model": model, "detail": f"{kind} of {targets} in one resolver failed: {failures}"})
                        continue
                    fin = {p.cpvstr for p in H.final_state(vdb, r)}
                    if "a/b" in targets:
                        # the unqualified target sees the package in all its installed slots (listed lowest first by the installed repository)
                        top = sorted(src_d["a"]["b"], key=lambda v: tuple(map(int, v.split("."))))[-1]
                        asserted["highest" if kind == "upgrade" else "reuse"] += 1
                        if kind == "upgrade":
                            if f"a/b-{top}" not in fin:
                                # KF-C16-1: was the target already matched by something an earlier target of this resolver had planned?
                                earlier = targets[:targets.index("a/b")]
                                pre = bool(earlier) and bool(H.resolve(kind, src_d, inst_d, earlier)[0].state.match_atom(atom("a/b")))
                                fails.append({"model": dict(model, satisfied_by_an_earlier_targets_plan=pre), "detail": f"upgrade of {targets}: a/b should end at its highest version {top}; final state holds {sorted(x for x in fin if x.startswith('a/b-'))}, plan {ops}"})
                            if top in inst_d["a"]["b"] and any(o[1] == f"a/b-{top}" for o in ops):
                                fails.append({"model": model, "detail": f"upgrade of {targets}: a/b-{top} is the highest version and installed already, yet the plan re-merges it: {ops}"})
                        elif any(o[1].startswith("a/b-") for o in ops) and targets == ["a/b"]:
                            fails.append({"model": model, "detail": f"minimal install of {targets}: a/b is installed, yet the plan merges {ops}"})
                    for t in targets:
                        if not t.startswith("a/b:"):
                            continue
                        slot = t.split(":")[1]
                        versions = sorted(v for v, d in src_d["a"]["b"].items() if d["SLOT"] == slot)
                        inst = [v for v, d in inst_d["a"]["b"].items() if d["SLOT"] == slot]
                        asserted["highest" if kind == "upgrade" else "reuse"] += 1
                        if kind == "upgrade" and f"a/b-{versions[-1]}" not in fin:
                            fails.append({"model": model, "detail": f"upgrade of {targets} in one resolver: slot {slot} of a/b should end at its highest version {versions[-1]}; final state holds {sorted(x for x in fin if x.startswith('a/b-'))}, plan {ops}"})
                        if kind == "min_install" and inst and any(o[1] in {f"a/b-{v}" for v in versions} and o[1] != f"a/b-{inst[0]}" for o in ops):
                            fails.append({"model": model, "detail": f"minimal install of {targets}: slot {slot} of a/b is installed ({inst}), yet the plan merges another version of that slot: {ops}"})
    # the installed instance and a repository instance are the same version under different spellings (1.0 / 1.0-r0, 2.0 / 2.00, 1 / 01):
    # the installed one is kept, for both strategies
    for inst_v, src_v in (("1.0", "1.0-r0"), ("1.0-r0", "1.0"), ("2.0", "2.00"), ("2.00", "2.0"), ("1", "01"), ("3.1", "3.1-r0")):
        for extra in ({}, {"0.5": {}}):
            src_d = {"a": {"b": dict({src_v: {}}, **extra), "c": {"1": {"RDEPEND": "a/b"}}}}
            inst_d = {"a": {"b": {inst_v: {}}}}
            for targets in (["a/b"], ["a/c"]):
                for kind in ("upgrade", "min_install"):
                    sessions += 1
                    model = {"digest": _digest(src_d, inst_d, targets, kind), "source": src_d, "installed": inst_d, "targets": targets, "strategy": kind}
                    try:
                        r, src, vdb, failures, ops = H.resolve(kind, src_d, inst_d, targets)
                    except Exception as e:
                        fails.append({"model": model, "detail": f"resolution raised {type(e).__name__}: {e}"})
                        continue
                    asserted["installed_equal"] += 1
                    if failures or any(o[1].startswith("a/b-") for o in ops):
                        fails.append({"model": dict(model, ops=ops), "detail": f"{kind} of {targets}: a/b-{inst_v} is installed and the repository's a/b-{src_v} is the same version, "
                                                                                 f"so nothing is to be merged for a/b; plan {ops}, failures {failures}"})
    cases += sessions
    return {"name": "C16.resolution.bounded_enumeration",
            "bound": f"{per} seeded universes for each of the fixed seeds {THOROUGH_SEEDS if thorough else QUICK_SEEDS} (<= 4 packages x <= 3 versions, dependencies from {len(H.DEP_TEMPLATES)} templates, random installed subsets), "
                     "one target each (resolved twice) and as many two-target sessions in one resolver, plus 88 single-target sessions with every version operator over a package in six versions / revisions (directly and as another target's dependency), 96 sessions of slot-qualified and unqualified targets on a package installed in two or three slots, upgrade and minimal-install strategy, against a brute-force oracle (a version counts as resolvable when some dependency-closed selection containing it can be merged in an order that never needs a dependency cycle); "
                     f"policy asserted in {asserted['highest']} upgrade cases with a resolvable highest version, {asserted['installed_equal']} with that version already installed, {asserted['reuse']} minimal installs with an installed match",
            "cases": cases, "failures": fails[:40]}


def tasks():
    return [
        Task("C16.iter_sort", t_iter_sort, [(PLAN, "highest_iter_sort"), (PLAN, "lowest_iter_sort")]),
        Task("C16.strategies", t_strategies, [(PLAN, "merge_plan.prefer_highest_version_strategy"), (PLAN, "merge_plan.prefer_reuse_strategy"), (PLAN, "merge_plan.prefer_livefs_dbs"),
                                             (PLAN, "merge_plan.just_livefs_dbs"), (PLAN, "merge_plan.just_nonlivefs_dbs")]),
        Task("C16.multiplex_sorting_repo", t_sorting_repo, [(MISC, "multiplex_sorting_repo.itermatch")]),
        Task("C16.resolvers", t_resolvers, [(RES, "upgrade_resolver"), (RES, "min_install_resolver")]),
        Task("C16.resolution", None, [(PLAN, "merge_plan.add_atom")], enumerate=enum_resolution),
    ]


REPLAY = {}
WITNESSES = {"satisfied_by_an_earlier_targets_plan": lambda m: bool(m.get("satisfied_by_an_earlier_targets_plan")),
             }
