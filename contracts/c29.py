"""C29 -- package database updates are crash-consistent (DESIGN.md section 4, C29)."""
import os
import shutil
import types
from pyvc.api import Task, call, Interp
from pyvc.interp import PyRaise
from pyvc.models import Model, ModelHost
from pyvc.sym import SObj, OutOfSubset

PROPERTY = "C29"
VDB = "src/pkgcore/vdb/repo_ops.py"
BIN = "src/pkgcore/binpkg/repo_ops.py"

MANIFEST = {
    "text": "Crash-point invariant over a ghost directory tree (every rename / rmtree / unlink the finalisation steps issue is applied to an "
            "explicit set of directory entries; an entry is visible to a repository listing unless its name starts with '.tmp.', the filter "
            "the listings use): for the installed-package database, install, uninstall and replace (same version and another version), "
            "and for binary-package repositories install, uninstall and replace: after every effect the visible entries of the package "
            "are exactly the old or exactly the new state; a tree is only ever deleted file by file once it is hidden; the data of a new "
            "package is written only below a hidden name and becomes visible through one rename.  The one intermediate state a "
            "replacement cannot avoid with two directory renames is a listed known finding.  A native enumeration runs the real "
            "finalisation steps on scratch repositories, stops them before every file operation and lists the repository afresh; a second one "
            "(bounded, C29.fresh_views) drives the whole stack -- repo.operations of the real vdb and binary-package repositories -- lets the process die "
            "before every mutating file operation and reads every package through a freshly opened real repository (so the reading side, "
            "index included, is part of what is checked).",
    "note": "Trusted: os.rename is atomic; repository listings skip names starting with '.tmp.' (vdb/ondisk.py, binpkg/repository.py); "
            "the ghost tree; pyvc encoder.  install.add_data's many writes are covered by 'only below the hidden name', not line by line.",
}
ASSUMPTIONS = ["os.rename of a file or directory is atomic", "a fresh repository view lists exactly the entries whose name does not start with '.tmp.'"]


class Tree:
    """ghost directory: the set of entries of one category directory, and a trace"""

    def __init__(self, entries):
        self.entries = set(entries)
        self.trace = []
        self.bad = []

    def visible(self):
        return {e for e in self.entries if not os.path.basename(e).startswith(".tmp.")}


def install_os(it, tree, module, rename_fault=False):
    def m_rename(it_, a, b):
        if a not in tree.entries:
            raise PyRaise(FileNotFoundError(2, a))
        if b in tree.entries and (a.endswith("-dir") or b.endswith("-dir")):
            raise PyRaise(OSError(39, "Directory not empty"))
        tree.entries.discard(a)
        tree.entries.add(b)
        tree.trace.append(("rename", a, b, frozenset(tree.visible())))
    it.models[os.rename] = m_rename

    def m_rmtree(it_, p, *a, **k):
        if p in tree.visible():
            tree.bad.append(f"rmtree of the visible entry {p}: a listing meanwhile sees a half removed package")
        tree.entries.discard(p)
        tree.trace.append(("rmtree", p, None, frozenset(tree.visible())))
    it.models[shutil.rmtree] = m_rmtree

    def m_unlink(it_, p):
        tree.entries.discard(p)
        tree.trace.append(("unlink", p, None, frozenset(tree.visible())))
    it.models[os.unlink] = m_unlink
    it.models[os.path.lexists] = lambda it_, p: p in tree.entries
    it.models[os.path.exists] = lambda it_, p: p in tree.entries
    if hasattr(module, "update_mtime"):
        it.models[module.update_mtime] = lambda it_, *a, **k: None
    if hasattr(module, "unlink_if_exists"):
        it.models[module.unlink_if_exists] = m_unlink


def states_ok(ex, P, tree, old, new, known_intermediate=None):
    ok_states = (frozenset(old), frozenset(new))
    ex.oblige(f"{P}.invariant.a_tree_is_only_deleted_once_it_is_hidden", not tree.bad, kind="invariant", note="; ".join(tree.bad))
    for i, (op, a, b, vis) in enumerate(tree.trace):
        good = vis in ok_states
        inter = known_intermediate is not None and vis == frozenset(known_intermediate[1])
        ex.oblige(f"{P}.invariant.listing_shows_the_old_or_the_new_state_after_every_effect", good, kind="invariant",
                  note=f"after effect #{i + 1} {op} {a} {b or ''}: visible {sorted(vis)}; old {sorted(old)}, new {sorted(new)}",
                  known=[(known_intermediate[0], inter)] if known_intermediate else None)
    ex.oblige(f"{P}.ensures.ends_in_the_new_state", frozenset(tree.visible()) == frozenset(new) and not (tree.entries - tree.visible()), note=f"left: {sorted(tree.entries)}")


CAT = "/vdb/cat"


def t_vdb(ex):
    import pkgcore.vdb.repo_ops as V
    op = ("install", "uninstall", "replace_same_version", "replace_other_version", "uninstall_after_interrupted_run")[ex.choose(5)]
    P = f"C29.vdb.{op}.finalize_data"
    it = Interp(ex, label=P)
    old_dir, new_dir = f"{CAT}/pkg-1", f"{CAT}/pkg-2"
    repo = types.SimpleNamespace(location="/vdb")
    if op == "install":
        tree = Tree({f"{CAT}/.tmp.pkg-1"})
        me = SObj(V.install, {"install_path": old_dir, "tmp_write_path": f"{CAT}/.tmp.pkg-1", "repo": repo})
        old, new = set(), {old_dir}
        fn = "install.finalize_data"
    elif op.startswith("uninstall"):
        ents = {old_dir} | ({f"{CAT}/.tmp.removing.pkg-1"} if op.endswith("interrupted_run") else set())
        tree = Tree(ents)
        me = SObj(V.uninstall, {"remove_path": old_dir, "repo": repo})
        old, new = {old_dir}, set()
        fn = "uninstall.finalize_data"
    else:
        same = op == "replace_same_version"
        target = old_dir if same else new_dir
        tmp = f"{CAT}/.tmp.{os.path.basename(target)}"
        tree = Tree({old_dir, tmp})
        me = SObj(V.replace, {"remove_path": old_dir, "install_path": target, "tmp_write_path": tmp, "repo": repo})
        old, new = {old_dir}, {target}
        fn = "replace.finalize_data"
    install_os(it, tree, V)
    out = call(it, it.target(VDB, fn), me)
    ex.oblige(f"{P}.raises.nothing", not out.raised, kind="exceptional-postcondition")
    if out.raised:
        return
    inter = None
    if op == "replace_same_version":
        inter = ("KF-C29-1", set())
    elif op == "replace_other_version":
        inter = ("KF-C29-2", {old_dir, new_dir})
    states_ok(ex, P, tree, old, new, inter)


def t_binpkg(ex):
    import pkgcore.binpkg.repo_ops as B
    op = ("install", "uninstall", "replace_same_version", "replace_other_version")[ex.choose(4)]
    P = f"C29.binpkg.{op}.finalize_data"
    it = Interp(ex, label=P)
    base = "/pkgs/cat"
    old_f, new_f = f"{base}/pkg-1.tbz2", f"{base}/pkg-2.tbz2"
    pkg1, pkg2 = types.SimpleNamespace(n=1), types.SimpleNamespace(n=2)
    it.models[B.discern_loc] = lambda it_, b, pkg, ext=None: old_f if pkg.n == 1 else new_f
    repo = types.SimpleNamespace(base="/pkgs", extension=".tbz2")
    if op == "install":
        tree = Tree({f"{base}/.tmp.77.pkg-1.tbz2"})
        me = SObj(B.install, {"tmp_path": f"{base}/.tmp.77.pkg-1.tbz2", "final_path": old_f, "repo": repo, "new_pkg": pkg1})
        old, new, fn = set(), {old_f}, "install.finalize_data"
    elif op == "uninstall":
        tree = Tree({old_f})
        me = SObj(B.uninstall, {"repo": repo, "old_pkg": pkg1})
        old, new, fn = {old_f}, set(), "uninstall.finalize_data"
    else:
        same = op == "replace_same_version"
        target = old_f if same else new_f
        tmp = f"{base}/.tmp.77.{os.path.basename(target)}"
        tree = Tree({old_f, tmp})
        me = SObj(B.replace, {"tmp_path": tmp, "final_path": target, "repo": repo, "old_pkg": pkg1, "new_pkg": pkg1 if same else pkg2})
        old, new, fn = {old_f}, {target}, "replace.finalize_data"
    install_os(it, tree, B)
    out = call(it, it.target(BIN, fn), me)
    ex.oblige(f"{P}.raises.nothing", not out.raised, kind="exceptional-postcondition")
    if out.raised:
        return
    states_ok(ex, P, tree, old, new, ("KF-C29-3", {old_f, new_f}) if op == "replace_other_version" else None)


# ------------------------------------------------------------------ bounded stand-in: real finalisation on scratch repositories ----
class _Stop(BaseException):
    pass


def _unlisted(fails):
    """failures other than the listed two-rename window (a listed one must never use up the room of an unlisted one)"""
    return sum(1 for f in fails if not f["model"].get("replace_between_its_two_renames"))


def enum_crashes(seed):
    import tempfile
    import pkgcore.vdb.repo_ops as V
    import pkgcore.binpkg.repo_ops as B
    scratch = tempfile.mkdtemp(prefix="c29.", dir=os.environ.get("PYVC_SCRATCH", "/var/tmp"))
    fails, cases = [], 0
    FILES = ("CONTENTS", "SLOT", "environment.bz2", "pkg.ebuild", "COUNTER")

    def mkpkg(path, tag):
        os.makedirs(path)
        for f in FILES:
            open(os.path.join(path, f), "w").write(f"{tag}:{f}")

    def view(cat):
        """what a fresh listing shows: {name: tag or 'PARTIAL'}"""
        out = {}
        for n in sorted(os.listdir(cat)):
            if n.startswith((".tmp.", "-MERGING-")) or n.endswith(".lockfile"):
                continue
            p = os.path.join(cat, n)
            if os.path.isdir(p):
                tags = set()
                for f in FILES:
                    try:
                        tags.add(open(os.path.join(p, f)).read().split(":")[0])
                    except OSError:
                        tags.add("MISSING")
                out[n] = tags.pop() if len(tags) == 1 else "PARTIAL"
            else:
                out[n] = open(p).read()
        return out

    def run_with_stops(label, setup, action, old_view, new_view, allowed_extra=()):
        nonlocal cases
        stop = 1
        while True:
            root = os.path.join(scratch, f"{label}.{stop}")
            cat = setup(root)
            counter = {"n": 0}
            real = {"rename": os.rename, "unlink": os.unlink, "rmdir": os.rmdir}

            def wrap(name):
                def f(*a, **k):
                    if counter.get("dead"):
                        raise _Stop()       # a dead process performs no further file operation, whatever handlers its code has
                    counter["n"] += 1
                    if counter["n"] == stop:
                        counter["dead"] = True
                        raise _Stop()
                    return real[name](*a, **k)
                return f
            os.rename, os.unlink, os.rmdir = wrap("rename"), wrap("unlink"), wrap("rmdir")
            real_rmtree = shutil.rmtree

            def slow_rmtree(p, *a, **k):     # delete entry by entry so that every unlink is a stop point
                for dp, dn, fn in os.walk(p, topdown=False):
                    for f in fn:
                        os.unlink(os.path.join(dp, f))
                    os.rmdir(dp)
            shutil.rmtree = slow_rmtree
            stopped = False
            try:
                action(cat)
            except _Stop:
                stopped = True
            except Exception as e:
                if _unlisted(fails) < 5:
                    fails.append({"model": {"operation": label, "stop_before_file_operation": stop}, "detail": f"{label}: raised {type(e).__name__}: {e}"})
            finally:
                os.rename, os.unlink, os.rmdir = real["rename"], real["unlink"], real["rmdir"]
                shutil.rmtree = real_rmtree
            cases += 1
            v = view(cat)
            if v not in (old_view, new_view) and v not in allowed_extra and _unlisted(fails) < 5:
                fails.append({"model": {"operation": label, "stop_before_file_operation": stop, "listing": v},
                              "detail": f"{label} stopped before file operation #{stop}: a fresh listing shows {v}; old state {old_view}, new state {new_view}"})
            elif v in allowed_extra and v not in (old_view, new_view):
                fails.append({"model": {"operation": label, "stop_before_file_operation": stop, "listing": v, "replace_between_its_two_renames": True},
                              "detail": f"{label} stopped before file operation #{stop}: a fresh listing shows {v}; old state {old_view}, new state {new_view}"})
            shutil.rmtree(root, ignore_errors=True)
            if not stopped:
                break
            stop += 1
    try:
        repo = lambda root: types.SimpleNamespace(location=root)
        # vdb uninstall
        def setup_u(root):
            mkpkg(os.path.join(root, "cat", "pkg-1"), "old")
            return os.path.join(root, "cat")
        run_with_stops("vdb uninstall", setup_u, lambda cat: _raw(V.uninstall.finalize_data)(types.SimpleNamespace(remove_path=os.path.join(cat, "pkg-1"), repo=repo(os.path.dirname(cat)), _hide_removed=None) if False else _obj(V.uninstall, remove_path=os.path.join(cat, "pkg-1"), repo=repo(os.path.dirname(cat)))),
                       {"pkg-1": "old"}, {})
        # vdb install
        def setup_i(root):
            mkpkg(os.path.join(root, "cat", ".tmp.pkg-1"), "new")
            return os.path.join(root, "cat")
        run_with_stops("vdb install", setup_i, lambda cat: _raw(V.install.finalize_data)(_obj(V.install, tmp_write_path=os.path.join(cat, ".tmp.pkg-1"), install_path=os.path.join(cat, "pkg-1"), repo=repo(os.path.dirname(cat)))), {}, {"pkg-1": "new"})
        # vdb replace, same and other version
        for same in (True, False):
            tgt = "pkg-1" if same else "pkg-2"

            def setup_r(root, tgt=tgt):
                mkpkg(os.path.join(root, "cat", "pkg-1"), "old")
                mkpkg(os.path.join(root, "cat", ".tmp." + tgt), "new")
                return os.path.join(root, "cat")
            run_with_stops(f"vdb replace ({'same' if same else 'other'} version)", setup_r,
                           lambda cat, tgt=tgt: _raw(V.replace.finalize_data)(_obj(V.replace, remove_path=os.path.join(cat, "pkg-1"), tmp_write_path=os.path.join(cat, ".tmp." + tgt), install_path=os.path.join(cat, tgt), repo=repo(os.path.dirname(cat)))),
                           {"pkg-1": "old"}, {tgt: "new"}, allowed_extra=({},) if same else ({"pkg-1": "old", "pkg-2": "new"},))
        # binpkg
        brepo = lambda cat: types.SimpleNamespace(base=os.path.dirname(cat), extension=".tbz2")
        pk = lambda n: types.SimpleNamespace(category="cat", package="pkg", fullver=str(n), cpvstr=f"cat/pkg-{n}", PF=f"pkg-{n}")
        real_discern = B.discern_loc
        B.discern_loc = lambda base, pkg, extension=".tbz2": os.path.join(base, pkg.category, f"{pkg.package}-{pkg.fullver}{extension}")
        try:
            def setup_bi(root):
                os.makedirs(os.path.join(root, "cat"))
                open(os.path.join(root, "cat", ".tmp.1.pkg-1.tbz2"), "w").write("new")
                return os.path.join(root, "cat")
            run_with_stops("binpkg install", setup_bi, lambda cat: _raw(B.install.finalize_data)(_obj(B.install, tmp_path=os.path.join(cat, ".tmp.1.pkg-1.tbz2"), final_path=os.path.join(cat, "pkg-1.tbz2"))), {}, {"pkg-1.tbz2": "new"})

            def setup_bu(root):
                os.makedirs(os.path.join(root, "cat"))
                open(os.path.join(root, "cat", "pkg-1.tbz2"), "w").write("old")
                return os.path.join(root, "cat")
            run_with_stops("binpkg uninstall", setup_bu, lambda cat: _raw(B.uninstall.finalize_data)(_obj(B.uninstall, repo=brepo(cat), old_pkg=pk(1))), {"pkg-1.tbz2": "old"}, {})
            for same in (True, False):
                tgt = "pkg-1.tbz2" if same else "pkg-2.tbz2"

                def setup_br(root, tgt=tgt):
                    os.makedirs(os.path.join(root, "cat"))
                    open(os.path.join(root, "cat", "pkg-1.tbz2"), "w").write("old")
                    open(os.path.join(root, "cat", ".tmp.1." + tgt), "w").write("new")
                    return os.path.join(root, "cat")
                run_with_stops(f"binpkg replace ({'same' if same else 'other'} version)", setup_br,
                               lambda cat, tgt=tgt, same=same: _raw(B.replace.finalize_data)(_obj(B.replace, tmp_path=os.path.join(cat, ".tmp.1." + tgt), final_path=os.path.join(cat, tgt), repo=brepo(cat), old_pkg=pk(1), new_pkg=pk(1 if same else 2))),
                               {"pkg-1.tbz2": "old"}, {tgt: "new"}, allowed_extra=() if same else ({"pkg-1.tbz2": "old", "pkg-2.tbz2": "new"},))
        finally:
            B.discern_loc = real_discern
    finally:
        shutil.rmtree(scratch, ignore_errors=True)
    return {"name": "C29.finalisation.bounded_enumeration", "bound": "vdb install / uninstall / replace (same and other version) and binpkg install / uninstall / replace (same and other version) finalisation on scratch repositories with 5 metadata files per package, "
            "stopped before every rename / unlink / rmdir in turn (rmtree deleting entry by entry), followed by a fresh listing that reads every metadata file", "cases": cases, "failures": fails}


def enum_interrupted_then_repeated(seed):
    """an install whose writing of the package's files (add_data) was interrupted, followed by a complete install of the same package: the
    installed package holds the files of the complete run only, never a mix of the two writes"""
    import tempfile
    import pkgcore.vdb.repo_ops as V
    scratch = tempfile.mkdtemp(prefix="c29b.", dir=os.environ.get("PYVC_SCRATCH", "/var/tmp"))
    fails, cases = [], 0
    try:
        for leftovers in ((), ("NEEDED",), ("NEEDED", "NEEDED.ELF.2", "SLOT"), ("environment.bz2", "extra/nested")):
            for replace in (False, True):
                cases += 1
                root = os.path.join(scratch, f"r{cases}")
                cat = os.path.join(root, "cat")
                os.makedirs(cat)
                tmp = os.path.join(cat, ".tmp.pkg-1")
                if leftovers:
                    os.makedirs(tmp)
                for f in leftovers:   # what the interrupted run had written
                    os.makedirs(os.path.dirname(os.path.join(tmp, f)), exist_ok=True)
                    open(os.path.join(tmp, f), "w").write("stale")
                if replace:
                    os.makedirs(os.path.join(cat, "pkg-0"))
                    open(os.path.join(cat, "pkg-0", "SLOT"), "w").write("0\n")
                pm_tmp = os.path.join(root, "pmtmp")
                os.makedirs(pm_tmp)
                pkg = types.SimpleNamespace(category="cat", package="pkg", fullver="1", PF="pkg-1", tracked_attributes=("slot", "description"), slot="0", description="d", ebuild=types.SimpleNamespace(bytes_fileobj=lambda: __import__("io").BytesIO(b"ebuild text")))
                repo = types.SimpleNamespace(location=root, _metadata_rewrites={})
                op = _obj(V.replace if replace else V.install, repo=repo, new_pkg=pkg, tmp_write_path=tmp, install_path=os.path.join(cat, "pkg-1"), remove_path=os.path.join(cat, "pkg-0"))
                try:
                    _raw(V.install.add_data)(op, types.SimpleNamespace(pm_tmpdir=pm_tmp))
                    _raw((V.replace if replace else V.install).finalize_data)(op)
                except Exception as e:
                    fails.append({"model": {"leftovers": list(leftovers), "replace": replace}, "detail": f"install after an interrupted one raised {type(e).__name__}: {e}"})
                    continue
                got = {}
                for dp, dn, fn in os.walk(os.path.join(cat, "pkg-1")):
                    for f in fn:
                        got[os.path.relpath(os.path.join(dp, f), os.path.join(cat, "pkg-1"))] = open(os.path.join(dp, f)).read()
                stale = sorted(k for k, v in got.items() if v == "stale")
                want = {"SLOT", "DESCRIPTION", "pkg-1.ebuild", "COUNTER", "PKGMANAGER"}
                if (stale or set(got) != want) and len(fails) < 4:
                    fails.append({"model": {"leftovers": list(leftovers), "replace": replace, "installed_files": sorted(got)},
                                  "detail": f"{'replace' if replace else 'install'} of cat/pkg-1 after an interrupted run that had left {list(leftovers)} in .tmp.pkg-1: the installed package holds {sorted(got)}"
                                            f" (from the interrupted run: {stale}); a complete install writes {sorted(want)}"})
    finally:
        shutil.rmtree(scratch, ignore_errors=True)
    return {"name": "C29.interrupted_then_repeated.bounded_enumeration", "bound": "vdb install and replace of one package after an interrupted run that left 0..3 files (metadata files, a nested one) in its staging directory; "
            "the installed directory compared with what a complete run writes", "cases": cases, "failures": fails}


def enum_fresh_views(seed):
    """the whole stack: the real vdb and binary-package repositories (ondisk.tree, binpkg.repository.tree), a package installed, removed,
    replaced by another version and by a rebuild of the same version through repo.operations; the process dies before every mutating file
    operation in turn (after the death no further file operation of the dying process takes effect); a freshly opened repository then
    lists the packages and reads description, slot, contents and environment of each: the view must be the one from before the operation
    or the one after the completed operation.  The binary-package runs are also made on a coarse clock (the rebuilt package file carries
    the timestamp of the one it replaces)"""
    import builtins
    import gc
    import logging
    import sys
    import tempfile
    from snakeoil.data_source import data_source
    from pkgcore.binpkg import repository as binpkg_repository
    from pkgcore.ebuild.atom import atom
    from pkgcore.fs import contents, fs
    from pkgcore.vdb import ondisk
    scratch = tempfile.mkdtemp(prefix="c29c.", dir=os.environ.get("PYVC_SCRATCH", "/var/tmp"))
    fails, cases = [], 0
    MUTATORS = ("rename", "replace", "unlink", "remove", "rmdir", "mkdir", "chmod", "utime", "truncate", "symlink", "link")

    class Died(BaseException):
        pass

    class Pkg:
        tracked_attributes = ("description", "fullslot", "keywords", "contents", "environment", "use")

        def __init__(self, ver, desc, files, image):
            self.category, self.package, self.fullver = "cat", "foo", ver
            self.PF, self.cpvstr = f"foo-{ver}", f"cat/foo-{ver}"
            self.description, self.fullslot, self.keywords, self.use = desc, "0", ("amd64",), ("foo",)
            self.environment = data_source(f"DESCRIPTION={desc!r}\n")
            self.ebuild = data_source(f"# ebuild of {desc}\n")
            os.makedirs(image, exist_ok=True)
            ents = []
            for inode, (name, data) in enumerate(sorted(files.items()), 1000):
                with open(os.path.join(image, name), "w") as fh:
                    fh.write(data)
                ents.append(fs.fsFile("/" + name, strict=False, mode=0o644, uid=0, gid=0, mtime=1000000000, data=data_source(data), dev=1, inode=inode))
            self.contents = contents.contentsSet(ents)

        @property
        def versioned_atom(self):
            return atom(f"={self.cpvstr}")

    def open_repo(kind, root):
        if kind == "vdb":
            return ondisk.tree(os.path.join(root, "vdb"), cache_location=os.path.join(root, "vdbcache"))
        return binpkg_repository.tree(os.path.join(root, "binpkgs"))

    def add_data(kind, root, op):
        return op.add_data(types.SimpleNamespace(pm_tmpdir=os.path.join(root, "pm_tmp"))) if kind == "vdb" else op.add_data()

    def fresh_view(kind, root):
        view = {}
        try:
            for pkg in open_repo(kind, root):
                try:
                    view[pkg.cpvstr] = [pkg.description, sorted([x.location, x.chksums["md5"]] for x in pkg.contents.iterfiles()),
                                        pkg.environment.text_fileobj().read(), pkg.fullslot]
                except Exception as e:
                    view[pkg.cpvstr] = ["UNREADABLE", f"{type(e).__name__}: {e}"]
        except Exception as e:
            view["<listing>"] = ["UNLISTABLE", f"{type(e).__name__}: {e}"]
        return view

    OLD = ("the first build", {"a": "AAAA", "b": "BBBB"})
    NEW = ("the second build", {"a": "aaaa-changed", "c": "CCCC"})

    def installed(repo, ver):
        return repo.match(atom(f"=cat/foo-{ver}"))[0]

    def act(kind, root, what, repo, new):
        if what == "install":
            op = repo.operations.install(new)
            add_data(kind, root, op)
        elif what == "uninstall":
            op = repo.operations.uninstall(installed(repo, "1"))
            op.remove_data()
        else:
            op = repo.operations.replace(installed(repo, "1"), new)
            op.remove_data()
            add_data(kind, root, op)
        op.finish()

    def one_run(kind, what, new_ver, coarse, die_at, tag):
        """-> (view before, view after the death / the completed run, number of mutating operations seen, where it died)"""
        root = os.path.join(scratch, tag)
        os.makedirs(os.path.join(root, "vdb" if kind == "vdb" else "binpkgs"))
        if what != "install":
            op = open_repo(kind, root).operations.install(Pkg("1", *OLD, os.path.join(root, "image", "old")))
            add_data(kind, root, op)
            op.finish()
        before = fresh_view(kind, root)
        new = Pkg(new_ver, *NEW, os.path.join(root, "image", "new")) if new_ver else None
        repo = open_repo(kind, root)
        list(repo)
        state = {"n": 0, "dead": None}
        saved = {n: getattr(os, n) for n in MUTATORS}
        saved_open = builtins.open

        def tick(what_):
            if state["dead"] is not None:
                raise Died(what_)
            if state["n"] == die_at:
                state["dead"] = what_
                raise Died(what_)
            state["n"] += 1

        def wrap(name):
            def f(*a, **k):
                if coarse and name in ("rename", "replace") and len(a) > 1 and str(a[1]).endswith(".tbz2") and os.path.isfile(a[1]) and state["dead"] is None and state["n"] != die_at:
                    st = os.stat(a[1])
                    saved["utime"](a[0], ns=(st.st_atime_ns, st.st_mtime_ns))
                tick(f"os.{name}{tuple(os.path.relpath(x, root) if isinstance(x, str) and x.startswith(root) else x for x in a[:2])!r}")
                return saved[name](*a, **k)
            return f

        def open_(file, mode="r", *a, **k):
            if any(c in mode for c in "wax+"):
                tick(f"open({os.path.relpath(file, root) if isinstance(file, str) and file.startswith(root) else file!r}, {mode!r})")
            return saved_open(file, mode, *a, **k)
        for n in MUTATORS:
            setattr(os, n, wrap(n))
        builtins.open = open_
        hook, sys.unraisablehook = sys.unraisablehook, (lambda *a: None)    # finalisers of the dead process' objects cannot act either
        err = None
        try:
            act(kind, root, what, repo, new)
        except Died:
            pass
        except Exception as e:
            err = f"{type(e).__name__}: {e}"
        finally:
            del repo, new
            gc.collect()
            for n in MUTATORS:
                setattr(os, n, saved[n])
            builtins.open = saved_open
            sys.unraisablehook = hook
        after = fresh_view(kind, root)
        shutil.rmtree(root, ignore_errors=True)
        return before, after, state["n"], state["dead"], err

    prev_disable = logging.root.manager.disable
    logging.disable(logging.CRITICAL)
    try:
        scenarios = [(k, w, v, False) for k in ("vdb", "binpkg") for w, v in (("install", "1"), ("uninstall", None), ("replace", "2"), ("replace", "1"))] + \
                    [("binpkg", "replace", "1", True), ("binpkg", "replace", "2", True)]
        for kind, what, new_ver, coarse in scenarios:
            label = f"{kind} {what}" + ({"1": " by a rebuild of the same version", "2": " by another version"}[new_ver] if what == "replace" else "") + (" (coarse clock)" if coarse else "")
            tag = f"{kind}-{what}-{new_ver}-{int(coarse)}"
            old_view, new_view, n_ops, _dead, err = one_run(kind, what, new_ver, coarse, None, tag + "-full")
            cases += 1
            if err or old_view == new_view or any(v[0] in ("UNREADABLE", "UNLISTABLE") for v in (*old_view.values(), *new_view.values())):
                fails.append({"model": {"operation": label}, "detail": f"{label}: the completed operation {'raised ' + err if err else ''} shows {old_view} -> {new_view}"})
                continue
            for point in range(n_ops):
                before, seen, _n, dead, err = one_run(kind, what, new_ver, coarse, point, f"{tag}-{point}")
                cases += 1
                if seen in (old_view, new_view) and not err:
                    continue
                window = what == "replace" and ((new_ver == "1" and seen == {}) or (new_ver == "2" and seen == {**old_view, **new_view}))
                if window or _unlisted(fails) < 5:
                    fails.append({"model": {"operation": label, "dies_before_file_operation": point, "file_operation": dead, "fresh_view": seen, **({"replace_between_its_two_renames": True} if window else {})},
                                  "detail": f"{label}: the process dies before file operation #{point} ({dead}){'; the operation raised ' + err if err else ''}: a fresh repository shows {seen}; old state {old_view}, new state {new_view}"})
    finally:
        logging.disable(prev_disable)
        shutil.rmtree(scratch, ignore_errors=True)
    return {"name": "C29.fresh_views.bounded_enumeration", "bound": "install / uninstall / replace by another version / replace by a rebuild of the same version of one package (two files, environment, description) through "
            "repo.operations of the real vdb and binary-package repositories, the binary-package replacements also on a coarse clock; the process dies before every mutating file operation (os.rename / replace / unlink / remove / "
            "rmdir / mkdir / chmod / utime / truncate / symlink / link, open for writing) in turn; a freshly opened repository lists and reads every package", "cases": cases, "failures": fails}


def _raw(f):
    """the method body itself (snakeoil's ForcedDepends wraps stages so that calling one runs its prerequisites first)"""
    return getattr(f, "sd_raw_func", f)


def _obj(cls, **fields):
    """an instance of the real operation class without running its constructor (which wants a domain, a format, observers)"""
    from pkgcore.operations.repo import fake_lock
    o = object.__new__(cls)
    fields.setdefault("lock", fake_lock())
    fields.setdefault("underway", True)
    for k, v in fields.items():
        object.__setattr__(o, k, v)
    return o


def tasks():
    return [
        Task("C29.vdb", t_vdb, [(VDB, "install.finalize_data"), (VDB, "uninstall.finalize_data"), (VDB, "uninstall._hide_removed"), (VDB, "replace.finalize_data"), (VDB, "install.add_data")],
             enumerate=enum_interrupted_then_repeated),
        Task("C29.binpkg", t_binpkg, [(BIN, "install.finalize_data"), (BIN, "uninstall.finalize_data"), (BIN, "replace.finalize_data")], enumerate=enum_crashes),
        Task("C29.fresh_views", None, [("src/pkgcore/binpkg/repository.py", "tree._get_metadata"), ("src/pkgcore/binpkg/repository.py", "tree.notify_add_package"), ("src/pkgcore/vdb/ondisk.py", "tree._get_versions")],
             enumerate=enum_fresh_views),
    ]


REPLAY = {}
WITNESSES = {"replace_between_its_two_renames": lambda m: bool(m.get("replace_between_its_two_renames"))}
