"""C43 -- config section inheritance resolves to the nearest definition (DESIGN.md section 4, C43)."""
import itertools
import random
from collections import deque
from pyvc.api import Task

PROPERTY = "C43"
CEN = "src/pkgcore/config/central.py"
LEVEL = "other"
EXPLANATION = ("the inheritance order is a bounded stand-in (the first-definition-wins step is proved): _get_inherited_sections is a worklist loop over a list it extends while iterating (breadth-first search); the self-built "
               "generator cuts loops with invariants over a fixed iterable and has no frame for a growing worklist, so the breadth-first order is not proved.  "
               "The real ConfigManager is run on every small tree-shaped inheritance graph (and cyclic / dangling variants) and compared with an independent "
               "breadth-first reference.")

MANIFEST = {
    "text": "Bounded stand-in: every tree-shaped inheritance graph over up to 5 sections (the collapsed section, up to two ordered parents "
            "each on two levels), every assignment of 3 keys to the sections, one or two config sources where the later source redefines "
            "a section (including self-inherit through the sources), is collapsed with the real ConfigManager and compared with an "
            "independent breadth-first reference; every graph with an inheritance cycle, a missing target or a self-inherit with no "
            "older source must raise ConfigurationError; five diamond-shaped graphs (a section reached along two paths is no cycle); seeded random deeper trees.  Under contract and proved for any number of stacked "
            "sections: _ConfigStack.render_value takes a key's value from the first stacked section that sets it (None when none does).  The "
            "breadth-first collection order stays bounded, hence level 'other'.",
    "note": "Trusted: HardCodedConfigSection rendering of values, the @configurable type hints.  Graphs in which a section is reached along two paths (diamonds) are "
            "covered by five fixed shapes only, not by the exhaustive tree enumeration.",
}
ASSUMPTIONS = ["beyond trees, cyclic / dangling graphs and five diamond shapes, inheritance graphs are not enumerated"]
SPECIAL = ("inherit", "inherit-only", "class", "default")


def _cls():
    from pkgcore.config.hint import configurable

    @configurable(types={"k1": "str", "k2": "str", "k3": "str"}, typename="thing")
    def thing(**kw):
        return kw
    return thing


def reference(sources, name):
    """-> ("ok", values) | ("error", why)"""
    lookup = {}
    for src in sources:
        for n, d in src.items():
            lookup.setdefault(n, []).insert(0, d)
    if name not in lookup:
        return "error", "unknown section"
    order, seen = [], {name}
    q = deque([(name, lookup[name])])
    while q:
        cur, stack = q.popleft()
        order.append(stack[0])
        for inh in stack[0].get("inherit", ()):
            if inh == cur:
                if len(stack) == 1:
                    return "error", "self-inherit with no older source"
                q.append((cur, stack[1:]))
            else:
                if inh not in lookup:
                    return "error", "missing target"
                if inh in seen:
                    continue   # reached before along another path (a diamond): its values are in line already; not a cycle
                seen.add(inh)
                q.append((inh, lookup[inh]))
    # a cycle: some section reaches itself through one or more inherit steps (self-inherits name the older definition, not a cycle)
    edges = {n: {i for d in ds for i in d.get("inherit", ()) if i != n} for n, ds in lookup.items() if n in seen}
    for start in seen:
        todo, reached = list(edges.get(start, ())), set()
        while todo:
            x = todo.pop()
            if x == start:
                return "error", "cycle"
            if x not in reached:
                reached.add(x)
                todo.extend(edges.get(x, ()))
    vals = {}
    for d in order:
        for k, v in d.items():
            if k not in SPECIAL:
                vals.setdefault(k, v)
    if not any("class" in d for d in order):
        return "error", "no class specified"
    return "ok", vals


def run(sources, name, thing):
    from pkgcore.config import basics, central, errors
    srcs = []
    for src in sources:
        srcs.append({n: basics.HardCodedConfigSection(dict(d)) for n, d in src.items()})
    mgr = central.ConfigManager(srcs)
    try:
        c = mgr.collapse_named_section(name)
        return "ok", {k: v for k, v in dict(c.config).items() if k not in SPECIAL}
    except errors.ConfigurationError as e:
        return "error", str(e)


def run_incrementally(sources, name, thing):
    """the same sources handed over one by one (ConfigManager.add_config_source), the section collapsed after every step: what an earlier
    collapse left in the manager must not show in a later one"""
    from pkgcore.config import basics, central, errors
    mk = lambda src: {n: basics.HardCodedConfigSection(dict(d)) for n, d in src.items()}
    mgr = central.ConfigManager([mk(sources[0])])
    out = None
    for i, src in enumerate(sources):
        if i:
            mgr.add_config_source(mk(src))
        try:
            c = mgr.collapse_named_section(name)
            out = ("ok", {k: v for k, v in dict(c.config).items() if k not in SPECIAL})
        except errors.ConfigurationError as e:
            out = ("error", str(e))
    return out


def run_reloaded(sources, name, thing):
    """the manager is built (and the section collapsed once) while the sources still hold other content -- every section with stale values for
    all keys, and a definition for every inherit target that the final content lacks -- then the sources are changed in place to their final
    content and the manager reloaded: what the sources held before must not show"""
    from pkgcore.config import basics, central, errors
    keys = ("k1", "k2", "k3")
    named = {i for src in sources for d in src.values() for i in d.get("inherit", ())}
    have = {n for src in sources for n in src}
    live = []
    for i, src in enumerate(sources):
        stale = {n: basics.HardCodedConfigSection(dict({k: v for k, v in d.items() if k in ("class",)}, **{k: f"stale:{n}.{k}" for k in keys})) for n, d in src.items()}
        if i == 0:
            for n in sorted(named - have):
                stale[n] = basics.HardCodedConfigSection({k: f"stale:{n}.{k}" for k in keys})
            stale["only-before-the-reload"] = basics.HardCodedConfigSection({"class": thing, "k1": "stale"})
        live.append(stale)
    mgr = central.ConfigManager(live)
    try:
        mgr.collapse_named_section(name)
    except errors.ConfigurationError:
        pass
    for d, src in zip(live, sources):
        d.clear()
        d.update({n: basics.HardCodedConfigSection(dict(v)) for n, v in src.items()})
    mgr.reload()
    try:
        c = mgr.collapse_named_section(name)
        return "ok", {k: v for k, v in dict(c.config).items() if k not in SPECIAL}
    except errors.ConfigurationError as e:
        return "error", str(e)


def enum_graphs(seed):
    import os
    thorough = os.environ.get("VERIF_TIER") == "thorough"
    thing = _cls()
    fails, cases = [], 0

    def check(sources, label, name="s"):
        nonlocal cases
        cases += 1
        want = reference(sources, name)
        try:
            got = run(sources, name, thing)
        except Exception as e:
            got = ("raised", f"{type(e).__name__}: {e}")
        if got[0] != want[0] or (got[0] == "ok" and got[1] != want[1]):
            if len(fails) < 5:
                fails.append({"model": {"sources": sources}, "detail": f"{label}: sources {sources}: collapsing 's' gives {got}; breadth-first reference {want}"})
        cases += 1
        try:
            got3 = run_reloaded(sources, name, thing)
        except Exception as e:
            got3 = ("raised", f"{type(e).__name__}: {e}")
        if got3[0] != want[0] or (got3[0] == "ok" and got3[1] != want[1]):
            if len(fails) < 5:
                fails.append({"model": {"sources": sources, "changed_in_place_then_reloaded": True}, "detail": f"{label}: a manager built while the sources held stale definitions (other values for every key, and definitions of "
                                                                                                             f"sections the final content lacks), the sources then changed in place to {sources} and reload() called: collapsing gives {got3}; "
                                                                                                             f"breadth-first reference over the final content {want}"})
        if len(sources) > 1:
            cases += 1
            try:
                got2 = run_incrementally(sources, name, thing)
            except Exception as e:
                got2 = ("raised", f"{type(e).__name__}: {e}")
            if got2[0] != want[0] or (got2[0] == "ok" and got2[1] != want[1]):
                if len(fails) < 5:
                    fails.append({"model": {"sources": sources, "added_one_by_one": True}, "detail": f"{label}: sources {sources} added one by one with 's' collapsed after each: the last collapse gives {got2}; "
                                                                                                       f"a manager built from all of them (breadth-first reference) gives {want}"})
    keys = ("k1", "k2", "k3")

    frnd = random.Random(seed + 77)

    def sec(n, inherit, owns, with_class):
        # a nearer section may set a key to an empty (falsy) value: it still shadows what is inherited
        d = {k: (f"{n}.{k}" if frnd.random() > .3 else "") for k in owns}
        if inherit:
            d["inherit"] = list(inherit)
        if with_class:
            d["class"] = thing
        return d
    # trees: s -> [p1, p2], p1 -> [g1], p2 -> [g2] with every subset pattern
    shapes = [
        {"s": ()}, {"s": ("p1",), "p1": ()}, {"s": ("p1", "p2"), "p1": (), "p2": ()}, {"s": ("p1", "p2"), "p1": ("g1",), "p2": (), "g1": ()},
        {"s": ("p1", "p2"), "p1": (), "p2": ("g2",), "g2": ()}, {"s": ("p1", "p2"), "p1": ("g1",), "p2": ("g2",), "g1": (), "g2": ()}, {"s": ("p1",), "p1": ("g1", "g2"), "g1": (), "g2": ()},
        {"s": ("p2", "p1"), "p1": ("g1",), "p2": (), "g1": ()},
    ]
    for shape in shapes:
        names = sorted(shape)
        # which of the 3 keys each section sets: sample the assignments (each key set by 0..2 sections)
        assigns = list(itertools.product(*[[(), (n1,), (n1, n2)] for _k in keys for n1, n2 in [("x", "y")]]))
        owners_choices = [c for c in itertools.product(range(len(names) + 1), repeat=3)]
        rnd = random.Random(hash(tuple(names)) % 1000 + seed)
        for _ in range(120 if thorough else 40):
            owns = {n: [k for k in keys if rnd.random() < .45] for n in names}
            src = {n: sec(n, shape[n], owns[n], with_class=(n == names[-1] or rnd.random() < .3)) for n in names}
            if not any("class" in d for d in src.values()):
                src["s"]["class"] = thing
            check([src], "one source")
            # second source redefines one section; through self-inherit the older definition stays reachable
            n2 = rnd.choice(names)
            inh = [x for x in shape[n2] if rnd.random() < .6]
            if rnd.random() < .7:
                inh.insert(rnd.randrange(len(inh) + 1), n2)  # the older definition of the same name, at any position among the bases
            redefined = sec(n2, tuple(inh), [k for k in keys if rnd.random() < .4], with_class=rnd.random() < .3)
            redefined = {k: ("newer:" + v if k in keys else v) for k, v in redefined.items()}
            check([src, {n2: redefined}], f"second source redefines {n2}")
            if n2 != "s":
                # ... and the collapsed section itself, with its older definition after / between its bases
                inh = list(shape["s"])
                inh.insert(rnd.randrange(len(inh) + 1), "s")
                top = {k: ("newest:" + v if k in keys else v) for k, v in sec("s", tuple(inh), [k for k in keys if rnd.random() < .3], with_class=False).items()}
                check([src, {"s": top}], "second source redefines s with a self-inherit among its bases")
                check([src, {n2: redefined}, {"s": top}], "three sources")
    # the older definition of the collapsed section has no bases of its own; the newer one lists it at every position among one or two bases
    rnd = random.Random(seed + 4343)
    for perm in [p for n in (2, 3) for p in itertools.permutations(("s", "b1", "b2")[:n])] + [("b1", "s"), ("b2", "b1", "s")]:
        for _ in range(60 if thorough else 20):
            old = {"s": sec("s", (), [k for k in keys if rnd.random() < .6], with_class=True),
                   "b1": sec("b1", ("g1",) if rnd.random() < .3 else (), [k for k in keys if rnd.random() < .6], with_class=False),
                   "b2": sec("b2", (), [k for k in keys if rnd.random() < .5], with_class=False), "g1": sec("g1", (), list(keys), with_class=False)}
            new = {"s": {k: ("newer:" + v if k in keys else v) for k, v in sec("s", perm, [k for k in keys if rnd.random() < .25], with_class=False).items()}}
            check([old, new], f"newer s inherits {list(perm)}")
            mid = {"s": {k: ("middle:" + v if k in keys else v) for k, v in sec("s", ("s",), [k for k in keys if rnd.random() < .3], with_class=False).items()}}
            check([old, mid, new], f"three definitions of s, the newest inherits {list(perm)}")
    # cycles, missing targets, lone self-inherit
    bad = [
        [{"s": {"class": thing, "inherit": ["s"]}}],
        [{"s": {"class": thing, "inherit": ["p"]}, "p": {"inherit": ["s"]}}],
        [{"s": {"class": thing, "inherit": ["p"]}, "p": {"inherit": ["g"]}, "g": {"inherit": ["p"]}}],
        [{"s": {"class": thing, "inherit": ["nowhere"]}}],
        [{"s": {"class": thing, "inherit": ["p"]}, "p": {"k1": "v", "inherit": ["gone"]}}],
        [{"s": {"class": thing, "inherit": ["p", "s"]}, "p": {"k1": "v"}}],
    ]
    for b in bad:
        check(b, "must be reported as an error")
    # a section reached along two paths (a diamond) is no cycle: breadth-first order still says which value wins
    dia = lambda **over: dict({"s": {"class": thing, "inherit": ["b", "c"]}, "b": {"k1": "b.k1", "inherit": ["d"]}, "c": {"k1": "c.k1", "k2": "c.k2", "inherit": ["d"]},
                               "d": {"k1": "d.k1", "k2": "d.k2", "k3": "d.k3"}}, **over)
    check([dia()], "diamond")
    check([dia(s={"class": thing, "inherit": ["b", "c", "d"]})], "diamond with a direct edge to its bottom")
    check([dia(), {"d": {"k3": "newer d.k3", "inherit": ["d"]}}], "diamond whose bottom is redefined by a later source")
    check([dia(d={"k3": "d.k3", "inherit": ["c"]})], "a cycle entered through a section that was reached before: must be reported as an error")
    check([dia(d={"k3": "d.k3", "inherit": ["s"]})], "a cycle through the collapsed section below a diamond: must be reported as an error")
    # section names as configuration files deliver them: strings made at run time, every mention of a name a string object of its own (equal, not
    # identical) -- the same cyclic / dangling / diamond graphs again, and cycles that close on a section first named by somebody else
    def runtime_names(sources):
        nm = lambda n: "section-" + n          # a new string object at every call
        return [{nm(k): {kk: ([nm(x) for x in vv] if kk == "inherit" else vv) for kk, vv in d.items()} for k, d in src.items()} for src in sources]
    cross = [
        [{"s": {"class": thing, "inherit": ["left", "right"]}, "left": {"k1": "l", "inherit": ["right"]}, "right": {"k2": "r", "inherit": ["left"]}}],
        [{"s": {"class": thing, "inherit": ["a", "b"]}, "a": {"k1": "a", "inherit": ["c"]}, "b": {"k2": "b"}, "c": {"k3": "c", "inherit": ["b", "a"]}}],
        [{"s": {"class": thing, "inherit": ["a"]}, "a": {"inherit": ["b"]}, "b": {"inherit": ["c"]}, "c": {"inherit": ["a"]}}],
    ]
    for b in cross:
        check(b, "a cycle that closes on a section first named by another one: must be reported as an error")
    for b in bad + cross + [[dia()], [dia(d={"k3": "d.k3", "inherit": ["c"]})], [dia(d={"k3": "d.k3", "inherit": ["s"]})], [dia(), {"d": {"k3": "newer d.k3", "inherit": ["d"]}}]]:
        check(runtime_names(b), "section names made at run time (equal, not identical, strings)", name="section-" + "s")
    return {"name": "C43.collapse.bounded_enumeration", "bound": f"8 tree shapes over <= 5 sections (two ordered parents, two levels) x {120 if thorough else 40} seeded key assignments, each with one source, with a second source redefining a section and with further sources redefining the collapsed section "
            "(self-inherit through the sources at any position among the bases), every multi-source case also with the sources added one by one and the section collapsed after each, every case also on a manager built over stale content of the same sources that are then changed in place and reloaded; 6 cyclic / dangling graphs, 3 cycles closing on a section first named by another one, 5 diamond-shaped ones (two of them with a cycle below the join), 13 of these again with section names that are run-time strings (equal but not identical objects)", "cases": cases, "failures": fails}


def t_render_value(ex):
    """_ConfigStack.render_value: among the stacked sections of a key (own section first, then the inherited ones in the order they were
    collected), the value comes from the first one that sets the key; None when none does -- for any number of stacked sections"""
    import z3
    from pyvc.api import call, Interp
    from pyvc.interp import LoopSpec
    from pyvc.loops import IterView
    from pyvc.models import Model, ModelHost
    from pyvc.sym import KInt, SBool, SInt, And, OutOfSubset
    from pyvc import theory
    P = "C43._ConfigStack.render_value"
    n = KInt.fresh("stacked_sections")
    ex.assume(n >= 0)
    HAS = theory.ufun("section_sets_key", z3.IntSort(), z3.BoolSort())
    manager, the_key = object(), "the-key"
    asked = []

    class Section(ModelHost):
        def __init__(self, j):
            self.j = j

        def contains(self, it_, x):
            asked.append(x)
            return SBool(HAS(self.j.t if isinstance(self.j, SInt) else z3.IntVal(self.j)))

        def getattr(self, it_, name):
            if name == "render_value":
                return Model(lambda it__, m, k, t: ("rendered", self.j, m, k, t), "section.render_value")
            raise OutOfSubset(name)

    class Data(ModelHost):
        def __init__(self, j):
            self.j = j

        def getattr(self, it_, name):
            if name == "section":
                return Section(self.j)
            raise OutOfSubset(name)

    class Stack(ModelHost):
        def getattr(self, it_, name):
            if name == "get":
                return Model(lambda it__, k, d=None: IterView(n, lambda j: Data(j if isinstance(j, (int, SInt)) else SInt(j)), "stack[key]") if k == the_key else d, "dict.get")
            raise OutOfSubset(name)

    def inv(L, k):
        j = z3.Int("j!c43")
        return SBool(z3.ForAll([j], z3.Implies(z3.And(j >= 0, j < (k.t if isinstance(k, SInt) else k)), z3.Not(HAS(j)))))
    it = Interp(ex, label=P, loops={("_ConfigStack.render_value", 0): LoopSpec(inv)})
    out = call(it, it.target(CEN, "_ConfigStack.render_value"), Stack(), manager, the_key, "str")
    ex.oblige(f"{P}.raises.nothing", not out.raised, kind="exceptional-postcondition")
    if out.raised:
        return
    r = out.value
    j = z3.Int("j!c43post")
    if r is None:
        ex.cover("no section sets the key")
        ex.oblige(f"{P}.ensures.None_only_when_no_stacked_section_sets_the_key", SBool(z3.ForAll([j], z3.Implies(z3.And(j >= 0, j < n.t), z3.Not(HAS(j))))))
    else:
        ex.cover("some section sets the key")
        ok = isinstance(r, tuple) and r[0] == "rendered" and r[2] is manager and r[3] == the_key and r[4] == "str"
        ex.oblige(f"{P}.ensures.value_rendered_by_a_stacked_section_with_the_callers_arguments", ok)
        if ok:
            w = r[1].t if isinstance(r[1], SInt) else z3.IntVal(r[1])
            ex.oblige(f"{P}.ensures.it_is_the_first_stacked_section_that_sets_the_key",
                      SBool(z3.And(w >= 0, w < n.t, HAS(w), z3.ForAll([j], z3.Implies(z3.And(j >= 0, j < w), z3.Not(HAS(j)))))))


def tasks():
    return [Task("C43.collapse", None, [(CEN, "ConfigManager._get_inherited_sections"), (CEN, "ConfigManager.collapse_section"), (CEN, "ConfigManager.add_config_source"), (CEN, "ConfigManager.collapse_named_section"), (CEN, "ConfigManager.reload"), (CEN, "ConfigManager._integrate_config_source")], enumerate=enum_graphs),
            Task("C43.render_value", t_render_value, [(CEN, "_ConfigStack.render_value")])]


REPLAY = {}
