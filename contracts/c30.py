"""C30 -- world-file updates record exactly the requested entries (DESIGN.md section 4, C30)."""
import z3
from pyvc.api import Task, call, Interp
from pyvc.sym import KStr, KSet, KSeq, SStr, SBool, SObj, MutSet, Opt, And, Or, Not, Implies, SSeq
from pyvc import ghost, theory, models

PROPERTY = "C30"
FILE = "src/pkgcore/pkgsets/filelist.py"

MANIFEST = {
    "text": "Unbounded proof over all keys, all slot strings (any length, or None) and all existing entry sets that "
            "WorldFile._modify adds/removes exactly `key` (no slot, or slot '0') or `key:slot`, leaving every other entry "
            "untouched, and that FileList.flush writes the sorted entries through AtomicWriteFile with close() only after the "
            "complete text was written and discard() on every failure (fault injected at open/write/close); and that pmerge's "
            "update_worldset performs exactly the requested add / remove followed by one flush (no flush when there was nothing to remove, nothing without a world set).",
    "note": "Trusted: atoms are identified with their text (atom(s) is modelled as s; atom parsing is C03's subject); "
            "AtomicWriteFile's contract (target replaced only by close(), one rename); sorted() returns a sorted permutation; "
            "the pyvc encoder.",
}
ASSUMPTIONS = [
    "an atom is identified with its text: atom(key) / atom(key + ':' + slot) are modelled as those strings",
    "snakeoil.fileutils.AtomicWriteFile: content becomes visible at the target only through close() (one rename); discard() drops the temp file",
    "sorted(set) is a sorted duplicate-free enumeration of the set (uninterpreted is_sorted predicate)",
]


def _atom_model(it, s, *a, **k):
    return s


def entry_spec(key, slot):
    """the property's statement: name, or name:slot for a non-zero slot."""
    plain = Or(SBool(slot.isnone), slot.val == "", slot.val == "0")
    return SStr(z3.If(plain.t, key.t, z3.Concat(key.t, z3.StringVal(":"), slot.val.t)))


def t_modify(ex):
    from pkgcore.pkgsets.filelist import WorldFile, FileList
    from pkgcore.ebuild.atom import atom
    it = Interp(ex, label="C30.WorldFile._modify", models={atom: _atom_model})
    fn = it.target(FILE, "WorldFile._modify")
    key = KStr.fresh("key")
    slot = Opt(z3.Bool("slot_is_none"), KStr.fresh("slot"))
    before = KSet(KStr).fresh("entries")
    atoms = MutSet(before)
    wf = SObj(WorldFile, {"_atoms": atoms})
    a = SObj(atom, {"key": key, "slot": slot})
    adding = ex.choose(2) == 0
    func = FileList.add if adding else FileList.remove
    ex.inputs.update({"key": key, "slot": slot, "entries": before, "op": "add" if adding else "remove"})
    out = call(it, fn, wf, a, func)
    want = entry_spec(key, slot)
    op = "add" if adding else "remove"
    P = f"C30.WorldFile._modify.{op}"
    ex.cover(op)
    if out.raised:
        if adding:
            ex.oblige(f"{P}.raises.nothing", False, kind="exceptional-postcondition")
        else:
            ex.oblige(f"{P}.raises.keyerror_only_when_absent",
                      And(out.raised_cls(KeyError), Not(before.contains(want)), atoms.val == before), kind="exceptional-postcondition")
        return
    if adding:
        ex.oblige(f"{P}.ensures.exactly_the_entry_added", atoms.val == before.with_(want))
    else:
        ex.oblige(f"{P}.ensures.exactly_the_entry_removed", And(atoms.val == before.without(want), before.contains(want)))


def t_flush(ex):
    from pkgcore.pkgsets.filelist import FileList
    from snakeoil.fileutils import AtomicWriteFile
    it = Interp(ex, label="C30.FileList.flush", models={AtomicWriteFile: ghost.awf_contract()})
    fn = it.target(FILE, "FileList.flush")
    entries = KSet(KStr).fresh("entries")
    fl = SObj(FileList, {"_atoms": MutSet(entries), "path": "/world", "gid": 0, "mode": 0o644})
    out = call(it, fn, fl)
    tr = it.trace
    kinds = [e.kind for e in tr]
    P = "C30.FileList.flush"
    faults = [e for e in tr if e.kind == "fault"]
    if faults:
        ex.cover("fault-path")
        ex.oblige(f"{P}.fault.exception_propagates", out.raised and out.raised_cls(OSError), kind="exceptional-postcondition")
        opened = "awf_open" in kinds
        ex.oblige(f"{P}.fault.target_never_replaced", "awf_close" not in kinds, kind="effect-invariant")
        ex.oblige(f"{P}.fault.temp_discarded", (not opened) or kinds[-1] == "awf_discard", kind="effect-invariant")
        return
    ex.cover("normal-path")
    ex.oblige(f"{P}.raises.nothing_without_fault", not out.raised, kind="exceptional-postcondition")
    ex.oblige(f"{P}.effects.open_write_close_in_order", kinds == ["awf_open", "awf_write", "awf_close"], kind="effect-invariant")
    if kinds != ["awf_open", "awf_write", "awf_close"]:
        return
    ex.oblige(f"{P}.effects.writes_to_own_path", tr[0].path == "/world" and getattr(tr[0], "gid", None) == 0 and getattr(tr[0], "perms", None) == 0o644)
    data = tr[1].data
    ok = isinstance(data, SStr) and data.t.decl().name() == "str_join" and z3.simplify(data.t.arg(0) == z3.StringVal("\n")).eq(z3.BoolVal(True))
    ex.oblige(f"{P}.ensures.text_is_newline_join", bool(ok))
    if ok:
        seq = SSeq(data.t.arg(1), KSeq(KStr, "list"))
        srt = theory.ufun("is_sorted_str", seq.t.sort(), z3.BoolSort())
        ex.oblige(f"{P}.ensures.text_lists_exactly_the_entries", seq.as_set() == entries)
        ex.oblige(f"{P}.ensures.text_is_sorted", SBool(srt(seq.t)))


def t_update_worldset(ex):
    """pmerge's entry point: one add / remove followed by exactly one flush; nothing for a missing set; no flush when there was nothing to remove"""
    from pyvc.models import Model, ModelHost
    from pyvc.interp import PyRaise
    from pyvc.sym import OutOfSubset
    mode = ("add", "add_already_in_memory", "remove_present", "remove_absent", "no_world_set")[ex.choose(5)]
    P = f"C30.update_worldset[{mode}]"
    trace = []

    class World(ModelHost):
        def getattr(self, it_, name):
            if name == "add":
                return Model(lambda it__, pkg: trace.append(("add", pkg)), "world.add")
            if name == "remove":
                def rm(it__, pkg):
                    trace.append(("remove", pkg))
                    if mode == "remove_absent":
                        raise PyRaise(KeyError(pkg))
                return Model(rm, "world.remove")
            if name == "flush":
                return Model(lambda it__: trace.append(("flush",)), "world.flush")
            raise OutOfSubset(f"world_set.{name}")

        def len(self, it_):
            # the in-memory set; an add of an entry it already holds (e.g. the retry of an interrupted update) leaves the length as it was
            return size0 if mode == "add_already_in_memory" or not any(t[0] == "add" for t in trace) else size0 + 1
    it = Interp(ex, label=P)
    pkg = KStr.fresh("pkg")
    from pyvc.sym import KInt
    size0 = KInt.fresh("entries_in_memory")
    ex.assume(size0 >= 0)
    ws = None if mode == "no_world_set" else World()
    fn = it.target("src/pkgcore/scripts/pmerge.py", "update_worldset")
    out = call(it, fn, ws, pkg, remove=True) if mode.startswith("remove") else call(it, fn, ws, pkg)
    ex.oblige(f"{P}.raises.nothing", not out.raised, kind="exceptional-postcondition")
    if out.raised:
        return
    want = {"add": [("add", pkg), ("flush",)], "add_already_in_memory": [("add", pkg), ("flush",)], "remove_present": [("remove", pkg), ("flush",)], "remove_absent": [("remove", pkg)], "no_world_set": []}[mode]
    ex.oblige(f"{P}.ensures.exactly_the_requested_change_then_one_flush_unless_nothing_changed",
              len(trace) == len(want) and all(a[0] == b[0] and (len(a) == 1 or a[1] is b[1]) for a, b in zip(trace, want)))


def enum_world(seed):
    """the real WorldFile driven through pmerge.update_worldset: random add / remove sequences with slots of every shape, some updates
    interrupted at the final rename; after every update that returned, the file holds exactly the entries of the reference set; an
    interrupted update leaves the file as it was and its retry records the entry"""
    import os
    import random
    import shutil
    import tempfile
    from unittest import mock
    from pkgcore.ebuild.atom import atom
    from pkgcore.pkgsets.filelist import WorldFile
    from pkgcore.scripts import pmerge
    rnd = random.Random(seed + 3030)
    scratch = tempfile.mkdtemp(prefix="c30.", dir=os.environ.get("PYVC_SCRATCH", "/var/tmp"))
    names = ["dev-util/foo", "dev-lang/python", "app-misc/bar"]
    slots = [None, "0", "1", "10", "3.11", "0.5", "2_x", "3.0-gtk3", "3.0"]
    cases, fails = 0, []

    def entry(a):
        return a.key if not a.slot or a.slot == "0" else f"{a.key}:{a.slot}"
    try:
        for trial in range(120):
            path = os.path.join(scratch, f"world{trial}")
            initial = sorted({entry(atom(n + (f":{s_}" if s_ else ""))) for n, s_ in [(rnd.choice(names), rnd.choice(slots)) for _ in range(rnd.randint(0, 3))]})
            open(path, "w").write("\n".join(initial))
            ws = WorldFile(path, gid=os.getgid())
            model = set(initial)      # what the set is meant to hold
            on_disk = set(initial)
            hist = []
            for step in range(rnd.randint(2, 6)):
                if trial % 2:
                    ws = WorldFile(path, gid=os.getgid())     # every other trial: each update by a newly opened set (one pmerge run after another, however quickly)
                a = atom(rnd.choice(names) + ((":" + s_) if (s_ := rnd.choice(slots)) else ""))
                remove = rnd.random() < .4
                interrupt = rnd.random() < .25
                hist.append(("remove " if remove else "add ") + str(a) + (" (interrupted at the rename)" if interrupt else ""))
                e = entry(a)
                if remove and e not in model:
                    hist.pop()
                    continue
                (model.discard if remove else model.add)(e)
                cases += 1
                try:
                    if interrupt:
                        with mock.patch("os.rename", side_effect=OSError(5, "injected")):
                            pmerge.update_worldset(ws, a, remove=remove)
                    else:
                        pmerge.update_worldset(ws, a, remove=remove)
                        on_disk = set(model)
                except OSError:
                    if trial % 2:
                        model = set(on_disk)      # the next request comes from a newly opened set: what the failed update had in memory is gone with it
                except Exception as exc:
                    if len(fails) < 4:
                        fails.append({"model": {"initial": initial, "history": list(hist)},
                                      "detail": f"world file {initial} after {hist}: the last update raised {type(exc).__name__}: {exc}"})
                    break
                got = set(x for x in open(path).read().split("\n") if x)
                if got != on_disk and len(fails) < 4:
                    fails.append({"model": {"initial": initial, "history": list(hist)},
                                  "detail": f"world file {initial} after {hist}: the file holds {sorted(got)}, expected {sorted(on_disk)}"})
                    break
                if any(n_.startswith(".update.") or n_.endswith(".new") for n_ in os.listdir(scratch)):
                    pass
    finally:
        shutil.rmtree(scratch, ignore_errors=True)
    return {"name": "C30.world_updates.bounded_enumeration", "bound": "120 seeded world files (0..3 entries) x 2..6 add / remove requests over 3 packages and 9 slot shapes through pmerge.update_worldset on the real WorldFile (in every other file each request through a newly opened WorldFile), "
            "a quarter of the updates interrupted at the final rename (and later retried by chance); file content compared after every step", "cases": cases, "failures": fails}


def t_slotatom(ex):
    """slotatom_if_slotted(repos, atom): an atom without a slot, and an atom with ANY slot string other than "0" (0.1, 01, 3.12 ...), goes on to
    update_worldset as it is -- the same object, nothing raised, the repository not even asked.  (Slot 0 itself -- recorded by the bare name when the
    repository holds the package in one slot -- builds a set whose size the engine cannot take: that branch stays with the bounded enumeration.)"""
    import types
    import z3
    from pyvc.api import call, Interp
    from pyvc.models import Model, ModelHost
    from pyvc.sym import KStr, SBool, SObj, OutOfSubset
    import pkgcore.scripts.pmerge as M
    shape = ("no slot", "a slot other than 0")[ex.choose(2)]
    P = f"C30.slotatom_if_slotted[{shape}]"
    slot = None if shape == "no slot" else KStr.fresh("slot") if shape != "slot 0" else "0"
    if shape == "a slot other than 0":
        ex.assume(slot != "0")
        ex.assume(slot.length() >= 1)
        ex.inputs.update({"slot": slot})
    asked = []
    nmatch = ex.choose(3) if shape == "slot 0" else 0
    found = [types.SimpleNamespace(slot=("0", "7")[ex.choose(2)]) for i in range(nmatch)]

    class Repo(ModelHost):
        def getattr(self, it_, name):
            if name == "itermatch":
                def itermatch(it__, a, **kw):
                    asked.append(a)
                    return list(found)
                return Model(itermatch, "repos.itermatch")
            raise OutOfSubset(name)
    checkatom = SObj(types.SimpleNamespace, {"slot": slot, "key": "cat/pkg"})
    it = Interp(ex, label=P, models={M.atom: lambda it_, s_, *a, **k: ("atom", s_)})
    out = call(it, it.target("src/pkgcore/scripts/pmerge.py", "slotatom_if_slotted"), Repo(), checkatom)
    ex.oblige(f"{P}.raises.nothing", not out.raised, kind="exceptional-postcondition")
    if out.raised:
        return
    ex.cover("returns")
    if shape != "slot 0":
        ex.oblige(f"{P}.ensures.the_atom_goes_on_unchanged", out.value is checkatom)
        ex.oblige(f"{P}.ensures.the_repository_is_not_consulted", asked == [])


def replay_slotatom(model):
    """the real slotatom_if_slotted on an atom-like object with the counter-model's slot, the package present in the repository in that slot"""
    import types
    from pkgcore.scripts.pmerge import slotatom_if_slotted
    slot = model.get("slot")
    asked = []
    a = types.SimpleNamespace(slot=slot, key="cat/pkg")
    repo = types.SimpleNamespace(itermatch=lambda x, **kw: (asked.append(x), [types.SimpleNamespace(slot=slot)])[1])
    try:
        r = slotatom_if_slotted(repo, a)
    except Exception as e:
        return True, f"slotatom_if_slotted(<repository holding cat/pkg in slot {slot!r}>, cat/pkg:{slot}) raised {type(e).__name__}: {e}"
    return (r is not a or bool(asked)), f"slot {slot!r}: returned {'the atom itself' if r is a else repr(r)}, repository consulted {len(asked)} time(s); a slot other than '0' goes on unchanged without a look-up"


def enum_pmerge_requests(seed):
    """a request as pmerge makes it: the atom goes through slotatom_if_slotted (with the repository the package was matched in) and then through
    update_worldset on the real WorldFile.  For every slot shape, with the package present in the repository in that slot: adding records exactly
    the name (no slot, or slot 0) or name:slot, removing takes exactly that entry out again, the other entries stay"""
    import os
    import shutil
    import tempfile
    from pkgcore.ebuild.atom import atom
    from pkgcore.pkgsets.filelist import WorldFile
    from pkgcore.scripts import pmerge
    from pkgcore.test.misc import FakePkg, FakeRepo
    scratch = tempfile.mkdtemp(prefix="c30p.", dir=os.environ.get("PYVC_SCRATCH", "/var/tmp"))
    slots = [None, "0", "1", "10", "3.11", "0.5", "01", "0.1", "2_x", "3.0-gtk3", "3.12"]
    others = ["app-misc/bar", "dev-lang/python:3.11", "dev-util/other:0.5"]
    cases, fails = 0, []
    try:
        for i, s_ in enumerate(slots):
            for extra_slot in (False, True):
                cases += 1
                pkgs = [FakePkg("dev-util/foo-1", slot=s_ or "0")] + ([FakePkg("dev-util/foo-2", slot="7")] if extra_slot else [])
                repo = FakeRepo(pkgs=pkgs)
                a = atom("dev-util/foo" + (f":{s_}" if s_ else ""))
                want = "dev-util/foo" if s_ in (None, "0") else f"dev-util/foo:{s_}"
                path = os.path.join(scratch, f"world{i}{int(extra_slot)}")
                open(path, "w").write("\n".join(others))
                model = {"atom": str(a), "repository": [f"{p.cpvstr}:{p.slot}" for p in pkgs], "world_before": others}
                try:
                    ws = WorldFile(path, gid=os.getgid())
                    pmerge.update_worldset(ws, pmerge.slotatom_if_slotted(repo, a))
                    got = sorted(x for x in open(path).read().split("\n") if x)
                    if got != sorted(others + [want]):
                        if len(fails) < 4:
                            fails.append({"model": model, "detail": f"adding {a} (repository {model['repository']}) to the world file {others}: the file holds {got}, expected {sorted(others + [want])}"})
                        continue
                    ws = WorldFile(path, gid=os.getgid())
                    pmerge.update_worldset(ws, pmerge.slotatom_if_slotted(repo, a), remove=True)
                    got = sorted(x for x in open(path).read().split("\n") if x)
                    if got != sorted(others) and len(fails) < 4:
                        fails.append({"model": model, "detail": f"removing {a} again: the file holds {got}, expected {sorted(others)}"})
                except Exception as e:
                    if len(fails) < 4:
                        fails.append({"model": model, "detail": f"recording {a} (repository {model['repository']}) as pmerge does raised {type(e).__name__}: {e}"})
    finally:
        shutil.rmtree(scratch, ignore_errors=True)
    return {"name": "C30.pmerge_requests.bounded_enumeration", "bound": f"{len(slots)} slot shapes (none, 0, slots beginning with 0, multi-character, dotted) x the package alone / next to another slot in the repository: "
            "slotatom_if_slotted + update_worldset add, then remove, on a world file with 3 other entries", "cases": cases, "failures": fails}


def tasks():
    return [
        Task("C30.WorldFile._modify", t_modify, [(FILE, "WorldFile._modify"), (FILE, "FileList.add"), (FILE, "FileList.remove")],
             fallback={"unroll": 3}),
        Task("C30.FileList.flush", t_flush, [(FILE, "FileList.flush")]),
        Task("C30.update_worldset", t_update_worldset, [("src/pkgcore/scripts/pmerge.py", "update_worldset")], enumerate=enum_world),
        Task("C30.slotatom_if_slotted", t_slotatom, [("src/pkgcore/scripts/pmerge.py", "slotatom_if_slotted")]),
        Task("C30.pmerge_requests", None, [("src/pkgcore/scripts/pmerge.py", "slotatom_if_slotted"), ("src/pkgcore/scripts/pmerge.py", "update_worldset")], enumerate=enum_pmerge_requests),
    ]


# ---------------------------------------------------------------- replay ----
def replay_modify(model):
    import tempfile, os
    from pkgcore.pkgsets.filelist import WorldFile
    from pkgcore.ebuild.atom import atom
    key, slot, op = model["key"], model["slot"], model["op"]
    # make the model's strings valid atom text where they are not (the proof quantifies over all strings)
    import re
    if not re.fullmatch(r"[a-z][a-z0-9]*/[a-z][a-z0-9]*", key or ""):
        key = "cat/pkg"
    if slot is not None and not re.fullmatch(r"[A-Za-z0-9_][A-Za-z0-9+_.-]*", slot):
        slot = "".join(c if re.fullmatch(r"[A-Za-z0-9_]", c) else "1" for c in slot) or None
    want = key if slot in (None, "", "0") else f"{key}:{slot}"
    with tempfile.TemporaryDirectory(dir="/var/tmp") as d:
        p = os.path.join(d, "world")
        existing = {"other/entry"} | ({want} if op == "remove" else set())
        open(p, "w").write("\n".join(sorted(existing)))
        wf = WorldFile(p, gid=os.getgid())
        a = atom(key if slot is None else f"{key}:{slot}")
        raised = None
        try:
            (wf.add if op == "add" else wf.remove)(a)
        except KeyError as e:
            raised = e
        wf.flush()
        got = set(open(p).read().split())
    exp = (existing | {want}) if op == "add" else (existing - {want})
    return (got != exp or raised is not None), (f"{op} {a} to {sorted(existing)} -> file has {sorted(got)}, expected {sorted(exp)}"
                                                + (f"; raised KeyError({raised}) although the entry was present" if raised else ""))


REPLAY = {"C30.WorldFile._modify": replay_modify, "C30.slotatom_if_slotted[a slot other than 0]": replay_slotatom}
