"""C19 -- an interrupted merge never leaves a replaced file half-written (DESIGN.md section 4, C19)."""
import errno
import os
from pyvc.api import Task, call, Interp
from pyvc.sym import SBool, And
from contracts import fs_model as M
from contracts import c18

PROPERTY = "C19"
OPS = "src/pkgcore/fs/ops.py"
LOC, NEW = c18.LOC, c18.NEW

MANIFEST = {
    "text": "Crash-point invariant over the ghost operating system: on every path through copyfile (every entry type, every kind of "
            "pre-existing non-directory at the location, every combination of recorded attributes) and through do_link (target "
            "exists, every error outcome), every prefix of the effect trace leaves the location either untouched or completely "
            "replaced: all creating and attribute effects name location#new, the only effect naming the location is the single final "
            "rename of location#new onto it, and nothing follows that rename.  Because the invariant holds after every effect, it "
            "holds for a stop at any point and for any error return.  A native enumeration interrupts real merges of small trees into "
            "pre-existing roots at every os call and compares each pre-existing non-directory with its old and its new state.",
    "note": "Trusted: rename(2) is atomic; data.transfer_to_path writes only the path it is given; the ghost os model; pyvc encoder.  "
            "Attribute updates of pre-existing directories (chown then utime on the directory itself) are not atomic by nature and are "
            "not claimed.",
}
ASSUMPTIONS = ["os.rename replaces its destination atomically", "a stop between two os calls leaves the effects of the calls made so far"]


def crash_invariant(ex, P, effects, existed):
    """every prefix: LOC only changes through one final rename from NEW"""
    if not existed:
        return
    touching = [i for i, e in enumerate(effects) if e[1] == LOC and e[0] != "rename" or (e[0] in ("rename", "link") and e[0] == "link" and e[1] == LOC)]
    ex.oblige(f"{P}.invariant.no_effect_names_the_existing_location_except_the_rename", touching == [], kind="invariant",
              note=f"effects naming the location directly: {[effects[i][:2] for i in touching]}")
    renames = [i for i, e in enumerate(effects) if e[0] == "rename" and e[2] == LOC]
    ex.oblige(f"{P}.invariant.at_most_one_rename_onto_the_location_and_it_is_last", len(renames) <= 1 and all(i == len(effects) - 1 for i in renames) and all(effects[i][1] == NEW for i in renames), kind="invariant")


def t_copyfile(ex):
    kind = c18.KINDS[ex.choose(4)]
    pre = ("file", "sym", "fifo")[ex.choose(3)]
    present = {a: bool(ex.choose(2)) for a in ("mode", "uid", "gid", "mtime")}
    fault = (None, "lchown", "chmod", "utime", "rename")[ex.choose(5)]
    P = f"C19.copyfile[{kind} over {pre}{', ' + fault + ' fails' if fault else ''}]"
    it = Interp(ex, label=P)
    tr = M.Trace()
    obj = M.fs_obj(kind, LOC, ex, present=present)
    if kind == "file":
        obj.fields["data"].trace = tr
    M.install(it, ex, tr, existing=M.fs_obj(pre, LOC, ex, tag="existing"), faults={fault: errno.EIO} if fault else {})
    out = call(it, it.target(OPS, "copyfile"), obj, mkdirs=True)
    crash_invariant(ex, P, tr.effects, True)
    if not out.raised:
        ex.oblige(f"{P}.ensures.success_means_replaced", bool(tr.effects) and tr.effects[-1] == ("rename", NEW, LOC))
    if fault:
        # an operation that failed (EIO) must not be papered over: the new entry goes into place only with everything a fault-free run does to it
        it0 = Interp(ex, label=P + ".fault_free_reference")
        tr0 = M.Trace()
        obj0 = obj
        if kind == "file":
            obj0 = M.fs_obj(kind, LOC, ex, present=present)
            obj0.fields["data"].trace = tr0
        M.install(it0, ex, tr0, existing=M.fs_obj(pre, LOC, ex, tag="existing"))
        call(it0, it0.target(OPS, "copyfile"), obj0, mkdirs=True)
        renamed = any(e[0] == "rename" and e[2] == LOC for e in tr.effects)
        ops_of = lambda t: [e[:2] for e in t.effects]
        ex.oblige(f"{P}.ensures.after_a_failed_operation_the_entry_is_replaced_only_with_its_complete_metadata", (not renamed) or ops_of(tr) == ops_of(tr0),
                  note=f"with the fault: {ops_of(tr)}; fault-free: {ops_of(tr0)}")


def t_do_link(ex):
    scenario = ("exists", "exists_exdev_second", "exists_rename_exdev", "exists_rename_other")[ex.choose(4)]
    P = f"C19.do_link[{scenario}]"
    it = Interp(ex, label=P)
    tr = M.Trace()
    src = M.fs_obj("file", "/root/dir/first", ex, tag="src")
    trg = M.fs_obj("file", LOC, ex, tag="trg")
    M.install(it, ex, tr)
    n = {"link": 0}

    def m_link(it_, s, d):
        n["link"] += 1
        if n["link"] == 1:
            raise M.os_error(errno.EEXIST)
        if scenario == "exists_exdev_second":
            raise M.os_error(errno.EXDEV)
        tr.add("link", d, s)
    it.models[os.link] = m_link
    if scenario.startswith("exists_rename"):
        it.models[os.rename] = lambda it_, s, d: (_ for _ in ()).throw(M.os_error(errno.EXDEV if scenario == "exists_rename_exdev" else errno.EPERM))
    call(it, it.target(OPS, "do_link"), src, trg)
    crash_invariant(ex, P, tr.effects, True)


# ------------------------------------------------------------------ bounded stand-in: real interrupted merges ----
class _Stop(BaseException):
    pass


def enum_crashes(seed):
    import random
    import shutil
    import tempfile
    from pkgcore.fs import livefs, contents, ops
    scratch = tempfile.mkdtemp(prefix="c19.", dir=os.environ.get("PYVC_SCRATCH", "/var/tmp"))
    fails, cases = [], 0
    WRAP = ("lchown", "chmod", "utime", "mkdir", "symlink", "mkfifo", "mknod", "rename", "link", "unlink", "rmdir")

    class Proxy:
        def __init__(self, stop_at, eio=False):
            self.n, self.stop_at, self.eio, self.dead = 0, stop_at, eio, False

        def __getattr__(self, name):
            real = getattr(os, name)
            if name == "supports_follow_symlinks":
                # membership is tested on the function objects: the wrapped ones stand for the real ones (otherwise the code under test
                # silently takes its "platform cannot set a symlink's times" branch)
                return set(real) | {getattr(self, n) for n in WRAP if getattr(os, n) in real}
            if name not in WRAP:
                return real
            if name in self.__dict__.setdefault("_wrapped", {}):
                return self._wrapped[name]

            def f(*a, **k):
                if self.dead:
                    raise _Stop()       # a dead process performs no further file operation, whatever handlers its code has
                self.n += 1
                if self.n == self.stop_at:
                    if self.eio:
                        raise OSError(errno.EIO, "injected I/O error")
                    self.dead = True
                    raise _Stop()
                return real(*a, **k)
            self._wrapped[name] = f
            return f
    mode_eio = [0]
    try:
        for s in range(18):
            rnd = random.Random(seed * 1000 + s)
            names = rnd.sample(c18.NAMES, 4)
            src = os.path.join(scratch, f"s{s}")
            if s < 12:
                c18._build(rnd, src, names)
            elif s >= 15:
                # files whose content is byte for byte what the root already holds under those names, with other owners / modes / times
                names = ["a", "b", "d1/a"]
                os.makedirs(os.path.join(src, "d1"))
                for i_, n in enumerate(names):
                    fp = os.path.join(src, n)
                    open(fp, "w").write(f"same content {n}")
                    os.chown(fp, 1234 + s, 77)
                    os.chmod(fp, ((0o700, 0o4711, 0o640) if s != 16 else (0, 0o4711, 0o004))[i_])     # one round with a file of mode 0: "no permission at all" is a mode like any other
                    os.utime(fp, (1500 + i_ + s,) * 2)
            else:
                # a hardlink group of three names in the package, merged over regular files of the same names
                names = ["a", "b", "d1/a", "x y"][: 3 + s % 2]
                os.makedirs(os.path.join(src, "d1"))
                open(os.path.join(src, "a"), "w").write(f"group {s}")
                os.link(os.path.join(src, "a"), os.path.join(src, "b"))
                os.link(os.path.join(src, "a"), os.path.join(src, "d1/a"))
            want = c18._snapshot(src)
            stop = 1
            while True:
                root = os.path.join(scratch, f"r{s}_{stop}")
                if s < 12:
                    c18._build(random.Random(seed * 77 + s), root, names[:3])   # overlapping names: entries get replaced
                else:
                    os.makedirs(os.path.join(root, "d1"))
                    for n in names:
                        open(os.path.join(root, n), "w").write(f"same content {n}" if s >= 15 else f"old {n}")
                        os.utime(os.path.join(root, n), (900,) * 2)
                os.makedirs(root, exist_ok=True)
                # pre-existing files that are hardlinked from elsewhere on the root (st_nlink > 1): replacing them must be just as atomic
                r2 = random.Random(seed * 31 + s)
                outside = os.path.join(root, ".outside")
                for dp, dn, fn in list(os.walk(root)):
                    for n in fn:
                        fp = os.path.join(dp, n)
                        if os.path.isfile(fp) and not os.path.islink(fp) and (s >= 12 or r2.random() < .5):
                            os.makedirs(outside, exist_ok=True)
                            os.link(fp, os.path.join(outside, f"l{len(os.listdir(outside))}"))
                before = c18._snapshot(root)
                if any((v[0] == "dir") != (before[k][0] == "dir") for k, v in want.items() if k in before):
                    break
                cset = contents.contentsSet(livefs.scan(src, offset=src))
                eio = bool(mode_eio[0])
                proxy = Proxy(stop, eio=eio)
                real_os = ops.os
                ops.os = proxy
                stopped = False
                try:
                    ops.merge_contents(cset, offset=root)
                except _Stop:
                    stopped = True
                except Exception:
                    pass
                finally:
                    ops.os = real_os
                cases += 1
                after = c18._snapshot(root)
                for k, b in before.items():
                    if b[0] == "dir":
                        continue
                    a = after.get(k)
                    w = want.get(k)
                    old_ok = a is not None and a[:6] == b[:6]
                    new_ok = a is not None and w is not None and a[0] == w[0] and a[5] == w[5] and (w[0] == "sym" or (a[1:4] == w[1:4] and (w[0] != "file" or a[4] == w[4])))
                    if not (old_ok or new_ok) and len(fails) < 4:
                        fails.append({"model": {"seed": s, "stop_after_os_call": stop - 1, "eio_instead_of_stop": bool(mode_eio[0]), "path": k, "before": list(map(str, b[:6])), "after": list(map(str, (a or ("gone",))[:6])), "new": list(map(str, (w or ("not in package",))[:6]))},
                                      "detail": f"merge {'hit by EIO at' if mode_eio[0] else 'interrupted before'} os call #{stop}: pre-existing {k} is neither its old state {b[:5]} nor its complete new state {(w or ())[:5]}: {(a or ('gone',))[:5]}"})
                for k in after:
                    if k not in before and k not in want and not k.endswith("#new") and len(fails) < 4:
                        fails.append({"model": {"seed": s, "stop_after_os_call": stop - 1, "path": k}, "detail": f"merge interrupted before os call #{stop}: unrelated path {k} appeared"})
                shutil.rmtree(root, ignore_errors=True)
                fired = proxy.n >= stop
                if not fired:
                    if mode_eio[0]:
                        mode_eio[0] = 0
                        break
                    mode_eio[0], stop = 1, 1   # second pass over the same tree: the k-th call fails with EIO instead of the merge stopping dead
                    continue
                stop += 1
    finally:
        shutil.rmtree(scratch, ignore_errors=True)
    return {"name": "C19.interrupted_merges.bounded_enumeration", "bound": "12 seeded trees of 4 entries merged over roots holding 3 of the same names, 3 hardlink groups of three names merged over regular files, and 3 sets of files merged over files of identical content but other owner / mode / time; pre-existing files partly hardlinked from elsewhere on the root; the merge stopped dead before every os call in turn and, in a second pass, every os call in turn failing with EIO "
            "(lchown, chmod, utime, mkdir, symlink, mkfifo, mknod, rename, link, unlink, rmdir); each pre-existing non-directory compared with its old and its complete new state", "cases": cases, "failures": fails}


def tasks():
    return [
        Task("C19.copyfile", t_copyfile, [(OPS, "copyfile"), (OPS, "ensure_perms")]),
        Task("C19.do_link", t_do_link, [(OPS, "do_link")], enumerate=enum_crashes),
    ]


REPLAY = {}
