"""C21 -- protected configuration files are never silently overwritten or removed (DESIGN.md section 4, C21)."""
import itertools
import os
import types
from pyvc.api import Task, call, Interp
from pyvc.models import Model, ModelHost
from pyvc.sym import KBool, SBool, SObj, And, Or, Not, OutOfSubset

PROPERTY = "C21"
TRG = "src/pkgcore/ebuild/triggers.py"

MANIFEST = {
    "text": "Contracts on the ebuild merge triggers, run on the real code with the filesystem queries replaced by explicit descriptions: "
            "gen_config_protect_filter protects exactly the locations below offset/<dir> for every CONFIG_PROTECT directory and /etc "
            "that are not below offset/<dir> for a CONFIG_PROTECT_MASK directory, on directory boundaries (the built restriction is "
            "evaluated on a grid of locations, for / and a non-root offset, trailing slashes and duplicates in the settings); "
            "gen_collision_ignore_filter raises nothing for any mix of glob and existing-directory entries and turns a directory "
            "entry into dir/*; ConfigProtectInstall.trigger, for every combination of protected / ignored / identical and every listed "
            "set of pending ._cfg files with arbitrary 'same content' answers, moves exactly the protected, non-ignored, differing "
            "entries to dir/._cfgNNNN_name with NNNN the number of the first pending update with the same content, else one more than "
            "every pending number for that name (0000 if none), records the rename, and leaves every other entry alone; "
            "ConfigProtectInstall_restore puts the real names back; ConfigProtectUninstall.trigger drops from the uninstall set exactly "
            "the protected, non-ignored files whose content differs from the recorded one.  These scenario runs are bounded in the "
            "number of entries and pending files.  A native enumeration runs the triggers and a real merge / unmerge in scratch roots.",
    "note": "Trusted: collapse_envd's parsing of env.d, simple_chksum_compare (content equality through checksums), contentsSet "
            "operations (C22), StrGlobMatch / StrRegex; pyvc encoder.",
}
ASSUMPTIONS = ["simple_chksum_compare(a, b) decides 'same content' (its own contract -- yes exactly when both are files, share a checksum kind and agree on all shared kinds -- is checked for all values over four kinds: bounded in the kinds)", "entry locations in the install / uninstall sets carry the engine's offset (MergeEngine.generate_offset_cset)"]


def T():
    import pkgcore.ebuild.triggers as t
    return t


def t_protect_filter(ex):
    t = T()
    offset = ("/", "/mnt/root")[ex.choose(2)]
    protect = (["/etc"], ["/etc/", "/usr/share/config", "/etc"], ["/opt/app/conf/"], [])[ex.choose(4)]
    mask = ([], ["/etc/env.d"], ["/etc/env.d/", "/usr/share/config/sub"], ["/etc/foo"])[ex.choose(4)]
    P = f"C21.gen_config_protect_filter[offset={offset}, protect={protect}, mask={mask}]"
    it = Interp(ex, label=P)
    it.models[t.collapse_envd] = lambda it_, base: ({"CONFIG_PROTECT": list(protect), "CONFIG_PROTECT_MASK": list(mask)} if base == os.path.join(offset, "etc/env.d") else {}, set(), set())
    out = call(it, it.target(TRG, "gen_config_protect_filter"), offset)
    ex.oblige(f"{P}.raises.nothing", not out.raised, kind="exceptional-postcondition")
    if out.raised:
        return
    r = out.value
    root = offset.rstrip("/")

    def under(loc, d):
        d = root + "/" + d.strip("/")
        return loc.startswith(d + "/")
    bad = []
    for rel in ("/etc/conf", "/etc/env.d/00x", "/etc/env.dx/y", "/etc/foo", "/etc/foobar", "/etc/foo/bar", "/etcetera/x", "/usr/share/config/a", "/usr/share/config/sub/b", "/usr/share/configs/c",
                "/opt/app/conf/x", "/opt/app/confx", "/bin/sh", "/mnt/root/etc/conf"):
        loc = root + rel
        want = any(under(loc, d) for d in protect + ["/etc"]) and not any(under(loc, d) for d in mask)
        try:
            got = bool(r.match(loc))
        except Exception as e:
            got = f"raised {e!r}"
        if got != want:
            bad.append((loc, got, want))
    ex.oblige(f"{P}.ensures.protects_exactly_the_locations_below_a_protected_and_no_masked_directory_of_the_target_root", not bad, note=f"(location, filter says, wanted): {bad[:4]}")


def t_ignore_filter(ex):
    t = T()
    entries = ([], ["/lib/modules/*"], ["/var/lib/foo"], ["/var/lib/foo/", "*.bak", "/lib/modules"])[ex.choose(4)]
    P = f"C21.gen_collision_ignore_filter[{entries}]"
    it = Interp(ex, label=P)
    it.models[t.collapse_envd] = lambda it_, base: ({"COLLISION_IGNORE": " ".join(entries)} if entries else {}, set(), set())   # not an incremental: one string
    it.models[os.path.isdir] = lambda it_, p: not any(c in p for c in "*?")   # every non-glob entry names an existing directory
    out = call(it, it.target(TRG, "gen_collision_ignore_filter"), "/")
    ex.oblige(f"{P}.raises.nothing", not out.raised, kind="exceptional-postcondition")
    if out.raised:
        return
    r = out.value
    bad = []
    # not ignored: paths that merely begin like an ignored directory (its siblings), and paths that hold an entry somewhere in their middle
    outside = tuple((e.rstrip("/") + tail, False) for e in entries if "*" not in e for tail in (".conf", ".d/site.conf", "-data/db", "2")) + \
        tuple(("/etc" + e.rstrip("/*") + "/x.conf", False) for e in entries if e.startswith("/"))
    for loc, want in (("/x/.keep", True), ("/x/.keep_pkg-0", True), ("/etc/conf", False)) + outside + tuple((e.rstrip("/") + "/inside", True) for e in entries if "*" not in e) + \
            ((("/lib/modules/5.1/k.ko", True),) if any(e.startswith("/lib/modules") for e in entries) else ()) + ((("/etc/x.bak", True),) if "*.bak" in entries else ()):
        got = bool(r.match(loc))
        if got != want:
            bad.append((loc, got, want))
    ex.oblige(f"{P}.ensures.keep_files_and_exactly_what_lies_below_an_ignored_directory_are_ignored", not bad, note=f"(location, ignored, expected): {bad[:4]}")


PENDING = ([], ["._cfg0000_conf"], ["._cfg0000_conf", "._cfg0002_conf"], ["._cfg0001_conf", "._cfg0000_other", "._cfgXXXX_conf", "._cfg0007conf", "unrelated"], ["._cfg0003_conf", "._cfg0001_conf", "._cfg0002_conf"])
# protected files whose own name contains the separator of the ._cfgNNNN_ prefix, or digits
BASENAMES = ("conf", "sshd_config", "50_local.rules")


def t_install_trigger(ex):
    t = T()
    from pkgcore.fs import fs, contents
    offset = ("/", "/mnt/root")[ex.choose(2)]
    root = offset.rstrip("/")
    base = BASENAMES[ex.choose(len(BASENAMES))]
    pend = [n.replace("conf", base) if n.endswith("conf") else n for n in PENDING[ex.choose(len(PENDING))]]
    prot, ign, same = bool(ex.choose(2)), bool(ex.choose(2)), bool(ex.choose(2))
    P = f"C21.ConfigProtectInstall.trigger[offset={offset}, file={base}, pending={pend}, {'protected' if prot else 'unprotected'}, {'ignored' if ign else 'not ignored'}, {'identical' if same else 'differs'}]"
    it = Interp(ex, label=P)
    loc = root + "/etc/" + base
    new = fs.fsFile(loc, strict=False, mode=0o644)
    other = fs.fsFile(root + "/usr/bin/tool", strict=False)
    live = fs.fsFile(loc, strict=False, mode=0o600)
    install = contents.contentsSet([new, other])
    existing = contents.contentsSet([live])
    it.models[t.gen_config_protect_filter] = lambda it_, off, *a: types.SimpleNamespace(match=lambda l: prot)
    it.models[t.gen_collision_ignore_filter] = lambda it_, off: types.SimpleNamespace(match=lambda l: ign)
    asked_dirs = []
    it.models[t.listdir_files] = lambda it_, d: (asked_dirs.append(d), list(pend))[1]
    # which pending file has the same content as the incoming one: arbitrary
    same_as = {}

    def m_gen_obj(it_, path):
        return ("pending-file", path)
    it.models[t.livefs.gen_obj] = m_gen_obj

    def m_cmp(it_, a, b):
        if isinstance(a, tuple) and a[0] == "pending-file":
            if a[1] not in same_as:
                same_as[a[1]] = bool(ex.choose(2))
            return same_as[a[1]]
        return same
    it.models[t.simple_chksum_compare] = m_cmp
    me = SObj(t.ConfigProtectInstall, {"renames": {}, "extra_protects": (), "extra_disables": ()})
    out = call(it, it.target(TRG, "ConfigProtectInstall.trigger"), me, types.SimpleNamespace(offset=offset), existing, install)
    ex.oblige(f"{P}.raises.nothing", not out.raised, kind="exceptional-postcondition")
    if out.raised:
        return
    locs = sorted(x.location for x in install)
    renames = me.fields["renames"]
    if not (prot and not ign and not same):
        ex.oblige(f"{P}.ensures.entries_that_need_no_protection_are_left_alone", locs == sorted([loc, other.location]) and not renames)
        return
    valid = sorted((int(n[5:9]), n) for n in pend if n.startswith("._cfg") and n[5:9].isdigit() and n[9:10] == "_" and n[10:] == base)
    number = None
    seen_max = -1
    for num, name in valid:   # in directory listing order (sorted), as the property reads "an identical pending update"
        if same_as.get(root + "/etc/" + name):
            number = num
            break
        seen_max = max(seen_max, num)
    if number is None:
        number = max([n for n, _ in valid], default=-1) + 1
    want_loc = f"{root}/etc/._cfg{number:04d}_{base}"
    ex.oblige(f"{P}.ensures.pending_updates_are_looked_up_beside_the_file", asked_dirs == [root + "/etc"])
    ex.oblige(f"{P}.ensures.incoming_file_is_renamed_to_the_right_cfg_number", locs == sorted([want_loc, other.location]), note=f"install set now {locs}, wanted {want_loc}; identical-content answers {same_as}")
    ok_ren = len(renames) == 1 and [(k.location, v.location) for k, v in renames.items()] == [(want_loc, loc)]
    ex.oblige(f"{P}.ensures.the_rename_is_recorded_so_the_real_name_can_be_restored", ok_ren)
    # restore
    r2 = call(it, it.target(TRG, "ConfigProtectInstall_restore.trigger"), SObj(t.ConfigProtectInstall_restore, {"renames": renames}), types.SimpleNamespace(offset=offset), install)
    ex.oblige(f"{P}.restore.ensures.recorded_contents_keep_the_real_name", not r2.raised and sorted(x.location for x in install) == sorted([loc, other.location]) and not renames)


def t_uninstall_trigger(ex):
    t = T()
    from pkgcore.fs import fs, contents
    prot, ign, same = bool(ex.choose(2)), bool(ex.choose(2)), bool(ex.choose(2))
    gone = bool(ex.choose(2))
    replace_mode = bool(ex.choose(2))   # in a replace the engine also hands over old_cset, from which it rebuilds the removal set at the unmerge step
    P = f"C21.ConfigProtectUninstall.trigger[{'protected' if prot else 'unprotected'}, {'ignored' if ign else 'not ignored'}, {'unchanged' if same else 'edited'}{', vanished' if gone else ''}{', replace' if replace_mode else ''}]"
    it = Interp(ex, label=P)
    loc = "/etc/conf"
    rec = fs.fsFile(loc, strict=False, mode=0o644)
    live = fs.fsFile(loc, strict=False, mode=0o600)
    # as the merge engine wires them: "uninstall_existing" is an alias of "uninstall" and both hold the *live* entries of what the
    # package recorded; the recorded entries themselves are the package's raw contents
    uninstall = existing = contents.contentsSet([live, fs.fsFile("/usr/bin/tool", strict=False)])
    recorded_cset = contents.contentsSet([rec, fs.fsFile("/usr/bin/tool", strict=False, mode=0o755)])
    it.models[t.gen_config_protect_filter] = lambda it_, off, *a: types.SimpleNamespace(match=lambda l: prot and l == loc)
    it.models[t.gen_collision_ignore_filter] = lambda it_, off: types.SimpleNamespace(match=lambda l: ign)
    compared = []

    def m_cmp(it_, a, b):
        compared.append((a, b))
        if gone:
            from pyvc.interp import PyRaise
            raise PyRaise(FileNotFoundError(2, "gone"))
        return same
    it.models[t.simple_chksum_compare] = m_cmp
    old_cset = contents.contentsSet([fs.fsFile(loc, strict=False, mode=0o600), fs.fsFile("/usr/bin/tool", strict=False)])
    args = (existing, uninstall, recorded_cset) + ((old_cset,) if replace_mode else ())
    out = call(it, it.target(TRG, "ConfigProtectUninstall.trigger"), SObj(t.ConfigProtectUninstall, {}), types.SimpleNamespace(offset="/"), *args)
    ex.oblige(f"{P}.raises.nothing", not out.raised, kind="exceptional-postcondition")
    if out.raised:
        return
    ex.oblige(f"{P}.ensures.the_live_file_is_compared_with_what_the_package_recorded",
              all({id(a), id(b)} == {id(rec), id(live)} for a, b in compared) and (len(compared) == 1) == (prot and not ign), kind="effect-invariant")
    kept = prot and not ign and not same and not gone
    ex.oblige(f"{P}.ensures.an_edited_protected_file_is_taken_off_the_removal_list_and_nothing_else", sorted(x.location for x in uninstall) == sorted(([] if kept else [loc]) + ["/usr/bin/tool"]))
    if replace_mode:
        ex.oblige(f"{P}.ensures.and_off_the_set_the_replace_rebuilds_its_removal_list_from", sorted(x.location for x in old_cset) == sorted(([] if kept else [loc]) + ["/usr/bin/tool"]))


# ------------------------------------------------------------------ bounded stand-in: real triggers + merge in scratch roots ----
def enum_roots(seed):
    import random
    import shutil
    import tempfile
    from pkgcore.ebuild import triggers as t
    from pkgcore.fs import livefs, contents, ops
    scratch = tempfile.mkdtemp(prefix="c21.", dir=os.environ.get("PYVC_SCRATCH", "/var/tmp"))
    fails, cases = [], 0
    try:
        for s in range(60):
            rnd = random.Random(seed * 1000 + s)
            root, img = os.path.join(scratch, f"r{s}"), os.path.join(scratch, f"i{s}")
            os.makedirs(os.path.join(root, "etc/env.d"))
            os.makedirs(os.path.join(root, "var/lib/ign"))
            envd = rnd.choice(("", 'CONFIG_PROTECT="/opt/conf"\n', 'CONFIG_PROTECT="/opt/conf/"\nCONFIG_PROTECT_MASK="/etc/masked"\n', 'CONFIG_PROTECT_MASK="/etc/masked/"\nCOLLISION_IGNORE="/var/lib/ign"\n',
                               'CONFIG_PROTECT="/opt/conf /var/lib/ign"\nCOLLISION_IGNORE="' + os.path.join(root, "var/lib/ign") + '"\n'))
            if envd:
                open(os.path.join(root, "etc/env.d/10settings"), "w").write(envd)
            files = {}
            for rel in rnd.sample(["etc/a.conf", "etc/sub/b.conf", "etc/masked/c.conf", "opt/conf/d", "opt/confx/e", "usr/share/f", "var/lib/ign/g", "etc/sshd_config", "etc/sub/50_local.rules"], 5):
                state = rnd.choice(("absent", "same", "edited", "edited"))
                files[rel] = state
                p = os.path.join(img, rel)
                os.makedirs(os.path.dirname(p), exist_ok=True)
                open(p, "w").write(f"new content of {rel}\n")
                if state != "absent":
                    q = os.path.join(root, rel)
                    os.makedirs(os.path.dirname(q), exist_ok=True)
                    # an edited file may well be as long as the incoming one (port=9090 against port=8080): it is still another content
                    open(q, "w").write(f"new content of {rel}\n" if state == "same" else f"NEW CONTENT OF {rel}\n" if rnd.random() < .4 else f"edited by the admin {rel}\n")
            pending = {}
            for rel, state in files.items():
                if state == "edited" and rnd.random() < .6:
                    d, n = os.path.split(rel)
                    for num in rnd.sample(range(4), rnd.choice((1, 2))):
                        ident = rnd.random() < .4
                        pn = os.path.join(d, f"._cfg{num:04d}_{n}")
                        open(os.path.join(root, pn), "w").write(f"new content of {rel}\n" if ident else f"new content 0f {rel}\n" if rnd.random() < .4 else f"older proposal {num}\n")
                        pending.setdefault(rel, []).append((num, ident))
            install = contents.contentsSet(livefs.scan(img, offset=img)).insert_offset(root)
            existing = contents.contentsSet(livefs.intersect(install))
            eng = types.SimpleNamespace(offset=root)
            before = {rel: open(os.path.join(root, rel)).read() for rel, st in files.items() if st != "absent"}
            listing_before = {d: set(os.listdir(os.path.join(root, d))) for d in {os.path.dirname(r) for r in files} if os.path.isdir(os.path.join(root, d))}
            cases += 1
            model = {"seed": s, "env.d": envd, "files": files, "pending": {k: [list(x) for x in v] for k, v in pending.items()}}
            try:
                trg = t.ConfigProtectInstall()
                trg.trigger(eng, existing, install)
                ops.merge_contents(install)
                t.ConfigProtectInstall_restore(trg.renames).trigger(eng, install)
            except Exception as e:
                if len(fails) < 4:
                    fails.append({"model": model, "detail": f"merge with env.d {envd!r}, files {files} raised {type(e).__name__}: {e}"})
                continue
            protect_dirs = ["etc"] + [d.strip("/") for d in ("/opt/conf", "/var/lib/ign") if d.strip("/") in envd.replace("/ ", " ")]
            protect_dirs = ["etc"] + (["opt/conf"] if "CONFIG_PROTECT=\"/opt/conf" in envd else []) + (["var/lib/ign"] if "CONFIG_PROTECT=\"/opt/conf /var/lib/ign" in envd else [])
            masked = ["etc/masked"] if "CONFIG_PROTECT_MASK" in envd else []
            ignored_abs = "var/lib/ign" if ("COLLISION_IGNORE" in envd and root in envd) else None
            probs = []
            recorded = {x.location[len(root):].lstrip("/") for x in install.iterfiles()}
            for rel, st in files.items():
                under = lambda ds: any(rel.startswith(d + "/") for d in ds)
                guaranteed = st == "edited" and under(protect_dirs) and not under(masked) and not (ignored_abs and rel.startswith(ignored_abs + "/"))
                now = open(os.path.join(root, rel)).read()
                if guaranteed:
                    if now != before[rel]:
                        probs.append(f"protected, edited {rel} was overwritten")
                    d, n = os.path.split(rel)
                    new_cfg = sorted(set(os.listdir(os.path.join(root, d))) - listing_before.get(d, set()))
                    pend = pending.get(rel, [])
                    ident = sorted(num for num, i in pend if i)
                    if ident:
                        # reuses the number of an identical pending update: no new ._cfg file, that one holds the content
                        if [x for x in new_cfg if x.endswith("_" + n)]:
                            probs.append(f"{rel}: an identical pending update existed ({ident}) yet new files {new_cfg} were written")
                    else:
                        want = f"._cfg{(max([num for num, _ in pend], default=-1) + 1):04d}_{n}"
                        if want not in new_cfg:
                            probs.append(f"{rel}: expected the incoming file as {want}, new files in the directory: {new_cfg}")
                        elif open(os.path.join(root, d, want)).read() != f"new content of {rel}\n":
                            probs.append(f"{rel}: {want} does not hold the incoming content")
                if rel not in recorded:
                    probs.append(f"recorded contents lack the real name {rel} (have {sorted(recorded)})")
            if any("._cfg" in r for r in recorded):
                probs.append(f"recorded contents name a ._cfg file: {sorted(r for r in recorded if '._cfg' in r)}")
            if probs and len(fails) < 4:
                fails.append({"model": model, "detail": f"env.d {envd!r}, files {files}, pending {pending}: " + "; ".join(probs[:3])})
            # unmerge: an edited protected file stays
            for rel, st in files.items():
                pass
            uninstall = contents.contentsSet(livefs.scan(img, offset=img)).insert_offset(root)
            for rel in files:
                if rnd.random() < .5 and os.path.exists(os.path.join(root, rel)):
                    open(os.path.join(root, rel), "a").write("local change after install\n")
            un_existing = contents.contentsSet(livefs.intersect(uninstall))
            cur = {rel: open(os.path.join(root, rel)).read() for rel in files if os.path.exists(os.path.join(root, rel))}
            try:
                if s % 2:
                    # through the merge engine's own wiring of the unmerge sets (recorded contents of the package, offset = the scratch root)
                    from pkgcore.merge import engine as _engine

                    class _Obs:
                        def __getattr__(self, n):
                            return lambda *a, **k: None
                    pkg_ = types.SimpleNamespace(contents=contents.contentsSet(livefs.scan(img, offset=img)), cpvstr="cat/pkg-1")
                    tmp_ = os.path.join(scratch, f"t{s}")
                    os.makedirs(tmp_)
                    if s % 4 == 1:
                        e_ = _engine.MergeEngine.uninstall(tmp_, pkg_, offset=root, observer=_Obs(), disable_plugins=True)
                        t.ConfigProtectUninstall().register(e_)
                        e_.execute_hook("pre_unmerge")
                        model = dict(model, through_the_merge_engine="uninstall")
                        ops.unmerge_contents(e_.csets["uninstall"])
                    else:
                        # a replacement by a version that no longer ships the files: the engine runs merge first, then the unmerge of what is left
                        from pkgcore.merge import triggers as _mt
                        img2 = os.path.join(scratch, f"v2-{s}")
                        os.makedirs(os.path.join(img2, "usr/share"))
                        open(os.path.join(img2, "usr/share/v2"), "w").write("2")
                        new_ = types.SimpleNamespace(contents=contents.contentsSet(livefs.scan(img2, offset=img2)), cpvstr="cat/pkg-2")
                        e_ = _engine.MergeEngine.replace(tmp_, pkg_, new_, offset=root, observer=_Obs(), disable_plugins=True)
                        for trg in (t.ConfigProtectInstall(), t.ConfigProtectUninstall(), _mt.merge(), _mt.unmerge()):
                            trg.register(e_)
                        for hook in ("sanity_check", "pre_merge", "merge", "post_merge", "pre_unmerge", "unmerge", "post_unmerge", "final"):
                            e_.execute_hook(hook)
                        model = dict(model, through_the_merge_engine="replace by a version without these files")
                else:
                    # as the engine hands them over: the live entries twice (uninstall_existing is an alias of uninstall) and the recorded contents
                    t.ConfigProtectUninstall().trigger(eng, un_existing, un_existing, uninstall)
                    ops.unmerge_contents(un_existing)
            except Exception as e:
                if len(fails) < 4:
                    fails.append({"model": model, "detail": f"unmerge raised {type(e).__name__}: {e}"})
                continue
            for rel, content in cur.items():
                under = lambda ds: any(rel.startswith(d + "/") for d in ds)
                guaranteed = content != f"new content of {rel}\n" and under(protect_dirs) and not under(masked) and not (ignored_abs and rel.startswith(ignored_abs + "/"))
                if guaranteed and not os.path.exists(os.path.join(root, rel)) and len(fails) < 4:
                    fails.append({"model": model, "detail": f"unmerge removed protected {rel} although its content differs from what the package recorded (env.d {envd!r})"})
        # merges through the engine's own wiring (MergeEngine.install works out itself which of the incoming entries exist on the root), with the
        # protected file reached through a directory that is a symlink on the live root -- leading out of the protected tree, or staying inside it
        from pkgcore.merge import engine as _engine2, triggers as _mt2

        class _Quiet:
            def __getattr__(self, n):
                return lambda *a, **k: None
        for layout, link, target in (("plain directory", None, None), ("etc/app is a symlink leading out of /etc", "etc/app", "../opt/app/etc"), ("etc/app is a symlink to a directory inside /etc", "etc/app", "app-1.0")):
            cases += 1
            root = os.path.join(scratch, "eng-" + layout.replace(" ", "_").replace("/", "_"))
            img, tmp_ = root + ".img", root + ".tmp"
            real_dir = os.path.normpath(os.path.join(root, "etc", target)) if link else os.path.join(root, "etc/app")
            os.makedirs(real_dir)
            os.makedirs(os.path.join(root, "etc"), exist_ok=True)
            os.makedirs(tmp_)
            if link:
                os.symlink(target, os.path.join(root, link))
            open(os.path.join(real_dir, "foo.conf"), "w").write("edited by the user\n")
            open(os.path.join(root, "etc/other.conf"), "w").write("edited by the user too\n")
            os.makedirs(os.path.join(img, "etc/app"))
            open(os.path.join(img, "etc/app/foo.conf"), "w").write("new foo\n")
            open(os.path.join(img, "etc/other.conf"), "w").write("new other\n")
            model = {"through_the_merge_engine": "install", "layout": layout}
            try:
                pkg_ = types.SimpleNamespace(contents=contents.contentsSet(livefs.scan(img, offset=img)), cpvstr="cat/pkg-1")
                e_ = _engine2.MergeEngine.install(tmp_, pkg_, offset=root, observer=_Quiet(), disable_plugins=True)
                for trg in (t.ConfigProtectInstall(), _mt2.merge()):
                    trg.register(e_)
                for hook in ("sanity_check", "pre_merge", "merge", "post_merge", "final"):
                    e_.execute_hook(hook)
            except Exception as e:
                if len(fails) < 4:
                    fails.append({"model": model, "detail": f"MergeEngine.install ({layout}) raised {type(e).__name__}: {e}"})
                continue
            probs = []
            for d_, n_, old_, new_ in ((real_dir, "foo.conf", "edited by the user\n", "new foo\n"), (os.path.join(root, "etc"), "other.conf", "edited by the user too\n", "new other\n")):
                now = open(os.path.join(d_, n_)).read()
                if now != old_:
                    probs.append(f"the edited {os.path.relpath(os.path.join(d_, n_), root)} was overwritten (now {now!r})")
                cfg = os.path.join(d_, "._cfg0000_" + n_)
                if not os.path.exists(cfg) or open(cfg).read() != new_:
                    probs.append(f"the incoming file was not put beside it as ._cfg0000_{n_} (directory holds {sorted(os.listdir(d_))})")
            if probs and len(fails) < 4:
                fails.append({"model": model, "detail": f"MergeEngine.install of etc/app/foo.conf and etc/other.conf over edited copies, {layout}: " + "; ".join(probs[:3])})
        # ... and a package that ships a symlink where the root has an edited regular file, beside an ordinary edited file
        cases += 1
        root = os.path.join(scratch, "eng-symlink-over-file")
        img, tmp_ = root + ".img", root + ".tmp"
        for d_ in (os.path.join(root, "etc"), os.path.join(img, "etc"), tmp_):
            os.makedirs(d_)
        open(os.path.join(root, "etc/localtime"), "w").write("the user's own zone data\n")
        open(os.path.join(root, "etc/other.conf"), "w").write("edited by the user too\n")
        os.symlink("../usr/share/zoneinfo/UTC", os.path.join(img, "etc/localtime"))
        open(os.path.join(img, "etc/other.conf"), "w").write("new other\n")
        model = {"through_the_merge_engine": "install", "layout": "the package ships etc/localtime as a symlink, the root has it as an edited regular file"}
        try:
            pkg_ = types.SimpleNamespace(contents=contents.contentsSet(livefs.scan(img, offset=img)), cpvstr="cat/pkg-1")
            e_ = _engine2.MergeEngine.install(tmp_, pkg_, offset=root, observer=_Quiet(), disable_plugins=True)
            for trg in (t.ConfigProtectInstall(), _mt2.merge()):
                trg.register(e_)
            for hook in ("sanity_check", "pre_merge", "merge", "post_merge", "final"):
                e_.execute_hook(hook)
            probs = []
            if os.path.islink(os.path.join(root, "etc/localtime")) or open(os.path.join(root, "etc/localtime")).read() != "the user's own zone data\n":
                probs.append("the edited regular file etc/localtime was replaced by the package's symlink")
            if open(os.path.join(root, "etc/other.conf")).read() != "edited by the user too\n":
                probs.append("the edited etc/other.conf was overwritten")
            elif not os.path.exists(os.path.join(root, "etc/._cfg0000_other.conf")):
                probs.append("etc/other.conf: the incoming file was not put beside it as ._cfg0000_other.conf")
            if probs and len(fails) < 4:
                fails.append({"model": model, "detail": f"MergeEngine.install, {model['layout']}, etc/other.conf edited as well: " + "; ".join(probs) + f" (etc holds {sorted(os.listdir(os.path.join(root, 'etc')))})"})
        except Exception as e:
            if len(fails) < 4:
                fails.append({"model": model, "detail": f"MergeEngine.install ({model['layout']}) raised {type(e).__name__}: {e}"})
        # ... and its unmerge counterpart: the package recorded etc/localtime as a symlink, the root has an edited regular file there now
        cases += 1
        root = os.path.join(scratch, "eng-un-symlink-over-file")
        img, tmp_ = root + ".img", root + ".tmp"
        for d_ in (os.path.join(root, "etc"), os.path.join(img, "etc"), tmp_):
            os.makedirs(d_)
        open(os.path.join(root, "etc/localtime"), "w").write("the user's own zone data\n")
        open(os.path.join(root, "etc/foo.conf"), "w").write("edited by the user\n")
        os.symlink("../usr/share/zoneinfo/UTC", os.path.join(img, "etc/localtime"))
        open(os.path.join(img, "etc/foo.conf"), "w").write("as installed\n")
        model = {"through_the_merge_engine": "uninstall", "layout": "the package recorded etc/localtime as a symlink, the root has it as an edited regular file"}
        try:
            pkg_ = types.SimpleNamespace(contents=contents.contentsSet(livefs.scan(img, offset=img)), cpvstr="cat/pkg-1")
            e_ = _engine2.MergeEngine.uninstall(tmp_, pkg_, offset=root, observer=_Quiet(), disable_plugins=True)
            for trg in (t.ConfigProtectUninstall(), _mt2.unmerge()):
                trg.register(e_)
            for hook in ("sanity_check", "pre_unmerge", "unmerge", "post_unmerge", "final"):
                e_.execute_hook(hook)
            probs = [f"the edited etc/{n_} was removed" for n_ in ("foo.conf", "localtime") if not os.path.exists(os.path.join(root, "etc", n_))]
            if probs and len(fails) < 4:
                fails.append({"model": model, "detail": f"MergeEngine.uninstall, {model['layout']}, etc/foo.conf edited as well: " + "; ".join(probs)})
        except Exception as e:
            if len(fails) < 4:
                fails.append({"model": model, "detail": f"MergeEngine.uninstall ({model['layout']}) raised {type(e).__name__}: {e}"})
    finally:
        shutil.rmtree(scratch, ignore_errors=True)
    return {"name": "C21.config_protect.bounded_enumeration", "bound": "60 seeded scratch roots: 5 env.d variants (CONFIG_PROTECT / _MASK with and without trailing slash, COLLISION_IGNORE naming a directory), 4 of 7 files each absent / "
            "identical / edited, random pending ._cfg files (identical or not), ConfigProtectInstall + merge_contents + restore, then local edits + ConfigProtectUninstall + unmerge_contents (every other root through the merge engine's own wiring: MergeEngine.uninstall, or MergeEngine.replace by a version that no longer ships the files); 3 merges through MergeEngine.install with the protected directory plain, a symlink leading out of /etc and a symlink staying inside it", "cases": cases, "failures": fails}


def t_chksum_compare(ex):
    """simple_chksum_compare(x, y) -- the 'same content' answer the three triggers act on -- says yes exactly when both entries are regular
    files, carry at least one checksum kind in common (the size counts as one) and agree on every kind they both carry; for all checksum values,
    for every pattern of which of four kinds each side carries"""
    import types
    import z3
    from pyvc.api import call, Interp
    from pyvc.sym import KInt, KBool, SBool, SObj, And, Or, Not
    KINDS = ("md5", "sha1", "sha512", "size")
    P = "C21.simple_chksum_compare"
    sides = []
    for tag in ("x", "y"):
        have = [bool(ex.choose(2)) for _ in KINDS]
        vals = {k: KInt.fresh(f"{tag}_{k}") for k, h in zip(KINDS, have) if h}
        reg = KBool.fresh(f"{tag}_is_reg")
        ex.inputs.update({f"{tag}.chksums": dict(vals), f"{tag}.is_reg": reg})
        sides.append((reg, vals, SObj(types.SimpleNamespace, {"is_reg": reg, "chksums": dict(vals)})))
    (xr, xv, x), (yr, yv, y) = sides
    it = Interp(ex, label=P)
    out = call(it, it.target(TRG, "simple_chksum_compare"), x, y)
    ex.oblige(f"{P}.raises.nothing", not out.raised, kind="exceptional-postcondition")
    if out.raised:
        return
    ex.cover("returns")
    shared = [k for k in KINDS if k in xv and k in yv]
    want = And(xr, yr, bool(shared), *[xv[k] == yv[k] for k in shared])
    got = out.value if isinstance(out.value, SBool) else SBool(z3.BoolVal(bool(out.value)))
    ex.oblige(f"{P}.ensures.same_content_exactly_when_both_are_files_share_a_checksum_kind_and_agree_on_all_shared_kinds", got == want)


def replay_chksum_compare(model):
    import types
    from pkgcore.ebuild.triggers import simple_chksum_compare
    mk = lambda t: types.SimpleNamespace(is_reg=bool(model.get(f"{t}.is_reg", True)), chksums=dict(model.get(f"{t}.chksums", {})))
    x, y = mk("x"), mk("y")
    got = simple_chksum_compare(x, y)
    shared = [k for k in x.chksums if k in y.chksums]
    want = x.is_reg and y.is_reg and bool(shared) and all(x.chksums[k] == y.chksums[k] for k in shared)
    return bool(got) != bool(want), f"simple_chksum_compare(is_reg={x.is_reg} {x.chksums}, is_reg={y.is_reg} {y.chksums}) = {got}; same content by the shared checksums: {want}"


def tasks():
    return [
        Task("C21.gen_config_protect_filter", t_protect_filter, [(TRG, "gen_config_protect_filter")], bounded={"settings": "4 protect x 4 mask lists x 2 offsets", "note": "filter evaluated on 14 locations"}),
        Task("C21.gen_collision_ignore_filter", t_ignore_filter, [(TRG, "gen_collision_ignore_filter")], bounded={"settings": "4 COLLISION_IGNORE lists"}),
        Task("C21.ConfigProtectInstall", t_install_trigger, [(TRG, "ConfigProtectInstall.trigger"), (TRG, "ConfigProtectInstall_restore.trigger")], bounded={"entries": 2, "pending files": 5, "note": "content answers arbitrary"}),
        Task("C21.simple_chksum_compare", t_chksum_compare, [(TRG, "simple_chksum_compare")], bounded={"checksum kinds": "md5, sha1, sha512, size: every pattern of which side carries which (256), all values"}),
        Task("C21.ConfigProtectUninstall", t_uninstall_trigger, [(TRG, "ConfigProtectUninstall.trigger")], bounded={"entries": 2}, enumerate=enum_roots),
    ]


LEVEL = "other"
EXPLANATION = ("bounded stand-ins only: the triggers iterate contents sets and directory listings, which are run on small explicit scenarios (all "
               "branch combinations, arbitrary 'same content' answers) rather than under loop invariants; no obligation is counted as proved.")
REPLAY = {"C21.simple_chksum_compare.": replay_chksum_compare}
