"""C13 -- package visibility follows mask, keyword and license configuration (DESIGN.md section 4, C13)."""
import functools
import itertools
import os
import random
import types
import z3
from pyvc.api import Task, call, Interp, LoopSpec
from pyvc.interp import StarArgs
from pyvc.loops import IterView
from pyvc.models import Model, ModelHost
from pyvc.sym import (KInt, KBool, KRef, KSeq, KSet, KStr, SBool, SInt, SStr, SSeq, SSet, SObj, MutSet, MutList, EngineValue, And, Or, Not, Implies, OutOfSubset, fresh_name)
from pyvc import theory, models

PROPERTY = "C13"
FILE = "src/pkgcore/ebuild/domain.py"
STR = z3.StringSort()
SEQSTR = z3.SeqSort(STR)
SETSTR = z3.SetSort(STR)

MANIFEST = {
    "text": "Unbounded proof (any number of configuration entries, license alternatives and keywords) that "
            "domain._apply_license_filter accepts a package exactly when some LICENSE alternative lies inside the expansion of "
            "ACCEPT_LICENSE followed by the matching package.license entries in order (the expansion itself is C12's contract), and "
            "leaves the shared ACCEPT_LICENSE list untouched; that domain._apply_keywords_filter accepts exactly when the allowed "
            "set holds **, or * and a stable keyword, or ~* and a testing keyword, or one of the package's keywords (its own plus the "
            "matching profile package.keywords entries); that the empty-entry rule of _make_keywords_filter maps an empty entry to "
            "~ARCH exactly on a stable system; that generate_filter composes 'not masked or unmasked' with every further filter.  "
            "filter_repo's folding of repository, profile and user masks / unmasks in order is a bounded stand-in (<= 2 profile "
            "layers each, arbitrary sets).  Fake-domain enumeration (repeated calls "
            "included) compares the two filters with a reference evaluator.",
    "note": "Trusted: incremental_expansion_license (proved under C12), dnf_solutions (C06), collapsed_restrict_to_data.pull_data "
            "(abstract: yields the allowed set), atom.match (C04), restriction constructors; keywords are non-empty strings; pyvc "
            "encoder.  Not claimed: parsing of the configuration files into these entries (which files are read is covered by a small enumeration of _read_config_file).  The mask lookup (make_mask_filter / apply_mask_filter) is covered by a bounded enumeration over mask / unmask selections on real atoms and globs.",
}
ASSUMPTIONS = ["keywords are non-empty strings", "incremental_expansion_license returns the expansion of its token list (C12)",
               "pull_data(pkg) returns the allowed keyword set for the package (collapsed_restrict_to_data, not under contract here)"]


def dom():
    from pkgcore.ebuild.domain import domain
    return domain


class AtomK(ModelHost):
    def __init__(self, m):
        self.m = m

    def getattr(self, it, name):
        if name == "match":
            return Model(lambda it_, pkg: SBool(self.m), "atom.match")
        raise OutOfSubset(name)


def seqfold(name, n, MATCH, ITEMS):
    """FLAT(k): concatenation of the items of the matching entries among the first k"""
    FLAT = theory.ufun(name, z3.IntSort(), SEQSTR)
    theory._add_axiom((name, "base"), FLAT(0) == z3.Empty(SEQSTR))

    def unfold(k):
        kt = k.t if isinstance(k, SInt) else z3.IntVal(k)
        theory._add_axiom((name, "unfold", z3.simplify(kt).get_id()), z3.Implies(z3.And(kt >= 0, kt < n.t),
                          FLAT(kt + 1) == z3.If(MATCH(kt), z3.Concat(FLAT(kt), ITEMS(kt)), FLAT(kt))))
    return FLAT, unfold


def anyfold(name, n, pred):
    ANY = theory.ufun(name, z3.IntSort(), z3.BoolSort())
    theory._add_axiom((name, "base"), z3.Not(ANY(0)))

    def unfold(k):
        kt = k.t if isinstance(k, SInt) else z3.IntVal(k)
        theory._add_axiom((name, "unfold", z3.simplify(kt).get_id()), z3.Implies(z3.And(kt >= 0, kt < (n.t if isinstance(n, SInt) else n)),
                          ANY(kt + 1) == z3.Or(ANY(kt), pred(kt))))
    return ANY, unfold


def kt_(k):
    return k.t if isinstance(k, SInt) else z3.IntVal(k)


def t_license(ex):
    P = "C13._apply_license_filter"
    n_ent, n_sol = KInt.fresh("entries"), KInt.fresh("alternatives")
    ex.assume(And(n_ent >= 0, n_sol >= 0))
    MATCH = theory.ufun("entry_matches_pkg", z3.IntSort(), z3.BoolSort())
    LICS = theory.ufun("entry_licenses", z3.IntSort(), SEQSTR)
    SOL = theory.ufun("license_alternative", z3.IntSort(), SETSTR)
    EXP = theory.ufun("expand_license", SETSTR, SEQSTR, SETSTR)   # incremental_expansion_license(pkg, licenses, groups, tokens): C12
    FLAT, unfoldF = seqfold("matched_licenses", n_ent, MATCH, LICS)
    master0 = KSeq(KStr, "list").fresh("accept_license")
    master = MutList(master0)

    def raw():
        return z3.Concat(master0.t, FLAT(n_ent.t))
    ANY, unfoldA = anyfold("some_alternative_accepted", n_sol, lambda k: z3.IsSubset(SOL(k), EXP(SOL(k), raw())))

    def inv0(L, k):
        unfoldF(k)
        m = L.matched_pkg_licenses
        return And(isinstance(m, MutList), SBool(m.val.t == FLAT(kt_(k))) if isinstance(m, MutList) else False, SBool(master.val.t == master0.t))

    def inv1(L, k):
        unfoldA(k)
        return And(SBool(z3.Not(ANY(kt_(k)))), SBool(master.val.t == master0.t),
                   SBool(L.raw_accepted_licenses.val.t == raw()) if isinstance(L.raw_accepted_licenses, MutList) else False)

    it = Interp(ex, label=P, loops={("domain._apply_license_filter", 0): LoopSpec(inv0, mutates=["master_licenses"], havoc={"matched_pkg_licenses": lambda it_: MutList(KSeq(KStr, "list").fresh("matched"))}),
                                    ("domain._apply_license_filter", 1): LoopSpec(inv1, mutates=["master_licenses"])})
    it.list_literal = lambda it_: MutList(SSeq(z3.Empty(SEQSTR), KSeq(KStr, "list")))
    if getattr(ex, "mode", None):
        for i in range(ex.mode.get("unroll", 3) + 1):
            unfoldF(i)
            unfoldA(i)
    D = dom()
    import pkgcore.ebuild.domain as dmod

    def m_expand(it_, pkg, licenses, groups, tokens, msg_prefix=""):
        lt = licenses.val if isinstance(licenses, MutSet) else licenses
        tk = tokens.val if isinstance(tokens, MutList) else tokens
        return MutSet(SSet(EXP(lt.t, tk.t), KSet(KStr)))
    it.models[dmod.incremental_expansion_license] = m_expand

    class License(ModelHost):
        def getattr(self, it_, name):
            if name == "dnf_solutions":
                return Model(lambda it__: IterView(n_sol, lambda k: MutSet(SSet(SOL(kt_(k)), KSet(KStr)), frozen=True), "dnf_solutions"), "dnf_solutions")
            raise OutOfSubset(name)

    class Repo(ModelHost):
        def getattr(self, it_, name):
            if name == "licenses":
                return types.SimpleNamespace(groups="license-groups")
            raise OutOfSubset(name)

    class Pkg(ModelHost):
        def getattr(self, it_, name):
            if name == "license":
                return License()
            if name == "repo":
                return Repo()
            raise OutOfSubset(name)
    me = SObj(D, {"pkg_licenses": IterView(n_ent, lambda k: (AtomK(MATCH(kt_(k))), SSeq(LICS(kt_(k)), KSeq(KStr, "tuple"))), "pkg_licenses"),
                  "_default_licenses_manager": types.SimpleNamespace(groups="license-groups")})
    out = call(it, it.target(FILE, "domain._apply_license_filter"), me, master, Pkg(), "match")
    ex.oblige(f"{P}.raises.nothing", not out.raised, kind="exceptional-postcondition")
    if out.raised:
        return
    ex.oblige(f"{P}.ensures.accept_license_list_is_left_untouched", SBool(master.val.t == master0.t), kind="frame")
    unfoldA(n_sol)
    r = out.value
    if r is True:
        k = it.loop_k.get(("domain._apply_license_filter", 1))
        ex.oblige(f"{P}.ensures.true_only_if_an_alternative_lies_in_the_expansion",
                  k is not None and And(k >= 0, k < n_sol, SBool(z3.IsSubset(SOL(kt_(k)), EXP(SOL(kt_(k)), raw())))))
    else:
        ex.oblige(f"{P}.ensures.false_only_if_no_alternative_lies_in_the_expansion", r is False and SBool(z3.Not(ANY(n_sol.t))))


def t_keywords(ex):
    P = "C13._apply_keywords_filter"
    n_ent = KInt.fresh("profile_entries")
    ex.assume(n_ent >= 0)
    MATCH = theory.ufun("keyword_entry_matches_pkg", z3.IntSort(), z3.BoolSort())
    KWS = theory.ufun("keyword_entry_keywords", z3.IntSort(), SEQSTR)
    FLAT, unfoldF = seqfold("matched_keywords", n_ent, MATCH, KWS)
    own = KSeq(KStr, "tuple").fresh("pkg_keywords")
    allowed = KSet(KStr).fresh("allowed")

    def allkw():
        return z3.Concat(own.t, FLAT(n_ent.t))

    def nonempty(seq_t, tag):
        j = z3.Int(fresh_name("j"))
        return SBool(z3.ForAll([j], z3.Implies(z3.And(j >= 0, j < z3.Length(seq_t)), z3.Length(seq_t[j]) > 0)))
    first = lambda t: z3.SubString(t, 0, 1)
    stable = lambda t: z3.And(first(t) != z3.StringVal("-"), first(t) != z3.StringVal("~"))
    testing = lambda t: first(t) == z3.StringVal("~")
    nkw = SInt(z3.Length(allkw()))
    ST, unfoldS = anyfold("some_stable_keyword", nkw, lambda k: stable(allkw()[k]))
    TS, unfoldT = anyfold("some_testing_keyword", nkw, lambda k: testing(allkw()[k]))
    def IN(n):
        j = z3.Int(fresh_name("j"))
        return z3.Exists([j], z3.And(j >= 0, j < n, z3.IsMember(allkw()[j], allowed.t)))
    unfoldI = lambda k: None

    def inv0(L, k):
        unfoldF(k)
        return SBool(L.pkg_keywords.t == z3.Concat(own.t, FLAT(kt_(k))))

    def inv_any(fn, unfold):
        def inv(L, k):
            unfold(k)
            return And(SBool(z3.Not(fn(kt_(k)))), SBool(L.pkg_keywords.t == allkw()))
        return inv
    elem_ok = lambda t: t.length() > 0
    it = Interp(ex, label=P, loops={("domain._apply_keywords_filter", 0): LoopSpec(inv0),
                                    ("domain._apply_keywords_filter", 1): LoopSpec(inv_any(ST, unfoldS), elem_assume=elem_ok),
                                    ("domain._apply_keywords_filter", 2): LoopSpec(inv_any(TS, unfoldT), elem_assume=elem_ok)})
    if getattr(ex, "mode", None):
        for i in range(ex.mode.get("unroll", 3) + 1):
            for u in (unfoldF, unfoldS, unfoldT, unfoldI):
                u(i)

    class Data(ModelHost):
        def getattr(self, it_, name):
            if name == "pull_data":
                return Model(lambda it__, pkg: MutSet(allowed, frozen=True), "pull_data")
            raise OutOfSubset(name)

    class Pkg(ModelHost):
        def getattr(self, it_, name):
            if name == "keywords":
                return own
            raise OutOfSubset(name)
    D = dom()
    profile = types.SimpleNamespace(keywords=IterView(n_ent, lambda k: (AtomK(MATCH(kt_(k))), SSeq(KWS(kt_(k)), KSeq(KStr, "tuple"))), "profile.keywords"))
    me = SObj(D, {"profile": profile})
    out = call(it, it.target(FILE, "domain._apply_keywords_filter"), me, Data(), Pkg(), "match")
    ex.oblige(f"{P}.raises.nothing", not out.raised, kind="exceptional-postcondition")
    if out.raised:
        return
    for u in (unfoldS, unfoldT, unfoldI):
        u(nkw)
    has = lambda s: z3.IsMember(z3.StringVal(s), allowed.t)
    n = nkw.t
    spec = z3.Or(has("**"), z3.And(has("*"), ST(n)), z3.And(has("~*"), TS(n)), IN(n))
    r = out.value
    # the folds speak about "some keyword among the first n"; tie the early returns to the index the loop stopped at
    if r is True:
        wit = []
        for key, cond in ((("domain._apply_keywords_filter", 1), lambda k: z3.And(has("*"), stable(allkw()[k]))),
                          (("domain._apply_keywords_filter", 2), lambda k: z3.And(has("~*"), testing(allkw()[k])))):
            k = it.loop_k.get(key)
            if k is not None:
                wit.append(z3.And(kt_(k) >= 0, kt_(k) < n, cond(kt_(k))))
        ex.oblige(f"{P}.ensures.true_only_when_the_keyword_rule_accepts", SBool(z3.Or(has("**"), *wit)) if wit else SBool(has("**")))
    elif r is False:
        ex.oblige(f"{P}.ensures.false_only_when_the_keyword_rule_rejects", SBool(z3.Not(spec)))
    else:
        rt = r.t if isinstance(r, SBool) else z3.BoolVal(bool(r))
        ex.oblige(f"{P}.ensures.membership_result_is_the_keyword_rule", SBool(rt == spec))


def t_empty_entry(ex):
    """_make_keywords_filter: an empty accept_keywords entry means ~ARCH on a stable system, and is left alone on an unstable one"""
    P = "C13._make_keywords_filter"
    stable_system = bool(ex.choose(2))
    import pkgcore.ebuild.domain as dmod
    D = dom()
    it = Interp(ex, label=P)
    seen = {}

    def m_collapsed(it_, globs, stream):
        seen["incremental"] = models.iter_concrete(it_, stream)
        return "DATA"

    def m_noninc(it_, globs, stream):
        seen["plain"] = stream
        return "DATA"
    it.models[dmod.collapsed_restrict_to_data] = m_collapsed
    it.models[dmod.non_incremental_collapsed_restrict_to_data] = m_noninc
    it.models[dmod.delegate] = lambda it_, f, **k: ("delegate", f)
    it.models[dmod.partial] = lambda it_, f, *a: ("partial", f, a)
    empty_entry = ("restrict-1", ())
    full = KSeq(KStr, "tuple").fresh("entry_keywords")
    ex.assume(full.length() > 0)
    full_entry = ("restrict-2", full)
    default_keys = {"amd64"} if stable_system else {"amd64", "~amd64"}
    me = SObj(D, {"unstable_arch": "~amd64", "profile": types.SimpleNamespace(keywords=())})
    out = call(it, it.target(FILE, "domain._make_keywords_filter"), me, default_keys, (empty_entry, full_entry))
    ex.oblige(f"{P}.raises.nothing", not out.raised, kind="exceptional-postcondition")
    if out.raised:
        return
    if stable_system:
        got = seen.get("incremental")
        ok = got is not None and len(got) == 2 and got[0][0] == "restrict-1" and tuple(got[0][1]) == ("~amd64",) and not isinstance(got[0][1], str) and got[1][0] == "restrict-2" and got[1][1] is full
        ex.oblige(f"{P}.ensures.empty_entry_means_unstable_arch_on_a_stable_system", ok)
    else:
        got = seen.get("plain")
        ex.oblige(f"{P}.ensures.entries_unchanged_on_an_unstable_system", got is not None and tuple(got) == (empty_entry, full_entry))


def t_masks(ex):
    """filter_repo: repository masks, then profile (negations, additions) layers in order, then user masks; same for unmasks.
    Bounded in the number of profile layers (the list of layers is built with list.extend), unbounded in the sets."""
    P = "C13.filter_repo"
    use_profile = bool(ex.choose(2))
    nm, nu = ex.choose(3), ex.choose(3)
    AT = KRef("maskatom")
    S = lambda n: MutSet(KSet(AT).fresh(n), frozen=True)
    repo_masks, user_masks, user_unmasks = S("repo_masks"), S("user_masks"), S("user_unmasks")
    mlayers = [(S(f"mask_neg{i}"), S(f"mask_pos{i}")) for i in range(nm)]
    ulayers = [(S(f"unmask_neg{i}"), S(f"unmask_pos{i}")) for i in range(nu)]
    import pkgcore.ebuild.domain as dmod
    it = Interp(ex, label=P)
    got = {}

    def m_generate(it_, masks, unmasks, *extra):
        got["masks"], got["unmasks"], got["extra"] = masks, unmasks, extra
        return "FILTERS"
    it.models[dmod.generate_filter] = m_generate
    it.models[dmod.filtered.tree] = lambda it_, repo, filters, sentinel: ("filtered.tree", repo, filters, sentinel)
    repo = types.SimpleNamespace(pkg_masks=repo_masks)
    me = SObj(dom(), {"profile": types.SimpleNamespace(_incremental_masks=list(mlayers), _incremental_unmasks=list(ulayers))})
    out = call(it, it.target(FILE, "domain.filter_repo"), me, repo, pkg_masks=user_masks, pkg_unmasks=user_unmasks, pkg_filters=("KEYWORDS-FILTER", "LICENSE-FILTER"), profile=use_profile)
    ex.oblige(f"{P}.raises.nothing", not out.raised, kind="exceptional-postcondition")
    if out.raised:
        return
    E = z3.EmptySet(AT.sort)
    m = repo_masks.val.t
    u = E
    if use_profile:
        for neg, pos in mlayers:
            m = z3.SetUnion(z3.SetDifference(m, neg.val.t), pos.val.t)
        for neg, pos in ulayers:
            u = z3.SetUnion(z3.SetDifference(u, neg.val.t), pos.val.t)
    m = z3.SetUnion(m, user_masks.val.t)
    u = z3.SetUnion(u, user_unmasks.val.t)
    tm = models.set_term(it, got.get("masks"))
    tu = models.set_term(it, got.get("unmasks"))
    ex.oblige(f"{P}.ensures.masks_are_repo_then_profile_layers_then_user[{nm} layers]", tm is not None and SBool(tm.t == m))
    ex.oblige(f"{P}.ensures.unmasks_are_profile_layers_then_user[{nu} layers]", SBool((tu.t if tu is not None else E) == u))
    ex.oblige(f"{P}.ensures.keyword_and_license_filters_are_passed_on", got.get("extra") == ("KEYWORDS-FILTER", "LICENSE-FILTER"))
    ex.oblige(f"{P}.ensures.repo_is_wrapped_with_the_filters", out.value == ("filtered.tree", repo, "FILTERS", True))


def t_profile_layers(ex):
    """ProfileStack._incremental_masks / _incremental_unmasks -- where filter_repo's profile layers come from: the (negations, additions)
    pairs of the stack's nodes in stack order.  Whatever nodes are left out, applying the returned layers in order to any set of masks must
    give what applying every node's pair in stack order gives (a node that only negates is a layer like any other).  Bounded in the number
    of nodes, unbounded in the sets."""
    from pkgcore.ebuild.profiles import ProfileStack
    meth, attr = (("_incremental_masks", "masks"), ("_incremental_unmasks", "unmasks"))[ex.choose(2)]
    n = ex.choose(4)
    P = f"C13.ProfileStack.{meth}[{n} nodes]"
    AT = KRef("maskatom")
    S = lambda nm: MutSet(KSet(AT).fresh(nm), frozen=True)
    pairs = [(S(f"neg{i}"), S(f"pos{i}")) for i in range(n)]
    nodes = [types.SimpleNamespace(**{attr: pr}) for pr in pairs]
    me = SObj(ProfileStack, {"stack": tuple(nodes)})
    it = Interp(ex, label=P)
    out = call(it, it.target("src/pkgcore/ebuild/profiles.py", f"ProfileStack.{meth}"), me)
    ex.oblige(f"{P}.raises.nothing", not out.raised, kind="exceptional-postcondition")
    if out.raised:
        return
    got = out.value
    shape = isinstance(got, (tuple, list)) and all(isinstance(g, tuple) and len(g) == 2 and all(isinstance(x, MutSet) for x in g) for g in got)
    ex.oblige(f"{P}.ensures.a_sequence_of_negations_additions_pairs", shape)
    if not shape:
        return
    ex.cover("returns layers")
    start = KSet(AT).fresh("masks_so_far").t
    fold = lambda layers: functools.reduce(lambda m, pr: z3.SetUnion(z3.SetDifference(m, pr[0].val.t), pr[1].val.t), layers, start)
    ex.oblige(f"{P}.ensures.applying_the_layers_equals_applying_every_nodes_pair_in_stack_order", SBool(fold(got) == fold(pairs)))


def t_generate(ex):
    """generate_filter: visible iff (not masked or unmasked) and every further filter"""
    P = "C13.generate_filter"
    import pkgcore.ebuild.domain as dmod
    it = Interp(ex, label=P)
    it.models[dmod.make_mask_filter] = lambda it_, masks, negate=False: ("mask-filter", masks, negate)
    it.models[dmod.packages.OrRestriction] = lambda it_, *a, **k: ("or", a)
    it.models[dmod.packages.AndRestriction] = lambda it_, *a, **k: ("and", a, k.get("finalize"))
    out = call(it, it.target(FILE, "generate_filter"), "MASKS", "UNMASKS", "F1", "F2")
    ex.oblige(f"{P}.raises.nothing", not out.raised, kind="exceptional-postcondition")
    if out.raised:
        return
    want = ("and", (("or", (("mask-filter", "MASKS", True), ("mask-filter", "UNMASKS", False))), "F1", "F2"), True)
    ex.oblige(f"{P}.ensures.not_masked_or_unmasked_and_every_other_filter", out.value == want)


# ------------------------------------------------------------------ bounded stand-in on fake domains ----
def _fake_pkg(cpv, keywords, license_str):
    from pkgcore.test.misc import FakePkg
    from pkgcore.ebuild.conditionals import DepSet
    p = FakePkg(cpv, keywords=tuple(keywords), repo=types.SimpleNamespace(licenses=types.SimpleNamespace(groups={"FREE": {"GPL", "MIT"}, "EULA": {"Vendor"}})))
    object.__setattr__(p, "license", DepSet.parse(license_str, str))
    object.__setattr__(p, "keywords", tuple(keywords))  # as ebuild_src packages have them
    return p


def ref_expand(tokens, licenses, groups):
    s = set()
    for t in tokens:
        if t[0] == "-":
            i = t[1:]
            if i == "*":
                s.clear()
            elif i[0] == "@":
                s -= set(groups.get(i[1:], ()))
            else:
                s.discard(i)
        elif t[0] == "@":
            s |= set(groups.get(t[1:], ()))
        elif t == "*":
            s |= set(licenses)
        else:
            s.add(t)
    return s


def ref_alternatives(node_list):
    """DNF alternatives of a license DepSet without conditionals"""
    from pkgcore.restrictions import boolean
    alts = [frozenset()]
    for n in node_list:
        if isinstance(n, boolean.OrRestriction):
            sub = []
            for c in n.restrictions:
                sub += ref_alternatives([c])
        elif isinstance(n, boolean.AndRestriction):
            sub = ref_alternatives(list(n.restrictions))
        else:
            sub = [frozenset([str(n)])]
        alts = [a | b for a in alts for b in sub]
    return alts


def enum_filters(seed):
    from pkgcore.ebuild.domain import domain
    from pkgcore.ebuild.atom import atom
    from pkgcore.ebuild.misc import collapsed_restrict_to_data, non_incremental_collapsed_restrict_to_data
    from pkgcore.restrictions import packages
    fails, cases = [], 0
    groups = {"FREE": {"GPL", "MIT"}, "EULA": {"Vendor"}}
    lic_strings = ["GPL", "|| ( GPL Vendor )", "GPL MIT", "|| ( ( GPL Vendor ) MIT )", "Vendor || ( GPL Other )"]
    masters = [(), ("GPL",), ("@FREE",), ("*", "-@EULA"), ("*", "-Vendor"), ("-*", "MIT"), ("@FREE", "-GPL")]
    entries = [("a/b", ("Vendor",)), ("=a/b-1", ("-*",)), ("a/c", ("Other", "@EULA")), ("a/b", ("-MIT", "Other"))]
    pkgs = [("a/b-1", 0), ("a/b-2", 1), ("a/c-1", 2)]
    for ls in lic_strings:
        for master in masters:
            for k in range(3):
                for ent in itertools.permutations(entries, k):
                    fake = types.SimpleNamespace(pkg_licenses=tuple((atom(a), l) for a, l in ent), _default_licenses_manager=None)
                    shared = list(master)
                    for rnd in range(2):  # the same ACCEPT_LICENSE list serves every call
                        for cpv, _ in pkgs:
                            pkg = _fake_pkg(cpv, ("amd64",), ls)
                            cases += 1
                            got = domain._apply_license_filter(fake, shared, pkg, "match")
                            toks = list(master) + [t for a, l in ent if atom(a).match(pkg) for t in l]
                            alts = ref_alternatives(list(pkg.license.restrictions))
                            want = any(a <= ref_expand(toks, a, groups) for a in alts)
                            if got != want and len(fails) < 4:
                                fails.append({"model": {"license": ls, "accept_license": list(master), "package_license": [list(map(str, e)) for e in ent], "pkg": cpv, "call": rnd},
                                              "detail": f"_apply_license_filter: LICENSE={ls!r} ACCEPT_LICENSE={list(master)} package.license={ent} pkg={cpv} "
                                                        f"(call round {rnd}, same ACCEPT_LICENSE list object) -> {got}, reference {want}"})
    # keywords
    kw_sets = [("amd64",), ("~amd64",), ("~amd64", "x86"), ("-*", "~x86"), (), ("-amd64", "~x86")]
    # "*/*" stands for the always-matching restriction a line '*/*' (or '*') is parsed to
    accept_entries = [("a/b", ()), ("a/b", ("**",)), ("=a/b-1", ("~*",)), ("a/c", ("*",)), ("a/b", ("~x86",)), ("a/b", ("-~amd64", "x86")), ("*/*", ()), ("*/*", ("~x86",))]
    mk_r = lambda a: packages.AlwaysTrue if a == "*/*" else atom(a)
    hits = lambda a, pkg: a == "*/*" or atom(a).match(pkg)
    prof_kw = [(), (("a/b", ("~amd64",)),), (("=a/b-2", ("x86",)),)]
    # the global ACCEPT_KEYWORDS may itself carry the wildcards ("**" in make.conf is the usual way to accept everything)
    for default in (("amd64",), ("amd64", "~amd64"), ("amd64", "**"), ("*",), ("amd64", "~*")):
        for kws in kw_sets:
            for k in range(3):
                for ent in itertools.combinations(accept_entries, k):
                    for pk in prof_kw:
                        fake = types.SimpleNamespace(unstable_arch="~amd64", profile=types.SimpleNamespace(keywords=tuple((atom(a), l) for a, l in pk)))
                        fake._apply_keywords_filter = types.MethodType(domain._apply_keywords_filter, fake)
                        restrict = domain._make_keywords_filter(fake, set(default), tuple((mk_r(a), l) for a, l in ent))
                        for cpv, _ in pkgs:
                            pkg = _fake_pkg(cpv, kws, "GPL")
                            cases += 1
                            got = restrict.match(pkg)
                            stable_sys = "~amd64" not in default
                            allowed = set(default)
                            # entries for every package take effect before entries for particular ones (as in portage), each group in its written order
                            for a, l in sorted(ent, key=lambda e: e[0] != "*/*"):
                                if hits(a, pkg):
                                    toks = l if (l or not stable_sys) else ("~amd64",)
                                    if stable_sys:
                                        for t in toks:
                                            if t == "-*":
                                                allowed.clear()
                                            elif t[0] == "-":
                                                allowed.discard(t[1:])
                                            else:
                                                allowed.add(t)
                                    else:
                                        allowed |= set(toks)
                            allk = list(kws) + [t for a, l in pk if atom(a).match(pkg) for t in l]
                            want = ("**" in allowed or ("*" in allowed and any(x[0] not in "-~" for x in allk))
                                    or ("~*" in allowed and any(x[0] == "~" for x in allk)) or any(x in allowed for x in allk))
                            if bool(got) != want and len(fails) < 4:
                                fails.append({"model": {"keywords": list(kws), "accept": [list(map(str, e)) for e in ent], "profile_keywords": [list(map(str, e)) for e in pk], "default": list(default), "pkg": cpv},
                                              "detail": f"keywords filter: KEYWORDS={list(kws)} defaults={list(default)} package.accept_keywords={ent} profile package.keywords={pk} "
                                                        f"pkg={cpv} -> {bool(got)}, reference {want} (allowed set {sorted(allowed)})"})
    return {"name": "C13.filters_on_fake_domains.bounded_enumeration",
            "bound": f"{len(lic_strings)} LICENSE strings x {len(masters)} ACCEPT_LICENSE lists x ordered selections of <= 2 of {len(entries)} package.license entries x 3 packages, each call made twice "
                     f"on one shared ACCEPT_LICENSE list; {len(kw_sets)} KEYWORDS x 5 global ACCEPT_KEYWORDS (stable, unstable, with **, *, ~*) x <= 2 of {len(accept_entries)} accept_keywords entries x 3 profile package.keywords variants x 3 packages",
            "cases": cases, "failures": fails}


def enum_masks(seed):
    """the mask half on real objects: generate_filter / make_mask_filter / apply_mask_filter over every selection of <= 3 masks and <= 2 unmasks
    from a pool of atoms (bare, slot- and repository-qualified, versioned, ranges) and globs, on a 7-package universe: a package passes exactly
    when no mask matches it or some unmask does"""
    from pkgcore.ebuild.atom import atom
    from pkgcore.ebuild.domain import generate_filter
    from pkgcore.test.misc import FakePkg
    from pkgcore.util.parserestrict import parse_match
    repo_g, repo_o = types.SimpleNamespace(repo_id="gentoo"), types.SimpleNamespace(repo_id="overlay")
    pkgs = [FakePkg("a/b-1.0", slot="0", repo=repo_g), FakePkg("a/b-1.1", slot="2", repo=repo_g), FakePkg("a/b-2.0", slot="2", repo=repo_g), FakePkg("a/b-3.0", slot="3", repo=repo_o),
            FakePkg("a/c-1.0", slot="0", repo=repo_g), FakePkg("a/c-2.0", slot="2", repo=repo_o), FakePkg("z/b-1.0", slot="0", repo=repo_g)]
    pool = ["a/b", "a/b:2", "a/b:0", "a/b::overlay", "=a/b-1.0", "=a/b-1.1", ">=a/b-2.0", "<a/b-1.1", "~a/b-3.0", "a/c", "a/c:2", "=a/c-1.0", "a/*", "*/b"]
    objs = {t: (parse_match(t) if "*" in t else atom(t)) for t in pool}
    fails, cases = [], 0
    sel_m = [c for k in (1, 2, 3) for c in itertools.combinations(pool, k) if len({x.split(":")[0].lstrip("=<>~").rsplit("-", 1)[0] for x in c}) <= 2]
    sel_u = [()] + [c for k in (1, 2) for c in itertools.combinations(pool[:12], k) if len({x.split(":")[0].lstrip("=<>~").rsplit("-", 1)[0] for x in c}) == 1]
    for masks in sel_m:
        for unmasks in sel_u:
            cases += 1
            try:
                flt = generate_filter([objs[m] for m in masks], [objs[u] for u in unmasks])
                got = [bool(flt.match(p)) for p in pkgs]
            except Exception as e:
                if len(fails) < 4:
                    fails.append({"model": {"masks": list(masks), "unmasks": list(unmasks)}, "detail": f"generate_filter(masks={list(masks)}, unmasks={list(unmasks)}) raised {type(e).__name__}: {e}"})
                continue
            want = [not any(objs[m].match(p) for m in masks) or any(objs[u].match(p) for u in unmasks) for p in pkgs]
            if got != want and len(fails) < 4:
                i = next(i for i in range(len(pkgs)) if got[i] != want[i])
                fails.append({"model": {"masks": list(masks), "unmasks": list(unmasks), "package": f"{pkgs[i].cpvstr}:{pkgs[i].slot}::{pkgs[i].repo.repo_id}"},
                              "detail": f"masks {list(masks)}, unmasks {list(unmasks)}: {pkgs[i].cpvstr} (slot {pkgs[i].slot}, repository {pkgs[i].repo.repo_id}) is {'visible' if got[i] else 'hidden'}; "
                                        f"it is {'not ' if not any(objs[m].match(pkgs[i]) for m in masks) else ''}masked and {'not ' if not any(objs[u].match(pkgs[i]) for u in unmasks) else ''}unmasked"})
    return {"name": "C13.masks.bounded_enumeration", "bound": f"{len(sel_m)} selections of <= 3 masks x {len(sel_u)} selections of <= 2 unmasks from {len(pool)} atoms / globs (bare, :slot, ::repository, =, ranges, ~) through the real generate_filter, 7 packages in 4 slots and 2 repositories",
            "cases": cases, "failures": fails}


def enum_config_files(seed):
    """where the mask / keyword / license entries come from: _read_config_file on a package.* file or directory, with the configuration
    directory in an ordinary place and below a directory whose name starts with a dot (~/.config/...): every line of every file that is
    not itself hidden (a dot name below the given path) is read, in the sorted order of the files"""
    import shutil
    import tempfile
    from pkgcore.ebuild.domain import _read_config_file
    scratch = tempfile.mkdtemp(prefix="c13.", dir=os.environ.get("PYVC_SCRATCH", "/var/tmp"))
    fails, cases = [], 0
    try:
        for where in ("conf", ".config/pkgcore", "a/.b/c"):
            base = os.path.join(scratch, where)
            for form in ("file", "directory"):
                path = os.path.join(base, f"package.mask.{form}")
                want = []
                if form == "file":
                    os.makedirs(base, exist_ok=True)
                    open(path, "w").write("cat/a\n# comment\ncat/b\n")
                    want = ["cat/a", "cat/b"]
                else:
                    for rel, text, hidden in (("00first", "cat/a\n", False), ("50/nested", "cat/n\n", False), ("99last", "cat/z\n", False), (".hidden", "cat/h\n", True), (".git/config", "cat/g\n", True), ("50/.swp", "cat/s\n", True)):
                        os.makedirs(os.path.dirname(os.path.join(path, rel)), exist_ok=True)
                        open(os.path.join(path, rel), "w").write(text)
                        if not hidden:
                            want.append(text.strip())
                cases += 1
                try:
                    got = [line for line, _no, _loc in _read_config_file(path)]
                except Exception as e:
                    got = f"{type(e).__name__}: {e}"
                if got != want and len(fails) < 4:
                    fails.append({"model": {"configuration_directory": where, "form": form}, "detail": f"_read_config_file on a package.mask {form} below <scratch>/{where}: read {got}, the entries are {want}"})
    finally:
        shutil.rmtree(scratch, ignore_errors=True)
    return {"name": "C13.config_files.bounded_enumeration", "bound": "a package.mask file and a package.mask directory (3 visible files on two levels, 3 hidden ones) below 3 configuration directories (plain, below a dot directory, below a nested dot directory)",
            "cases": cases, "failures": fails}


def enum_config_entries(seed):
    """from the line in package.license / package.accept_keywords to the decision: the real loaders (domain.pkg_licenses, domain.pkg_accept_keywords)
    read a one-line file, the real filters decide on a package; the reference processes the tokens as written, left to right.  Lines repeat a
    token with its negation (or a wildcard) in between -- the last occurrence decides"""
    import shutil
    import tempfile
    from pkgcore.ebuild.domain import domain
    scratch = tempfile.mkdtemp(prefix="c13e.", dir=os.environ.get("PYVC_SCRATCH", "/var/tmp"))
    fails, cases = [], 0
    groups = {"FREE": {"GPL", "MIT"}, "EULA": {"Vendor"}}
    lic_lines = ["MIT", "MIT -MIT", "MIT -MIT MIT", "-MIT MIT -MIT", "MIT MIT", "* -MIT *", "-* MIT -*", "@FREE -MIT @FREE", "@FREE -@FREE MIT", "MIT -* MIT", "-MIT * -MIT"]
    kw_lines = ["~amd64", "~amd64 -~amd64", "~amd64 -~amd64 ~amd64", "-~amd64 ~amd64 -~amd64", "~amd64 -* ~amd64", "-* ~amd64 -*", "** -** **", "~* -~* ~*"]
    load = lambda name, fake: domain.__dict__[name].function(fake)
    try:
        for i, toks in enumerate(lic_lines):
            d = os.path.join(scratch, f"l{i}")
            os.makedirs(d)
            open(os.path.join(d, "package.license"), "w").write(f"a/b {toks}\n")
            fake = types.SimpleNamespace(root="/", config_dir=d, _default_licenses_manager=None)
            cases += 1
            try:
                fake.pkg_licenses = load("pkg_licenses", fake)
                pkg = _fake_pkg("a/b-1", ("amd64",), "MIT")
                got = bool(domain._apply_license_filter(fake, [], pkg, "match"))
            except Exception as e:
                got = f"{type(e).__name__}: {e}"
            want = "MIT" in ref_expand(toks.split(), {"MIT"}, groups)
            if got != want and len(fails) < 4:
                fails.append({"model": {"file": "package.license", "line": f"a/b {toks}"}, "detail": f"package.license line 'a/b {toks}', LICENSE=MIT, empty ACCEPT_LICENSE: the package is {'visible' if got is True else 'hidden' if got is False else got}; "
                                                                                          f"read left to right the line {'accepts' if want else 'does not accept'} MIT"})
        for i, toks in enumerate(kw_lines):
            d = os.path.join(scratch, f"k{i}")
            os.makedirs(d)
            open(os.path.join(d, "package.accept_keywords"), "w").write(f"a/b {toks}\n")
            fake = types.SimpleNamespace(root="/", config_dir=d, unstable_arch="~amd64", profile=types.SimpleNamespace(keywords=()))
            fake._apply_keywords_filter = types.MethodType(domain._apply_keywords_filter, fake)
            cases += 1
            try:
                entries = load("pkg_accept_keywords", fake)
                restrict = domain._make_keywords_filter(fake, {"amd64"}, entries)
                got = bool(restrict.match(_fake_pkg("a/b-1", ("~amd64",), "MIT")))
            except Exception as e:
                got = f"{type(e).__name__}: {e}"
            allowed = {"amd64"}
            for t in toks.split():
                if t == "-*":
                    allowed.clear()
                elif t[0] == "-":
                    allowed.discard(t[1:])
                else:
                    allowed.add(t)
            want = bool({"~amd64", "**", "~*"} & allowed)
            if got != want and len(fails) < 4:
                fails.append({"model": {"file": "package.accept_keywords", "line": f"a/b {toks}"}, "detail": f"package.accept_keywords line 'a/b {toks}' on a stable amd64 system, KEYWORDS=~amd64: the package is "
                                                                                                   f"{'visible' if got is True else 'hidden' if got is False else got}; read left to right the line leaves {sorted(allowed)} accepted"})
        # the profile's package.keywords lines go through the profile's own splitter
        from pkgcore.ebuild.profiles import ProfileNode

        def expand(tokens):
            acc = set()
            for t in tokens:
                if t == "-*":
                    acc.clear()
                elif t[0] == "-":
                    acc.discard(t[1:])
                else:
                    acc.add(t)
            return acc
        for toks in kw_lines:
            cases += 1
            try:
                (_a, loaded), = list(ProfileNode._package_keywords_splitter(None, [(f"a/b {toks}", 1, "package.keywords")]))
                got = expand(loaded)
            except Exception as e:
                got = f"{type(e).__name__}: {e}"
            if got != expand(toks.split()) and len(fails) < 4:
                fails.append({"model": {"file": "profile package.keywords", "line": f"a/b {toks}"}, "detail": f"profile package.keywords line 'a/b {toks}' is stored as tokens that expand to {got}; "
                                                                                                    f"read left to right the line gives {sorted(expand(toks.split()))}"})
    finally:
        shutil.rmtree(scratch, ignore_errors=True)
    return {"name": "C13.config_entries.bounded_enumeration", "bound": f"{len(lic_lines)} package.license lines and {len(kw_lines)} package.accept_keywords lines with repeated tokens, read by the real loaders and decided by the real filters for one package; the same keyword lines through the profile's package.keywords splitter",
            "cases": cases, "failures": fails}


def enum_license_groups(seed):
    """the @group table the license filter works with, as the repository reads it from profiles/license_groups: groups that name other groups
    (up to three levels, a group naming two others), the lines in every order -- each group comes out as the licenses it reaches"""
    import shutil
    import tempfile
    from pkgcore.ebuild.repo_objs import Licenses
    base = {"LEAF": ["GPL-2", "MIT"], "MID": ["@LEAF", "BSD"], "TOP": ["@MID", "Apache-2.0"], "OTHER": ["Vendor"], "BOTH": ["@OTHER", "@MID"], "WIDE": ["@TOP", "@OTHER", "ISC"]}

    def closure(name, seen=()):
        out = set()
        for m in base[name]:
            if m.startswith("@"):
                if m[1:] not in seen:
                    out |= closure(m[1:], seen + (name,))
            else:
                out.add(m)
        return out
    want = {k: closure(k) for k in base}
    scratch = tempfile.mkdtemp(prefix="c13.", dir=os.environ.get("PYVC_SCRATCH", "/var/tmp"))
    cases, fails = 0, []
    try:
        os.makedirs(os.path.join(scratch, "profiles"))
        os.makedirs(os.path.join(scratch, "licenses"))
        for order in itertools.permutations(sorted(base)):
            cases += 1
            with open(os.path.join(scratch, "profiles/license_groups"), "w") as f:
                f.write("".join(f"{k} {' '.join(base[k])}\n" for k in order))
            try:
                got = {k: set(v) for k, v in Licenses(types.SimpleNamespace(location=scratch)).groups.items()}
            except Exception as e:
                got = f"{type(e).__name__}: {e}"
            if got != want and len(fails) < 4:
                diff = {k: sorted(got.get(k, ())) for k in want if not isinstance(got, str) and got.get(k) != want[k]} if not isinstance(got, str) else got
                fails.append({"model": {"line_order": list(order)}, "detail": f"license_groups with the lines in the order {list(order)}: groups read as {diff}; each group should hold the licenses it reaches: "
                                                                            f"{ {k: sorted(v) for k, v in want.items() if isinstance(got, str) or got.get(k) != v} }"})
    finally:
        shutil.rmtree(scratch, ignore_errors=True)
    return {"name": "C13.license_groups.bounded_enumeration", "bound": "6 license groups nested up to three levels (one naming two groups, one naming three), the lines of profiles/license_groups in all 720 orders, read through the real Licenses object",
            "cases": cases, "failures": fails}


def tasks():
    return [
        Task("C13._apply_license_filter", t_license, [(FILE, "domain._apply_license_filter")], fallback={"unroll": 2}, enumerate=enum_filters),
        Task("C13.license_groups", None, [("src/pkgcore/ebuild/repo_objs.py", "Licenses.groups"), ("src/pkgcore/ebuild/repo_objs.py", "Licenses._expand_groups")], enumerate=enum_license_groups),
        Task("C13._apply_keywords_filter", t_keywords, [(FILE, "domain._apply_keywords_filter")], fallback={"unroll": 2}),
        Task("C13._make_keywords_filter", t_empty_entry, [(FILE, "domain._make_keywords_filter")]),
        Task("C13.generate_filter", t_generate, [(FILE, "generate_filter")]),
        Task("C13.config_files", None, [(FILE, "_read_config_file")], enumerate=enum_config_files),
        Task("C13.config_entries", None, [(FILE, "domain.pkg_licenses"), (FILE, "domain.pkg_accept_keywords"), ("src/pkgcore/ebuild/profiles.py", "ProfileNode._package_keywords_splitter")], enumerate=enum_config_entries),
        Task("C13.masks", None, [(FILE, "make_mask_filter"), (FILE, "apply_mask_filter"), (FILE, "generate_filter")], enumerate=enum_masks),
        Task("C13.profile_layers", t_profile_layers, [("src/pkgcore/ebuild/profiles.py", "ProfileStack._incremental_masks"), ("src/pkgcore/ebuild/profiles.py", "ProfileStack._incremental_unmasks")],
             bounded={"profile nodes": 3, "note": "sets unbounded"}),
        Task("C13.filter_repo", t_masks, [(FILE, "domain.filter_repo")], bounded={"profile mask layers": 2, "profile unmask layers": 2, "note": "sets unbounded"}),
    ]


REPLAY = {}
