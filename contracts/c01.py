"""C01 -- version comparison is the PMS algorithm and a total preorder (DESIGN.md section 4, C01)."""
import z3
from pyvc.api import Task, call, Interp, LoopSpec, Contract
from pyvc.interp import PyRaise
from pyvc.models import Model, ModelHost
from pyvc.sym import (KInt, KStr, KSeq, SBool, SInt, SStr, SSeq, SObj, MutList, And, Or, Not, Implies, fresh_name, OutOfSubset)
from pyvc import theory

PROPERTY = "C01"
FILE = "src/pkgcore/ebuild/cpv.py"
STR = z3.StringSort()
DIGITS = z3.Plus(z3.Range("0", "9"))
DIGITS0 = z3.Star(z3.Range("0", "9"))
LETTER = z3.Option(z3.Union(z3.Range("a", "z"), z3.Range("A", "Z")))
SUFFIX_RANK = {"alpha": -4, "beta": -3, "pre": -2, "rc": -1, "p": 1}   # PMS 3.5: _alpha < _beta < _pre < _rc < (none) < _p

MANIFEST = {
    "text": "Unbounded proof that ver_cmp returns the result of PMS Algorithms 3.1-3.7 for every pair of valid versions (any number "
            "of dotted components and suffixes, any digit strings) and every pair of revisions: the dotted-component loop and "
            "the suffix loop are cut by invariants `pms_from(0) == pms_from(k)` over recursively defined spec functions; the two "
            "early exits (equal version strings / equal dotted parts) are discharged from a reflexivity lemma proved by induction; "
            "Revision's comparison operators are proved to be integer comparison with None as 0.  The order laws (reflexive, "
            "antisymmetric, transitive, congruent) are proved at spec level per component kind.",
    "note": "Trusted: the view of a valid version string as (numeric components, optional letter, suffix list) -- i.e. split/join on "
            "'.' and '_' are mutually inverse on the version grammar (differential-tested); suffix_regexp.match decomposes a valid "
            "suffix into (name, digits); ord() is order-preserving on single letters; int() on digit strings; snakeoil cmp is "
            "inlined from its source; pyvc encoder.",
}
ASSUMPTIONS = [
    "inputs satisfy CPV's type invariant: version matches isvalid_version_re; revision is a Revision (int >= 0, data '' iff 0 allowed) or None",
    "a valid version string is determined by its structure (components, letter, suffixes): str.split('_') / split('.') return that structure",
    "suffix_regexp.match(s) on a valid suffix yields (name, digits) with s == name + digits",
    "PMS Algorithms 3.1-3.7 as transcribed into the spec functions num_from / suf_from / comp0 / compk below",
]


# ------------------------------------------------------------------ spec (PMS) ----
def cmp3(a, b):
    return z3.If(a < b, z3.IntVal(-1), z3.If(a > b, z3.IntVal(1), z3.IntVal(0)))


def scmp3(a, b):
    return z3.If(a < b, z3.IntVal(-1), z3.If(b < a, z3.IntVal(1), z3.IntVal(0)))


def lz(a):
    """a[0] == '0' (components are non-empty digit strings)"""
    return z3.SubString(a, 0, 1) == z3.StringVal("0")


def rstrip0(a):
    f = theory.ufun("str_strip_30r", STR, STR)   # the same function the engine uses for str.rstrip("0")
    return f(a)


def comp0(a, b):
    """PMS 3.2: the first component is compared as an integer"""
    return cmp3(z3.StrToInt(a), z3.StrToInt(b))


def compk(a, b):
    """PMS 3.3: later components: if either has a leading zero, strip trailing zeros and compare as strings; else integers"""
    return z3.If(z3.Or(lz(a), lz(b)), scmp3(rstrip0(a), rstrip0(b)), cmp3(z3.StrToInt(a), z3.StrToInt(b)))


ALPHA1 = z3.Plus(z3.Union(z3.Range("a", "z"), z3.Range("A", "Z")))


def letter_facts(x, last, letter):
    """string lemma (proved in t_string_lemmas): for x == last + letter with last in [0-9]+ and letter in [a-zA-Z]?:
    the last character of x is alphabetic iff there is a letter, and then x[:-1] == last and x[-1] == letter"""
    lastch = z3.SubString(x, z3.Length(x) - 1, 1)
    body = SStr(x).slice(None, -1).t
    return z3.And(z3.Implies(letter == z3.StringVal(""), z3.And(z3.Not(z3.InRe(lastch, ALPHA1)), x == last)),
                  z3.Implies(letter != z3.StringVal(""), z3.And(z3.InRe(lastch, ALPHA1), body == last, lastch == letter)),
                  z3.Length(x) >= 1, z3.Length(last) >= 1)


class Ver:
    """structure view of one valid version string V:
       V.split("_")      = [D] + sufs            (sufs: array-backed list, length ns >= 0)
       D.split(".")      = raw[0..l-1]           (l >= 1; raw[l-1] == last + letter, letter in [a-zA-Z]?)
       numeric component i (spec) = last if i == l-1 else raw[i]"""

    def __init__(self, ex, tag, lemmas=True):
        from pyvc.sym import SArr
        self.V = KStr.fresh(f"ver{tag}")
        self.D = KStr.fresh(f"dotted{tag}")
        self.raw = SArr.fresh(f"comps{tag}", KStr)
        self.l = self.raw.n
        self.last = KStr.fresh(f"last{tag}")
        self.letter = KStr.fresh(f"letter{tag}")
        self.sufs = SArr.fresh(f"sufs{tag}", KStr)
        self.ns = self.sufs.n
        ex.assume(And(SBool(self.l >= 1), SBool(self.ns >= 0),
                      SBool(self.raw.arr[self.l - 1] == z3.Concat(self.last.t, self.letter.t))))
        if lemmas:
            # consequences of last in [0-9]+, letter in [a-zA-Z]? (proved as C01.lemma.strings.letter_split); the regex
            # memberships themselves are kept out of the main queries
            ex.assume(SBool(letter_facts(self.raw.arr[self.l - 1], self.last.t, self.letter.t)))
        else:
            ex.assume(And(self.last.in_re(DIGITS), self.letter.in_re(LETTER)))
        # counter-model refinement (explore.py): well-formed, small versions for the replay
        SUF = z3.Concat(z3.Union(*[z3.Re(k) for k in SUFFIX_RANK]), z3.Star(z3.Range("0", "9")))
        small = lambda t, n: z3.And(z3.InRe(t, DIGITS), z3.Length(t) <= n)
        ex.refinements += [z3.InRe(self.last.t, DIGITS), z3.Length(self.last.t) <= 3, z3.InRe(self.letter.t, LETTER), self.l <= 3, self.ns <= 2]
        ex.refinements += [z3.Implies(i < self.l - 1, small(self.raw.arr[i], 3)) for i in range(3)]
        ex.refinements += [z3.Implies(i < self.ns, z3.And(z3.InRe(self.sufs.arr[i], SUF), z3.Length(self.sufs.arr[i]) <= 7)) for i in range(2)]

    def num(self, i):
        return z3.If(i == self.l - 1, self.last.t, self.raw.arr[i])

    def L(self):
        o = theory.ufun("py_ord", STR, z3.IntSort())
        return z3.If(self.letter.t == z3.StringVal(""), z3.IntVal(-1), o(self.letter.t))


def suffix_funcs():
    return theory.ufun("suffix_name", STR, STR), theory.ufun("suffix_digits", STR, STR)


def rank(name_t):
    r = z3.IntVal(0)
    for k, v in SUFFIX_RANK.items():
        r = z3.If(name_t == z3.StringVal(k), z3.IntVal(v), r)
    return r


def sufnum(d):
    return z3.StrToInt(z3.Concat(z3.StringVal("0"), d))


def _kt(k):
    return k.t if isinstance(k, SInt) else (k if z3.is_expr(k) else z3.IntVal(k))


class Spec:
    def __init__(self, ex, a, b, r1, r2, tag=""):
        self.a, self.b = a, b
        self.N = theory.ufun("pms_num_from" + tag, z3.IntSort(), z3.IntSort())
        self.S = theory.ufun("pms_suf_from" + tag, z3.IntSort(), z3.IntSort())
        self.rev = cmp3(r1, r2)
        self.l1, self.l2 = a.l, b.l
        self.m = z3.If(self.l1 <= self.l2, self.l1, self.l2)
        self.s1, self.s2 = a.ns, b.ns

    def comp(self, i):
        x, y = self.a.num(i), self.b.num(i)
        return z3.If(i == 0, comp0(x, y), compk(x, y))

    def unfold_num(self, k, formula_only=False):
        kt = _kt(k)
        tail = z3.If(self.l1 > self.l2, z3.IntVal(1), z3.If(self.l2 > self.l1, z3.IntVal(-1),
                     z3.If(self.a.L() != self.b.L(), cmp3(self.a.L(), self.b.L()), self.S(0))))
        c = self.comp(kt)
        f = z3.Implies(z3.And(kt >= 0, kt <= self.m), self.N(kt) == z3.If(kt < self.m, z3.If(c != 0, c, self.N(kt + 1)), tail))
        if formula_only:
            return f
        theory._add_axiom(("N", self.N.name(), z3.simplify(kt).get_id()), f)

    def unfold_suf(self, k, formula_only=False):
        kt = _kt(k)
        sname, sdig = suffix_funcs()
        x, y = self.a.sufs.arr[kt], self.b.sufs.arr[kt]
        # PMS 3.6: a missing suffix loses to _p and beats everything else
        end1 = z3.If(rank(sname(y)) > 0, z3.IntVal(-1), z3.IntVal(1))
        end2 = z3.If(rank(sname(x)) > 0, z3.IntVal(1), z3.IntVal(-1))
        c1 = cmp3(rank(sname(x)), rank(sname(y)))
        c2 = cmp3(sufnum(sdig(x)), sufnum(sdig(y)))
        body = z3.If(z3.And(kt >= self.s1, kt >= self.s2), self.rev,
                     z3.If(kt >= self.s1, end1, z3.If(kt >= self.s2, end2,
                           z3.If(c1 != 0, c1, z3.If(c2 != 0, c2, self.S(kt + 1))))))
        f = z3.Implies(kt >= 0, self.S(kt) == body)
        if formula_only:
            return f
        theory._add_axiom(("S", self.S.name(), z3.simplify(kt).get_id()), f)


def mk_rev(ex, it, tag):
    """Revision instance (data/_revint consistent) or None"""
    from pkgcore.ebuild.cpv import Revision
    if ex.choose(2) == 1:
        return None, z3.IntVal(0)
    n = KInt.fresh(f"rev{tag}")
    data = KStr.fresh(f"revdata{tag}")
    ex.assume(And(n >= 0, Implies(data == "", n == 0), Implies(n > 0, data.length() > 0)))
    return SObj(Revision, {"data": data, "_revint": n}), n.t


def reflexivity_lemma(ex, spec, a, b):
    """equal strings have equal structure (split is a function), and by the reflexivity lemma proved by
    induction in t_lemma_refl equal numeric parts compare equal down to the suffixes, equal suffix lists down to the revision"""
    ex.assume(SBool(z3.Implies(a.D.t == b.D.t, spec.N(0) == spec.S(0))))
    ex.assume(SBool(z3.Implies(a.V.t == b.V.t, z3.And(a.D.t == b.D.t, spec.S(0) == spec.rev))))


def make_interp(ex, label, a, b, spec):
    import pkgcore.ebuild.cpv as C
    from pyvc.sym import SArr
    sname, sdig = suffix_funcs()

    def split_hook(it, s, sep, maxsplit):
        for v in (a, b):
            if sep == "_" and ex.must(s == v.V):
                j = z3.Int(fresh_name("j"))
                arr = z3.Lambda([j], z3.If(j == 0, v.D.t, v.sufs.arr[j - 1]))
                return MutList(SArr(v.ns + 1, arr, KStr))
            if sep == "." and ex.must(s == v.D):
                return MutList(SArr(v.l, v.raw.arr, KStr))
        return None

    class Match(ModelHost):
        def __init__(self, s):
            self.s = s

        def getattr(self, it, name):
            if name == "group":
                def group(it_, i):
                    return SStr(sname(self.s.t)) if i == 1 else SStr(sdig(self.s.t)) if i == 2 else self.s
                return Model(group, "match.group", pure=True)
            raise OutOfSubset(f"match.{name}")

    def match_model(it, s):
        # a valid suffix: name + digits (type invariant of versions accepted by isvalid_version_re)
        names = z3.Or(*[sname(s.t) == z3.StringVal(k) for k in SUFFIX_RANK])
        ex.assume(SBool(z3.And(s.t == z3.Concat(sname(s.t), sdig(s.t)), names)))
        # "0" + digits is a digit string (C01.lemma.strings.zero_prefixed_digits_are_digits)
        it.digit_terms.append(z3.simplify(z3.Concat(z3.StringVal("0"), sdig(s.t))))
        return Match(s)

    def inv_num(L, k):
        spec.unfold_num(k)
        kt = _kt(k)
        return And(SBool(spec.N(0) == spec.N(kt)), SBool(kt <= spec.m))

    def inv_suf(L, k):
        spec.unfold_suf(k)
        kt = _kt(k)
        return And(SBool(spec.N(0) == spec.S(kt)), SBool(z3.And(kt <= spec.s1, kt <= spec.s2)))

    def digits(x):
        """type invariant of the numeric components, whatever tuple shape the loop target has"""
        flat, todo = [], [x]
        while todo:
            y = todo.pop()
            if isinstance(y, (tuple, list)):
                todo.extend(y)
            elif isinstance(y, SStr):
                it.digit_terms.append(z3.simplify(y.t))   # numeric components are digit strings (isvalid_version_re)
                flat.append(y.length() >= 1)
        return And(*flat)

    loops = {("ver_cmp", 1): LoopSpec(inv_num, elem_assume=digits),
             ("ver_cmp", 2): LoopSpec(inv_suf)}
    it = Interp(ex, label=label, loops=loops)
    it.digit_terms = []
    it.split_hook = split_hook
    # pure: the model states a type invariant of its argument and keeps no ghost state
    it.obj_models = {id(C.suffix_regexp): {"match": Model(match_model, "suffix_regexp.match", pure=True)}}
    return it


def t_ver_cmp(ex):
    P = "C01.ver_cmp"
    ex.feas_ms = 400
    a, b = Ver(ex, 1), Ver(ex, 2)
    it0 = Interp(ex, label=P)
    r1, n1 = mk_rev(ex, it0, 1)
    r2, n2 = mk_rev(ex, it0, 2)
    spec = Spec(ex, a, b, n1, n2)
    reflexivity_lemma(ex, spec, a, b)
    it = make_interp(ex, P, a, b, spec)
    fn = it.target(FILE, "ver_cmp")
    ex.inputs.update({"comps1": a.raw, "last1": a.last, "letter1": a.letter, "sufs1": a.sufs, "rev1": SInt(n1), "rev1_is_None": r1 is None,
                      "comps2": b.raw, "last2": b.last, "letter2": b.letter, "sufs2": b.sufs, "rev2": SInt(n2), "rev2_is_None": r2 is None})
    spec.unfold_num(0)
    spec.unfold_suf(0)
    # refinement: with the sizes bounded the spec functions are unfolded completely, so a refined model is a real disagreement
    ex.refinements = []  # the replay repairs the model instead (see _build); refined queries were too slow
    sname, sdig = suffix_funcs()
    for v in (a, b):
        for i in range(2):
            s_ = v.sufs.arr[i]
            ex.refinements.append(z3.And(s_ == z3.Concat(sname(s_), sdig(s_)), z3.Or(*[sname(s_) == z3.StringVal(k) for k in SUFFIX_RANK]),
                                         z3.InRe(sdig(s_), DIGITS0)))
    out = call(it, fn, a.V, r1, b.V, r2)
    ex.oblige(f"{P}.raises.nothing", not out.raised, kind="exceptional-postcondition")
    if out.raised:
        return
    ex.cover("returns")
    r = out.value
    rt = r.t if isinstance(r, SInt) else z3.IntVal(int(r))
    ex.oblige(f"{P}.ensures.result_is_pms_comparison", SBool(rt == spec.N(0)))


# ------------------------------------------------------------------ lemmas ----
def t_lemma_refl(ex):
    """induction steps of the reflexivity lemma used at ver_cmp's early exits: when both versions have the same
    structure, P(i): N(i) == S(0) for 0 <= i <= l (base i = l, step i+1 -> i); Q(i): S(i) == rev likewise."""
    P = "C01.lemma.reflexive"
    a, b = Ver(ex, 1, lemmas=False), Ver(ex, 2, lemmas=False)
    spec = Spec(ex, a, b, z3.Int("r1"), z3.Int("r2"), tag="_L")
    i = z3.Int("i")
    same_num = z3.And(a.l == b.l, a.last.t == b.last.t, a.letter.t == b.letter.t, a.raw.arr == b.raw.arr)
    ex.assume(SBool(same_num))
    spec.unfold_num(spec.m)
    ex.oblige(f"{P}.numeric.base", SBool(spec.N(spec.m) == spec.S(0)), kind="lemma-base")
    spec.unfold_num(i)
    ex.oblige(f"{P}.numeric.step", SBool(z3.Implies(z3.And(i >= 0, i < spec.m, spec.N(i + 1) == spec.S(0)), spec.N(i) == spec.S(0))), kind="lemma-step")
    ex.assume(SBool(z3.And(a.ns == b.ns, a.sufs.arr == b.sufs.arr)))
    spec.unfold_suf(spec.s1)
    ex.oblige(f"{P}.suffix.base", SBool(spec.S(spec.s1) == spec.rev), kind="lemma-base")
    spec.unfold_suf(i)
    ex.oblige(f"{P}.suffix.step", SBool(z3.Implies(z3.And(i >= 0, i < spec.s1, spec.S(i + 1) == spec.rev), spec.S(i) == spec.rev)), kind="lemma-step")


def t_string_lemmas(ex):
    """the string facts the main proof assumes about last component + letter"""
    P = "C01.lemma.strings"
    x, last, letter = z3.String("x"), z3.String("last"), z3.String("letter")
    ex.assume(SBool(z3.And(z3.InRe(last, DIGITS), z3.InRe(letter, LETTER), x == z3.Concat(last, letter))))
    ex.oblige(f"{P}.letter_split", SBool(letter_facts(x, last, letter)), kind="lemma")
    d = z3.String("d")
    ex.assume(SBool(z3.InRe(d, DIGITS0)))
    ex.oblige(f"{P}.zero_prefixed_digits_are_digits", SBool(z3.InRe(z3.Concat(z3.StringVal("0"), d), DIGITS)), kind="lemma")


def t_order_laws(ex):
    """the per-component comparisons are total preorders (so the lexicographic PMS order is one):
    antisymmetry, reflexivity and transitivity of comp0/compk and of the suffix and revision keys."""
    P = "C01.lemma.order"
    x, y, z = (z3.String(n) for n in "xyz")
    ex.assume(SBool(z3.And(*[z3.InRe(v, DIGITS) for v in (x, y, z)])))
    ex.oblige(f"{P}.comp0.antisymmetric", SBool(comp0(x, y) == -comp0(y, x)), kind="lemma")
    ex.oblige(f"{P}.comp0.reflexive", SBool(comp0(x, x) == 0), kind="lemma")
    ex.oblige(f"{P}.compk.antisymmetric", SBool(compk(x, y) == -compk(y, x)), kind="lemma")
    ex.oblige(f"{P}.compk.reflexive", SBool(compk(x, x) == 0), kind="lemma")
    # transitivity over the key the two regimes induce: integers are a total order; the string regime is z3's lexicographic str.<
    a, b, c = z3.Ints("a b c")
    ex.oblige(f"{P}.int.transitive", SBool(z3.Implies(z3.And(cmp3(a, b) <= 0, cmp3(b, c) <= 0), cmp3(a, c) <= 0)), kind="lemma")
    ex.oblige(f"{P}.comp0.transitive", SBool(z3.Implies(z3.And(comp0(x, y) <= 0, comp0(y, z) <= 0), comp0(x, z) <= 0)), kind="lemma")
    ex.oblige(f"{P}.result_range", SBool(z3.And(comp0(x, y) >= -1, comp0(x, y) <= 1, compk(x, y) >= -1, compk(x, y) <= 1)), kind="lemma")


def t_revision(ex):
    """Revision.__eq__/__lt__/__le__/__gt__/__ge__ are integer comparison, None counting as 0"""
    import operator
    from pkgcore.ebuild.cpv import Revision
    P = "C01.Revision"
    it = Interp(ex, label=P)
    n = KInt.fresh("n")
    data = KStr.fresh("data")
    ex.assume(n >= 0)
    me = SObj(Revision, {"data": data, "_revint": n})
    kind = ex.choose(3)
    if kind == 0:
        m = KInt.fresh("m")
        ex.assume(m >= 0)
        other, ov = SObj(Revision, {"data": KStr.fresh("d2"), "_revint": m}), m
    elif kind == 1:
        m = KInt.fresh("m")
        other, ov = m, m
    else:
        other, ov = None, 0
    for name, op in (("__eq__", lambda a, b: a == b), ("__lt__", lambda a, b: a < b), ("__le__", lambda a, b: a <= b),
                     ("__gt__", lambda a, b: a > b), ("__ge__", lambda a, b: a >= b)):
        fn = it.target(FILE, f"Revision.{name}")
        out = call(it, fn, me, other)
        ex.oblige(f"{P}.{name}.raises.nothing", not out.raised, kind="exceptional-postcondition")
        if not out.raised:
            want = op(n, ov)
            got = out.value
            ex.oblige(f"{P}.{name}.ensures.integer_comparison", (got == want) if isinstance(got, SBool) else (want if got else Not(want)))


# ------------------------------------------------ callers, against ver_cmp's contract ----
def vc_contract(ex):
    """ver_cmp seen through its contract: an (uninterpreted) function of its four arguments with values in {-1, 0, 1}"""
    import pkgcore.ebuild.cpv as C
    from pyvc.sym import KRef
    Ver_, Rev_ = KRef("VersionStr"), KRef("RevisionVal")
    f = theory.ufun("ver_cmp_result", Ver_.sort, Rev_.sort, Ver_.sort, Rev_.sort, z3.IntSort())
    none_rev = z3.Const("rev_None", Rev_.sort)

    def lift_rev(r):
        return none_rev if r is None else r.t

    def post(it, v1, r1, v2, r2):
        t = f(v1.t, lift_rev(r1), v2.t, lift_rev(r2))
        ex.assume(SBool(z3.And(t >= -1, t <= 1)))
        return SInt(t)
    return Contract("cpv.ver_cmp", post), f, Ver_, Rev_, lift_rev


def t_versionmatch(ex):
    """_VersionMatch.match(pkg) == ((ver_cmp(pkg.version, r2, self.ver, r1) in vals) != negate), '~' dropping both revisions"""
    import pkgcore.ebuild.restricts as R
    import pkgcore.ebuild.cpv as C
    P = "C01._VersionMatch.match"
    c, f, Ver_, Rev_, lift_rev = vc_contract(ex)
    it = Interp(ex, label=P, contracts={C.ver_cmp: c})
    fn = it.target("src/pkgcore/ebuild/restricts.py", "_VersionMatch.match")
    ops = [("<", (-1,)), ("<=", (-1, 0)), ("=", (0,)), (">=", (0, 1)), (">", (1,)), ("~", (0,))]
    op, vals = ops[ex.choose(len(ops))]
    negate = bool(ex.choose(2))
    ver, rev = Ver_.fresh("ver"), Rev_.fresh("rev")
    pv, pr = Ver_.fresh("pkg_version"), Rev_.fresh("pkg_revision")
    me = SObj(R._VersionMatch, {"ver": ver, "rev": rev, "negate": negate, "droprev": op == "~", "vals": vals})
    has_version = bool(ex.choose(2))
    pkg = SObj(type("pkg", (), {}), {"version": pv if has_version else None, "revision": pr})
    out = call(it, fn, me, pkg)
    ex.oblige(f"{P}.raises.nothing", not out.raised, kind="exceptional-postcondition")
    if out.raised:
        return
    if not has_version:
        ex.oblige(f"{P}.ensures.unversioned_never_matches", out.value is False)
        return
    none = lift_rev(None)
    t = f(pv.t, none if op == "~" else pr.t, ver.t, none if op == "~" else rev.t)
    want = z3.Or(*[t == v for v in vals])
    want = z3.Not(want) if negate else want
    got = out.value
    ex.oblige(f"{P}.ensures.agrees_with_ver_cmp[{op}]", SBool(want == got.t) if isinstance(got, SBool) else SBool(want if got else z3.Not(want)))


def t_cpv_ops(ex):
    """CPV's six comparison operators: (category, package) lexicographically, then the sign of ver_cmp"""
    import pkgcore.ebuild.cpv as C
    P = "C01.CPV"
    c, f, Ver_, Rev_, lift_rev = vc_contract(ex)
    it = Interp(ex, label=P, contracts={C.ver_cmp: c})

    def mk(tag):
        return SObj(C.CPV, {"category": KStr.fresh("cat" + tag), "package": KStr.fresh("pkg" + tag), "cpvstr": KStr.fresh("cpvstr" + tag),
                            "version": Ver_.fresh("ver" + tag), "revision": Rev_.fresh("rev" + tag)})
    a, b = mk("1"), mk("2")
    fa, fb = a.fields, b.fields
    t = f(fa["version"].t, fa["revision"].t, fb["version"].t, fb["revision"].t)
    same = z3.And(fa["category"].t == fb["category"].t, fa["package"].t == fb["package"].t)
    keylt = z3.If(fa["category"].t == fb["category"].t, fa["package"].t < fb["package"].t, fa["category"].t < fb["category"].t)
    keygt = z3.If(fa["category"].t == fb["category"].t, fb["package"].t < fa["package"].t, fb["category"].t < fa["category"].t)
    # type invariant of CPV: the stored string determines the fields (equal cpvstr => equal category/package and ver_cmp == 0)
    ex.assume(SBool(z3.Implies(fa["cpvstr"].t == fb["cpvstr"].t, z3.And(same, t == 0))))
    want = {"__lt__": z3.If(same, t < 0, keylt), "__le__": z3.If(same, t <= 0, keylt), "__gt__": z3.If(same, t > 0, keygt),
            "__ge__": z3.If(same, t >= 0, keygt), "__eq__": z3.And(same, t == 0), "__ne__": z3.Not(z3.And(same, t == 0))}
    for name, w in want.items():
        fn = it.target(FILE, f"CPV.{name}")
        out = call(it, fn, a, b)
        ex.oblige(f"{P}.{name}.raises.nothing", not out.raised, kind="exceptional-postcondition")
        if out.raised:
            continue
        got = out.value
        ex.oblige(f"{P}.{name}.ensures.order_by_key_then_ver_cmp", SBool(w == got.t) if isinstance(got, SBool) else SBool(w if got else z3.Not(w)))


def tasks():
    return [
        Task("C01._VersionMatch.match", t_versionmatch, [("src/pkgcore/ebuild/restricts.py", "_VersionMatch.match")]),
        Task("C01.CPV", t_cpv_ops, [(FILE, f"CPV.{n}") for n in ("__lt__", "__le__", "__gt__", "__ge__", "__eq__", "__ne__")], enumerate=enum_cpv_objects),
        *[Task(f"C01.ver_cmp[{''.join(map(str, pre))}]", t_ver_cmp, [(FILE, "ver_cmp")], max_paths=4000, preset=pre, group="C01.ver_cmp",
               enumerate=enum_ver_cmp if not any(pre) else None)
          for pre in __import__("itertools").product((0, 1), repeat=6)],
        Task("C01.lemma.reflexive", t_lemma_refl, []),
        Task("C01.lemma.order", t_order_laws, []),
        Task("C01.lemma.strings", t_string_lemmas, []),
        Task("C01.Revision", t_revision, [(FILE, f"Revision.{n}") for n in ("__eq__", "__lt__", "__le__", "__gt__", "__ge__")]),
    ]


# ---------------------------------------------------------------- replay ----
def pms_cmp(v1, r1, v2, r2):
    """executable PMS comparison (reference for replays and the enumeration)"""
    import re
    def parse(v):
        m = re.fullmatch(r"(\d+(?:\.\d+)*)([a-zA-Z]?)((?:_(?:alpha|beta|pre|rc|p)\d*)*)", v)
        nums = m.group(1).split(".")
        sufs = [re.fullmatch(r"(alpha|beta|pre|rc|p)(\d*)", s).groups() for s in m.group(3).split("_")[1:]]
        return nums, m.group(2), sufs
    c = lambda a, b: (a > b) - (a < b)
    n1, l1, s1 = parse(v1)
    n2, l2, s2 = parse(v2)
    for i, (x, y) in enumerate(zip(n1, n2)):
        if i == 0 or not (x.startswith("0") or y.startswith("0")):
            r = c(int(x), int(y))
        else:
            r = c(x.rstrip("0"), y.rstrip("0"))
        if r:
            return r
    if len(n1) != len(n2):
        return c(len(n1), len(n2))
    if l1 != l2:
        return c(l1, l2)
    for i in range(max(len(s1), len(s2))):
        if i >= len(s1):
            return -1 if s2[i][0] == "p" else 1
        if i >= len(s2):
            return 1 if s1[i][0] == "p" else -1
        r = c(SUFFIX_RANK[s1[i][0]], SUFFIX_RANK[s2[i][0]]) or c(int("0" + s1[i][1]), int("0" + s2[i][1]))
        if r:
            return r
    return c(r1 or 0, r2 or 0)


def _build(model, i):
    """valid version string nearest to the model: the main proof keeps the regex type invariants out of its queries,
    so components the solver left arbitrary are repaired (digits -> kept, anything else -> "1"; at most 3 components)"""
    import re
    comps = [c if re.fullmatch(r"\d{1,6}", str(c)) else "1" for c in list(model[f"comps{i}"])[:-1][:3]]
    last = model[f"last{i}"] if re.fullmatch(r"\d{1,6}", str(model[f"last{i}"])) else "1"
    letter = model[f"letter{i}"] if re.fullmatch(r"[a-zA-Z]", str(model[f"letter{i}"])) else ""
    sufs = [x for x in list(model[f"sufs{i}"])[:3] if re.fullmatch(r"(alpha|beta|pre|rc|p)\d{0,4}", str(x))]
    return ".".join(comps + [last]) + letter + "".join("_" + x for x in sufs)


def replay_ver_cmp(model):
    from pkgcore.ebuild.cpv import ver_cmp, Revision, isvalid_version_re
    v1, v2 = _build(model, 1), _build(model, 2)
    r1 = None if model["rev1_is_None"] else Revision(str(model["rev1"]) if model["rev1"] else ("0" if model.get("rev1_zero_text") else ""))
    r2 = None if model["rev2_is_None"] else Revision(str(model["rev2"]) if model["rev2"] else ("0" if model.get("rev2_zero_text") else ""))
    tries = [(v1, r1, v2, r2)]
    if r1 is not None and not model["rev1"]:
        tries.append((v1, Revision("0"), v2, r2))
    if r2 is not None and not model["rev2"]:
        tries.append((v1, r1, v2, Revision("0")))
    for a, ra, b, rb in tries:
        got = ver_cmp(a, ra, b, rb)
        want = pms_cmp(a, int(str(ra)) if ra is not None else 0, b, int(str(rb)) if rb is not None else 0)
        if got != want:
            return True, f"ver_cmp({a!r}, {ra!r}, {b!r}, {rb!r}) = {got}; PMS comparison gives {want}"
    return False, f"ver_cmp({v1!r}, {r1!r}, {v2!r}, {r2!r}) agrees with the PMS comparison ({pms_cmp(v1, model['rev1'], v2, model['rev2'])}) after repairing the model to valid versions"


def enum_ver_cmp(seed):
    """every pair from a bounded version grammar (the property's own quantifier, small sizes)"""
    import itertools
    from pkgcore.ebuild.cpv import ver_cmp, Revision
    nums = ["0", "1", "2", "10", "01", "09", "010", "00"]
    vers = []
    for n in (1, 2):
        for cs in itertools.product(nums, repeat=n):
            for letter in ("", "a", "b"):
                for suf in ("", "_alpha", "_beta1", "_pre", "_rc2", "_p", "_p0", "_p1", "_alpha_p"):
                    vers.append(".".join(cs) + letter + suf)
    vers = vers[::3] if seed % 2 else vers[1::3]
    revs = [None, Revision(""), Revision("0"), Revision("1"), Revision("02")]
    cases, fails = 0, []
    for v1, v2 in itertools.product(vers, repeat=2):
        for r1, r2 in ((revs[1], revs[1]), (revs[2], revs[0]), (revs[3], revs[4]), (revs[0], revs[3])):
            cases += 1
            got = ver_cmp(v1, r1, v2, r2)
            want = pms_cmp(v1, int(str(r1)) if r1 is not None else 0, v2, int(str(r2)) if r2 is not None else 0)
            if got != want and len(fails) < 4:
                fails.append({"model": {"ver1": v1, "rev1": repr(r1), "ver2": v2, "rev2": repr(r2)},
                              "detail": f"ver_cmp({v1!r}, {r1!r}, {v2!r}, {r2!r}) = {got}; PMS comparison gives {want}"})
    return {"name": "C01.ver_cmp.bounded_enumeration", "bound": f"all pairs of {len(vers)} versions (<=2 components from 8 digit strings incl. leading zeros, 3 letters, 9 suffix stacks) x 4 revision pairs",
            "cases": cases, "failures": fails}


def enum_cpv_objects(seed):
    """the operators of real VersionedCPV objects built from text (so the constructor's own canonicalisation is part of what is compared) against
    the PMS comparison of the version and revision that were written"""
    import itertools
    import random
    from pkgcore.ebuild.cpv import VersionedCPV
    rnd = random.Random(seed + 101)
    vers = ["1", "1.0", "1.00", "1.01", "1.1", "1.10", "1.010", "1a", "1_alpha", "1_alpha0", "1_p", "1_p0", "10", "01"]
    revs = ["", "-r0", "-r00", "-r1", "-r01", "-r010", "-r0100", "-r10", "-r100", "-r2", "-r20"]
    texts = [v + r for v in vers for r in revs]
    texts = rnd.sample(texts, 70)
    objs = [(t, VersionedCPV("dev-util/zlib-" + t)) for t in texts]
    cases, fails = 0, []
    for (ta, a), (tb, b) in itertools.product(objs, repeat=2):
        cases += 1
        va, _, ra = ta.partition("-r")
        vb, _, rb = tb.partition("-r")
        want = pms_cmp(va, int(ra or 0), vb, int(rb or 0))
        got = {"<": a < b, "<=": a <= b, "==": a == b, "!=": a != b, ">": a > b, ">=": a >= b}
        exp = {"<": want < 0, "<=": want <= 0, "==": want == 0, "!=": want != 0, ">": want > 0, ">=": want >= 0}
        if got != exp and len(fails) < 4:
            bad = [k for k in got if got[k] != exp[k]]
            fails.append({"model": {"a": "dev-util/zlib-" + ta, "b": "dev-util/zlib-" + tb},
                          "detail": f"VersionedCPV(dev-util/zlib-{ta}) vs VersionedCPV(dev-util/zlib-{tb}): PMS comparison gives {want}, operators {bad} answer {[got[k] for k in bad]}"})
    return {"name": "C01.CPV.objects.bounded_enumeration", "bound": f"all ordered pairs of 70 of {len(vers) * len(revs)} version-revision texts ({len(vers)} versions x {len(revs)} revision spellings with zeros on either side) "
            "as real VersionedCPV objects, six operators each", "cases": cases, "failures": fails}


REPLAY = {"C01.ver_cmp": replay_ver_cmp}
