"""Native harness shared by C15 / C16: tiny in-memory repositories, the real resolver, and a brute-force oracle."""
import itertools
import random


def mkrepo(d, livefs=False, rid="repo"):
    """d: {cat: {pkg: {ver: {"RDEPEND": "...", "DEPEND": "...", "SLOT": "0"}}}} -> SimpleTree of FakePkg with parsed dependencies"""
    from pkgcore.repository.util import SimpleTree
    from pkgcore.test.misc import FakePkg
    from pkgcore.ebuild.atom import atom
    from pkgcore.ebuild.conditionals import DepSet
    holder = {}

    def klass(cat, pkg, ver):
        data = dict(d[cat][pkg][ver])
        p = FakePkg(f"{cat}/{pkg}-{ver}", repo=holder["r"], slot=data.get("SLOT", "0"))
        for k in ("DEPEND", "RDEPEND", "PDEPEND", "BDEPEND", "IDEPEND"):
            object.__setattr__(p, k.lower(), DepSet.parse(data.get(k, ""), atom))
        return p
    r = SimpleTree({c: {p: list(v) for p, v in pk.items()} for c, pk in d.items()}, pkg_klass=klass, livefs=livefs, repo_id=rid)
    holder["r"] = r
    return r


NAMES = ("p", "q", "r", "s")
DEP_TEMPLATES = ("", "", "a/{o}", ">=a/{o}-2", "<a/{o}-2", "|| ( a/{o} a/{o2} )", "a/{o} a/{o2}", "=a/{o}-1")


def random_universe(rnd, blockers=False, slots=False, build_deps=False):
    src = {"a": {}}
    for n in NAMES[:rnd.choice((2, 3, 4))]:
        vers = {}
        for v in sorted(rnd.sample(("1", "2", "3"), rnd.choice((1, 2, 3)))):
            others = [o for o in NAMES if o != n]
            t = rnd.choice(DEP_TEMPLATES + (("!a/{o}",) if blockers else ()))
            data = {"RDEPEND": t.format(o=rnd.choice(others), o2=rnd.choice(others))}
            if rnd.random() < (.6 if build_deps else .3):
                data["DEPEND"] = rnd.choice(DEP_TEMPLATES).format(o=rnd.choice(others), o2=rnd.choice(others))
            if slots and rnd.random() < .4:
                data["SLOT"] = v
            vers[v] = data
        src["a"][n] = vers
    inst = {"a": {}}
    for n, vers in src["a"].items():
        if rnd.random() < .4:
            v = rnd.choice(sorted(vers))
            inst["a"][n] = {v: {"RDEPEND": "", "SLOT": vers[v].get("SLOT", "0")}}
    if not inst["a"]:
        inst = {}
    return src, inst


def dep_ok(depset, chosen):
    """propositional satisfaction of a (conditional-free) dependency set by the set of chosen packages"""
    from pkgcore.restrictions import boolean
    from pkgcore.ebuild.atom import atom

    def sat(node):
        if isinstance(node, atom):
            hit = any(node.match(p) for p in chosen)
            return (not hit) if node.blocks else hit
        if isinstance(node, boolean.OrRestriction):
            return any(sat(c) for c in node.restrictions)
        if isinstance(node, boolean.AndRestriction):
            return all(sat(c) for c in node.restrictions)
        raise TypeError(node)
    return all(sat(n) for n in depset.restrictions)


def dep_ok_nonblock(depset, chosen):
    """every clause has an alternative satisfied by the chosen packages; blockers count as satisfied here (checked separately)"""
    from pkgcore.restrictions import boolean
    from pkgcore.ebuild.atom import atom

    def sat(node):
        if isinstance(node, atom):
            return True if node.blocks else any(node.match(p) for p in chosen)
        if isinstance(node, boolean.OrRestriction):
            return any(sat(c) for c in node.restrictions)
        if isinstance(node, boolean.AndRestriction):
            return all(sat(c) for c in node.restrictions)
        raise TypeError(node)
    return all(sat(n) for n in depset.restrictions)


def blockers_of(depset):
    """blocker atoms that apply unconditionally (not inside an any-of group)"""
    from pkgcore.restrictions import boolean
    from pkgcore.ebuild.atom import atom
    out = []

    def walk(node):
        if isinstance(node, atom):
            if node.blocks:
                out.append(node)
        elif isinstance(node, boolean.AndRestriction):
            for c in node.restrictions:
                walk(c)
    for n in depset.restrictions:
        walk(n)
    return out


def closed(chosen, attrs=("rdepend", "depend", "pdepend", "bdepend", "idepend")):
    return all(dep_ok(getattr(p, a), [q for q in chosen if q is not p or not a]) for p in chosen for a in attrs)


def all_closed_sets(repo_pkgs, one_per_key=True):
    """every dependency-closed selection with at most one version per package name (brute force)"""
    by_key = {}
    for p in repo_pkgs:
        by_key.setdefault(p.key, []).append(p)
    keys = sorted(by_key)
    out = []
    for combo in itertools.product(*[[None] + by_key[k] for k in keys]):
        chosen = [p for p in combo if p is not None]
        if closed(chosen):
            out.append(chosen)
    return out


def buildable_in_order(chosen, attrs=("rdepend", "depend", "bdepend", "idepend")):
    """is there an order of the selection in which every package comes after packages satisfying all its (build and run time)
    dependencies?  A conservative notion of 'resolvable': it excludes selections that only work through dependency cycles."""
    done, rest = [], list(chosen)
    while rest:
        for p in rest:
            if all(dep_ok(getattr(p, a), done) for a in attrs):
                done.append(p)
                rest.remove(p)
                break
        else:
            return False
    return True


def resolve(kind, src_d, inst_d, targets, **kw):
    from pkgcore.ebuild import resolver
    from pkgcore.ebuild.atom import atom
    src = mkrepo(src_d)
    vdb = mkrepo(inst_d, livefs=True, rid="vdb") if inst_d else mkrepo({}, livefs=True, rid="vdb")
    mk = {"upgrade": resolver.upgrade_resolver, "min_install": resolver.min_install_resolver}[kind]
    r = mk([vdb], [src], verify_vdb=True, **kw)
    failures = []
    for t in targets:
        f = r.add_atom(atom(t))
        if f:
            failures.append((t, f))
    ops = [(op.desc, op.pkg.cpvstr, getattr(getattr(op, "old_pkg", None), "cpvstr", None)) for op in r.state.iter_ops()]
    return r, src, vdb, failures, ops


def final_state(vdb, r):
    """installed packages after the plan: vdb minus removed/replaced plus added"""
    cur = {p.cpvstr: p for p in vdb}
    for op in r.state.iter_ops():
        if op.desc in ("remove", "replace"):
            old = getattr(op, "old_pkg", None) or op.pkg
            cur.pop(old.cpvstr, None)
        if op.desc in ("add", "replace"):
            cur[op.pkg.cpvstr] = op.pkg
    return list(cur.values())
