"""C02 -- equality, ordering and hashing agree, for package versions (CPV) and dependency atoms (DESIGN.md section 4, C02)."""
import ast
import z3
from pyvc.api import Task, call, Interp, Contract
from pyvc.interp import Frame, Closure
from pyvc import extract, models, theory
from pyvc.sym import (KStr, KInt, KBool, KRef, SBool, SInt, SStr, SObj, Opt, And, Or, Not, Implies, fresh_name)

PROPERTY = "C02"
F_CPV = "src/pkgcore/ebuild/cpv.py"
F_ATOM = "src/pkgcore/ebuild/atom.py"

MANIFEST = {
    "text": "Unbounded proof over all field values: (CPV) equal objects have equal hashes and the six operators are mutually "
            "consistent (== excludes < and >, != means exactly one of < >, <= is < or ==, >= is not <), given that ver_cmp is an "
            "antisymmetric three-way comparison (C01); (atom) `__cmp__(a,b) == 0` exactly when a == b over the attributes "
            "equality compares, `__cmp__` is antisymmetric and transitive, and the hash expression assigned in atom.__init__ is "
            "equal for equal atoms.",
    "note": "Trusted: snakeoil GenericEquality compares exactly __attr_comparison__ (read from the real class on every run), "
            "inject_richcmp_methods_from_cmp derives <,<=,>,>= from the sign of __cmp__, reflective_hash returns the stored _hash; "
            "hash() is a function of the hashed value; ver_cmp through its C01 contract (antisymmetric, transitive, in {-1,0,1}); "
            "USE-dep tuples abstracted as elements of a total order; atom parsing (which fills the attributes) is C03/C04's subject.",
}
ASSUMPTIONS = [
    "hash(x) is a function of the value of x (equal values hash alike; nothing else is assumed)",
    "ver_cmp is antisymmetric and transitive with values in {-1,0,1} (proved at spec level in C01)",
    "CPV type invariant: equal cpvstr implies equal category, package and ver_cmp == 0",
    "the sorted USE-dep tuple of an atom is abstracted as a value of a totally ordered set",
]

Ver_, Rev_ = KRef("VersionStr"), KRef("RevisionVal")


def vc_fun():
    return theory.ufun("ver_cmp_result", Ver_.sort, Rev_.sort, Ver_.sort, Rev_.sort, z3.IntSort())


def vc_contract(ex):
    f = vc_fun()

    def post(it, v1, r1, v2, r2):
        t = f(v1.t, r1.t, v2.t, r2.t)
        ex.assume(SBool(z3.And(t >= -1, t <= 1)))
        return SInt(t)
    return Contract("cpv.ver_cmp", post)


def vc_laws(ex, objs):
    """antisymmetry / reflexivity / transitivity instances of ver_cmp for the given (version, revision) pairs (C01 lemmas)"""
    f = vc_fun()
    vr = [(o.fields["version"].t, o.fields["revision"].t) for o in objs]
    for (v1, r1) in vr:
        ex.assume(SBool(f(v1, r1, v1, r1) == 0))
        for (v2, r2) in vr:
            ex.assume(SBool(z3.And(f(v1, r1, v2, r2) == -f(v2, r2, v1, r1), f(v1, r1, v2, r2) >= -1, f(v1, r1, v2, r2) <= 1)))
            for (v3, r3) in vr:
                ex.assume(SBool(z3.Implies(z3.And(f(v1, r1, v2, r2) <= 0, f(v2, r2, v3, r3) <= 0), f(v1, r1, v3, r3) <= 0)))
                ex.assume(SBool(z3.Implies(z3.And(f(v1, r1, v2, r2) == 0, f(v2, r2, v3, r3) == 0), f(v1, r1, v3, r3) == 0)))


def as_bool(v):
    return v if isinstance(v, SBool) else SBool(z3.BoolVal(bool(v)))


def hash_model(it, v):
    return ("hash-of", v)   # a function of the value: equal iff the hashed values are equal


# ------------------------------------------------------------------------- CPV ----
def mk_cpv(tag):
    import pkgcore.ebuild.cpv as C
    return SObj(C.CPV, {"category": KStr.fresh("cat" + tag), "package": KStr.fresh("pkg" + tag), "cpvstr": KStr.fresh("cpvstr" + tag),
                        "version": Ver_.fresh("ver" + tag), "revision": Rev_.fresh("rev" + tag)})


def cpv_invariant(ex, a, b):
    f = vc_fun()
    fa, fb = a.fields, b.fields
    same = z3.And(fa["category"].t == fb["category"].t, fa["package"].t == fb["package"].t)
    ex.assume(SBool(z3.Implies(fa["cpvstr"].t == fb["cpvstr"].t,
                               z3.And(same, f(fa["version"].t, fa["revision"].t, fb["version"].t, fb["revision"].t) == 0))))


def t_cpv(ex):
    import pkgcore.ebuild.cpv as C
    P = "C02.CPV"
    it = Interp(ex, label=P, contracts={C.ver_cmp: vc_contract(ex)})
    it.hash_model = hash_model
    a, b = mk_cpv("1"), mk_cpv("2")
    vc_laws(ex, [a, b])
    cpv_invariant(ex, a, b)
    cpv_invariant(ex, b, a)
    ex.inputs.update({k + "1": v for k, v in a.fields.items() if isinstance(v, SStr)})
    ex.inputs.update({k + "2": v for k, v in b.fields.items() if isinstance(v, SStr)})
    ex.inputs["ver_cmp(1,2)"] = SInt(vc_fun()(a.fields["version"].t, a.fields["revision"].t, b.fields["version"].t, b.fields["revision"].t))
    r = {}
    for name in ("__eq__", "__ne__", "__lt__", "__le__", "__gt__", "__ge__"):
        out = call(it, it.target(F_CPV, f"CPV.{name}"), a, b)
        ex.oblige(f"{P}.{name}.raises.nothing", not out.raised, kind="exceptional-postcondition")
        if out.raised:
            return
        r[name] = as_bool(out.value)
    ha, hb = call(it, it.target(F_CPV, "CPV.__hash__"), a), call(it, it.target(F_CPV, "CPV.__hash__"), b)
    ex.oblige(f"{P}.__hash__.raises.nothing", not (ha.raised or hb.raised), kind="exceptional-postcondition")
    if not (ha.raised or hb.raised):
        ex.oblige(f"{P}.ensures.equal_objects_hash_alike", Implies(r["__eq__"], as_bool(models.eq(it, ha.value, hb.value))))
    eq, ne, lt, le, gt, ge = (r[n] for n in ("__eq__", "__ne__", "__lt__", "__le__", "__gt__", "__ge__"))
    ex.oblige(f"{P}.ensures.ne_is_not_eq", ne == Not(eq))
    ex.oblige(f"{P}.ensures.equal_is_neither_less_nor_greater", Implies(eq, And(Not(lt), Not(gt), le, ge)))
    ex.oblige(f"{P}.ensures.unequal_is_strictly_ordered_one_way", Implies(Not(eq), Or(And(lt, Not(gt)), And(gt, Not(lt)))))
    ex.oblige(f"{P}.ensures.le_is_lt_or_eq", le == Or(lt, eq))
    ex.oblige(f"{P}.ensures.ge_is_not_lt", ge == Not(lt))


# ------------------------------------------------------------------------ atoms ----
OPS = ("", "=", "<", "<=", ">", ">=", "~", "=*")


def mk_atom(ex, tag):
    from pkgcore.ebuild.atom import atom
    opt = lambda n: Opt(z3.Bool(f"{n}{tag}_is_none"), KStr.fresh(n + tag))
    flds = {"category": KStr.fresh("cat" + tag), "package": KStr.fresh("pkg" + tag), "cpvstr": KStr.fresh("cpvstr" + tag),
            "op": KStr.fresh("op" + tag), "version": Ver_.fresh("ver" + tag), "revision": Rev_.fresh("rev" + tag),
            "blocks": KBool.fresh("blocks" + tag), "blocks_strongly": KBool.fresh("blocks_strongly" + tag),
            "negate_vers": KBool.fresh("negate_vers" + tag), "slot": opt("slot"), "subslot": opt("subslot"),
            "slot_operator": opt("slot_operator"), "repo_id": opt("repo_id"), "use": KStr.fresh("use" + tag),
            "orig_atom": KStr.fresh("orig" + tag)}
    # type invariants of parsed atoms: a present slot/sub-slot/operator/repo is a non-empty string; !! implies !
    for n in ("slot", "subslot", "slot_operator", "repo_id"):
        ex.assume(Implies(Not(SBool(flds[n].isnone)), flds[n].val.length() > 0))
    ex.assume(Implies(flds["blocks_strongly"], flds["blocks"]))
    import pkgcore.ebuild.cpv as C
    flds["fullver"] = KStr.fresh("fullver" + tag)
    # the parsed CPV the atom proxies its category/package/version attributes from
    flds["_cpv"] = SObj(C.CPV, {k: flds[k] for k in ("category", "package", "cpvstr", "version", "revision", "fullver")})
    return SObj(atom, flds)


def atom_eq_spec(it, a, b):
    """GenericEquality over the real class's __attr_comparison__ (assumed contract of snakeoil)"""
    from pkgcore.ebuild.atom import atom
    parts = []
    for n in atom.__attr_comparison__:
        if n not in a.fields:
            raise KeyError(f"atom.__attr_comparison__ names {n!r}, which the contract's atom view does not model")
        r = models.eq(it, a.fields[n], b.fields[n])
        parts.append(as_bool(r) if not isinstance(r, bool) else SBool(z3.BoolVal(r)))
    return And(*parts)


def atom_invariant(ex, a, b):
    """the spelling cpvstr determines category/package/full version text and, with equal spelling, ver_cmp == 0"""
    cpv_invariant(ex, a, b)
    fa, fb = a.fields, b.fields
    ex.assume(SBool(z3.Implies(fa["cpvstr"].t == fb["cpvstr"].t,
                               z3.And(fa["fullver"].t == fb["fullver"].t, fa["version"].t == fb["version"].t, fa["revision"].t == fb["revision"].t))))


def hash_expr(it, obj):
    """value hashed into self._hash: the right-hand side of the `self._hash = ...` statement of atom.__init__, evaluated on obj"""
    ext = extract.extract(F_ATOM, "atom.__init__")
    import pkgcore.ebuild.atom as A
    for node in ast.walk(ext.node):
        if isinstance(node, ast.Assign) and any(isinstance(t, ast.Attribute) and t.attr == "_hash" for t in node.targets):
            clo = Closure(ext, vars(A), name="atom.__init__")
            fr = Frame(clo, {"self": obj, "orig_atom": obj.fields["orig_atom"], "atom": obj.fields["orig_atom"]})
            return it.eval(node.value, fr)
    return None


def t_atom(ex):
    import pkgcore.ebuild.cpv as C
    P = "C02.atom"
    ex.feas_ms = 300
    it = Interp(ex, label=P, contracts={C.ver_cmp: vc_contract(ex)})
    it.hash_model = hash_model
    a, b = mk_atom(ex, "1"), mk_atom(ex, "2")
    vc_laws(ex, [a, b])
    atom_invariant(ex, a, b)
    atom_invariant(ex, b, a)
    fn = it.target(F_ATOM, "atom.__cmp__")
    ex.inputs.update({f"{k}{i}": v for i, o in ((1, a), (2, b)) for k, v in o.fields.items() if not isinstance(v, (type(None),)) and k not in ("version", "revision")})

    def cmp_(x, y):
        out = call(it, fn, x, y)
        ex.oblige(f"{P}.__cmp__.raises.nothing", not out.raised, kind="exceptional-postcondition")
        if out.raised:
            ex.prune("raised")
        v = out.value
        return v if isinstance(v, SInt) else SInt(z3.IntVal(int(v)))
    ab = cmp_(a, b)
    ex.oblige(f"{P}.ensures.cmp_zero_iff_equal", (ab == 0) == atom_eq_spec(it, a, b))
    ha, hb = hash_expr(it, a), hash_expr(it, b)
    ex.oblige(f"{P}.__init__.hash_statement_found", ha is not None)
    if ha is not None:
        ex.oblige(f"{P}.ensures.equal_atoms_hash_alike", Implies(atom_eq_spec(it, a, b), as_bool(models.eq(it, ha, hb))))
    ex.cover("cmp(a,b)")


def scmp3(x, y):
    return z3.If(x < y, z3.IntVal(-1), z3.If(y < x, z3.IntVal(1), z3.IntVal(0)))


def icmp3(x, y):
    return z3.If(x < y, z3.IntVal(-1), z3.If(x > y, z3.IntVal(1), z3.IntVal(0)))


def key_components(a, b):
    """three-way comparison of each component of the sort key, in the order atom.__cmp__ consults them
    (an intermediate lemma read off the code; the property clauses are the order laws below)"""
    fa, fb = a.fields, b.fields
    f = vc_fun()
    s = lambda n: scmp3(fa[n].t, fb[n].t)
    o = lambda n: scmp3(z3.If(fa[n].isnone, z3.StringVal(""), fa[n].val.t), z3.If(fb[n].isnone, z3.StringVal(""), fb[n].val.t))
    bi = lambda n: icmp3(z3.If(fa[n].t, 1, 0), z3.If(fb[n].t, 1, 0))
    return [s("category"), s("package"), s("op"), f(fa["version"].t, fa["revision"].t, fb["version"].t, fb["revision"].t),
            -bi("blocks"), bi("blocks_strongly"), bi("negate_vers"), o("slot"), o("subslot"), o("slot_operator"), s("use"), o("repo_id"),
            s("cpvstr")]


def lex(cs):
    r = z3.IntVal(0)
    for c in reversed(cs):
        r = z3.If(c != 0, c, r)
    return r


def t_atom_lex(ex):
    """atom.__cmp__(a, b) is the lexicographic combination of the component comparisons"""
    import pkgcore.ebuild.cpv as C
    P = "C02.atom"
    ex.feas_ms = 300
    it = Interp(ex, label=P, contracts={C.ver_cmp: vc_contract(ex)})
    a, b = mk_atom(ex, "1"), mk_atom(ex, "2")
    vc_laws(ex, [a, b])
    out = call(it, it.target(F_ATOM, "atom.__cmp__"), a, b)
    ex.oblige(f"{P}.__cmp__.raises.nothing", not out.raised, kind="exceptional-postcondition")
    if out.raised:
        return
    v = out.value
    v = v.t if isinstance(v, SInt) else z3.IntVal(int(v))
    want = lex(key_components(a, b))
    ex.oblige(f"{P}.lemma.cmp_sign_is_lexicographic", SBool(z3.And((v < 0) == (want < 0), (v > 0) == (want > 0))))


def t_lex_laws(ex):
    """a lexicographic combination of total preorders is antisymmetric and transitive: 13 components, three objects;
    each component's outcomes among a, b, c are arbitrary values constrained only by that component being a total preorder"""
    P = "C02.atom"
    n = 13
    ab, ba, bc, ac = ([z3.Int(f"{nm}{i}") for i in range(n)] for nm in ("ab", "ba", "bc", "ac"))
    for i in range(n):
        rng = lambda x: z3.And(x >= -1, x <= 1)
        ex.assume(SBool(z3.And(rng(ab[i]), rng(ba[i]), rng(bc[i]), rng(ac[i]), ba[i] == -ab[i],
                               z3.Implies(z3.And(ab[i] <= 0, bc[i] <= 0), ac[i] <= 0),
                               z3.Implies(z3.And(ab[i] == 0, bc[i] == 0), ac[i] == 0),
                               z3.Implies(z3.And(ab[i] < 0, bc[i] <= 0), ac[i] < 0),
                               z3.Implies(z3.And(ab[i] <= 0, bc[i] < 0), ac[i] < 0),
                               z3.Implies(ab[i] == 0, ac[i] == bc[i]), z3.Implies(bc[i] == 0, ac[i] == ab[i]))))
    ex.oblige(f"{P}.ensures.cmp_antisymmetric", SBool(lex(ba) == -lex(ab)), kind="lemma")
    ex.oblige(f"{P}.ensures.cmp_transitive", SBool(z3.Implies(z3.And(lex(ab) <= 0, lex(bc) <= 0), lex(ac) <= 0)), kind="lemma")


def t_revision(ex):
    """Revision: == compares the integer value (C01.Revision); equal revisions must hash alike"""
    import inspect
    from pkgcore.ebuild.cpv import Revision
    P = "C02.Revision"
    it = Interp(ex, label=P)
    it.hash_model = hash_model
    mk = lambda t: SObj(Revision, {"data": KStr.fresh("data" + t), "_revint": KInt.fresh("revint" + t)})
    a, b = mk("1"), mk("2")
    # type invariant from Revision.__init__: _revint = int(data) (0 for the empty text): equal text => equal integer
    ex.assume(Implies(a.fields["data"] == b.fields["data"], a.fields["_revint"] == b.fields["_revint"]))
    e = call(it, it.target(F_CPV, "Revision.__eq__"), a, b)
    h = inspect.getattr_static(Revision, "__hash__")
    if getattr(h, "__module__", "") != "pkgcore.ebuild.cpv":
        # inherited collections.UserString.__hash__: hash(self.data) (stdlib, assumed)
        ha, hb = hash_model(it, a.fields["data"]), hash_model(it, b.fields["data"])
        src = "UserString.__hash__ (hash of the text)"
    else:
        ra, rb = call(it, it.target(F_CPV, "Revision.__hash__"), a), call(it, it.target(F_CPV, "Revision.__hash__"), b)
        ex.oblige(f"{P}.__hash__.raises.nothing", not (ra.raised or rb.raised), kind="exceptional-postcondition")
        if ra.raised or rb.raised:
            return
        ha, hb = ra.value, rb.value
    ex.inputs.update({"data1": a.fields["data"], "data2": b.fields["data"], "revint1": a.fields["_revint"], "revint2": b.fields["_revint"]})
    if not e.raised:
        ex.oblige(f"{P}.ensures.equal_revisions_hash_alike", Implies(as_bool(e.value), as_bool(models.eq(it, ha, hb))))


def replay_revision(model):
    from pkgcore.ebuild.cpv import Revision
    bad = [f"Revision({x!r}) == Revision({y!r}) but hashes differ" for x, y in (("01", "1"), ("0", ""), ("00", "0"))
           if Revision(x) == Revision(y) and hash(Revision(x)) != hash(Revision(y))]
    return bool(bad), "; ".join(bad) or "equal revisions hash alike"


# ------------------------------------------------------------------ bounded stand-in: the operators as python dispatches them ----
def enum_operators(seed):
    """the six comparison operators, hash and sorted() as python actually dispatches them on real CPV and atom objects (whatever the class
    or a parent defines for each operator), over names whose categories / packages are prefixes of one another, versions under several
    spellings, revisions with zeros on either side, slots, operators, blockers and USE lists"""
    import itertools
    import random
    from pkgcore.ebuild.atom import atom
    from pkgcore.ebuild.cpv import VersionedCPV
    rnd = random.Random(seed + 202)
    fails, cases = [], 0

    def check(kind, objs):
        nonlocal cases
        for (na, a), (nb, b) in itertools.combinations(objs, 2):
            cases += 1
            try:
                lt, le, eq, ne, gt, ge = a < b, a <= b, a == b, a != b, a > b, a >= b
                rlt, rgt, req = b < a, b > a, b == a
            except Exception as e:
                if len(fails) < 5:
                    fails.append({"model": {"kind": kind, "a": na, "b": nb}, "detail": f"comparing {na} with {nb} raised {type(e).__name__}: {e}"})
                continue
            probs = []
            if [lt, eq, gt].count(True) != 1:
                probs.append(f"exactly one of <, ==, > must hold: {lt}, {eq}, {gt}")
            if ne == eq:
                probs.append("!= is not the negation of ==")
            if le != (lt or eq) or ge != (gt or eq):
                probs.append(f"<= / >= disagree with < / > / ==: <= {le}, >= {ge}")
            if rlt != gt or rgt != lt or req != eq:
                probs.append(f"the mirrored comparison disagrees: b<a {rlt}, b>a {rgt}, b==a {req}")
            if eq and hash(a) != hash(b):
                probs.append("equal but the hashes differ")
            if probs and len(fails) < 5:
                fails.append({"model": {"kind": kind, "a": na, "b": nb}, "detail": f"{na} vs {nb}: " + "; ".join(probs)})
        # sorting agrees with <= whatever the input order
        base = [o for _, o in objs]
        for _ in range(3):
            cases += 1
            sh = base[:]
            rnd.shuffle(sh)
            srt = sorted(sh)
            if any(not (x <= y) for x, y in zip(srt, srt[1:])) and len(fails) < 5:
                bad = next((str(x), str(y)) for x, y in zip(srt, srt[1:]) if not (x <= y))
                fails.append({"model": {"kind": kind, "adjacent_after_sorting": list(bad)}, "detail": f"sorted() puts {bad[0]} before {bad[1]} although not ({bad[0]} <= {bad[1]})"})
    cats = ["dev", "dev-util", "dev.x", "dev+", "app", "app-misc"]
    pkgs_ = ["zlib", "zlib-ng", "z"]
    atoms = [f"{c}/{p}" for c in cats for p in pkgs_[:2]]
    atoms += [f"{op}dev-util/zlib-{v}" for op in ("=", ">=", "~", "<") for v in ("1.0", "1.00", "1.0-r0", "1.0-r1", "1.0-r010", "1.0-r10", "1.01")]
    atoms += ["dev-util/zlib:0", "dev-util/zlib:0/1", "dev-util/zlib:0=", "dev-util/zlib:=", "dev-util/zlib:*", "!dev-util/zlib", "!!dev-util/zlib", "dev-util/zlib[a,b]", "dev-util/zlib[b,a]",
              "dev-util/zlib[a(+)]", "dev-util/zlib::gentoo", "=dev-util/zlib-1.0*"]
    built = []
    for t in atoms:
        try:
            built.append((f"atom({t!r})", atom(t)))
        except Exception:
            pass   # not an atom (e.g. ~ with a revision): not part of this enumeration
    check("atom", built)
    cpvs = [f"{c}/{p}-{v}" for c in cats[:4] for p in pkgs_[:2] for v in ("1", "1.0", "1.00", "1.0-r0", "1.0-r1", "1.0-r010", "1.0-r0100", "1.0-r10", "1.0_alpha", "1.0_alpha0")]
    check("cpv", [(f"VersionedCPV({t!r})", VersionedCPV(t)) for t in rnd.sample(cpvs, 36)])
    # suffix chains of different length whose shared suffixes differ in their number (either operand may be the longer one)
    chains = ["1.0_alpha1", "1.0_alpha2", "1.0_alpha2_p1", "1.0_alpha1_p2", "1.0_beta3_p20200101", "1.0_beta4", "1.0_p1", "1.0_p2", "1.0_p2_alpha1", "1.0_p1_alpha2", "1.0_rc1_p1_p2", "1.0_rc2_p1", "1.0_rc1_p2"]
    check("cpv", [(f"VersionedCPV('dev/zlib-{v}')", VersionedCPV(f"dev/zlib-{v}")) for v in chains])
    check("atom", [(f"atom('{op}dev/zlib-{v}')", atom(f"{op}dev/zlib-{v}")) for op in ("=", ">=") for v in chains])
    return {"name": "C02.operators.bounded_enumeration", "bound": f"all pairs of {len(atoms)} atoms and of 36 of {len(cpvs)} versioned CPVs (categories and packages that are prefixes of one another, version and revision spellings "
            "with zeros on either side, slots, operators, blockers, USE lists): the six operators, their mirror images, hash on equality, sorted() against <=", "cases": cases, "failures": fails}


def tasks():
    return [
        Task("C02.Revision", t_revision, [(F_CPV, "Revision.__eq__"), (F_CPV, "Revision.__hash__")]),
        Task("C02.CPV", t_cpv, [(F_CPV, f"CPV.{n}") for n in ("__eq__", "__ne__", "__lt__", "__le__", "__gt__", "__ge__", "__hash__")]),
        Task("C02.atom.cmp_eq_hash", t_atom, [(F_ATOM, "atom.__cmp__"), (F_ATOM, "atom.__init__")], max_paths=200000),
        Task("C02.atom.cmp_is_lexicographic", t_atom_lex, [(F_ATOM, "atom.__cmp__")]),
        Task("C02.atom.order_laws", t_lex_laws, []),
        Task("C02.operators", None, [(F_ATOM, "atom.__cmp__"), (F_CPV, "CPV.__eq__"), (F_CPV, "CPV.__lt__")], enumerate=enum_operators),
    ]


def replay_cpv(model):
    from pkgcore.ebuild.cpv import VersionedCPV
    pairs = [("a/b-1.0", "a/b-1.00"), ("a/b-1.0-r0", "a/b-1.0"), ("a/b-1_alpha", "a/b-1_alpha0"), ("a/b-1.0", "a/b-1.1"), ("a/b-1", "a/c-1")]
    bad = []
    for x, y in pairs:
        p, q = VersionedCPV(x), VersionedCPV(y)
        if p == q and hash(p) != hash(q):
            bad.append(f"{x} == {y} but hashes differ")
        if p == q and (p < q or p > q or not (p <= q) or not (p >= q)):
            bad.append(f"{x} == {y} but ordered")
        if p != q and (p < q) == (p > q):
            bad.append(f"{x} != {y} but not strictly ordered one way")
    return bool(bad), "; ".join(bad) or "probe pairs of equal-but-differently-spelled versions are consistent"


def replay_atom(model):
    from pkgcore.ebuild.atom import atom
    pairs = [("!!a/b", "!a/b"), ("a/b:0/1", "a/b:0/2"), ("a/b[x,y]", "a/b[y,x]"), ("=a/b-1.0", "=a/b-1.00"), ("a/b:0=", "a/b:0"),
             ("a/b", "a/b::repo"), ("a/b:0", "a/b"), ("a/b:0/1=", "a/b:0/1"), ("~a/b-1", "=a/b-1"), ("a/b[x]", "a/b")]
    bad = []
    for x, y in pairs:
        p, q = atom(x), atom(y)
        if p == q and hash(p) != hash(q):
            bad.append(f"{x} == {y} but hashes differ")
        if p == q and (p < q or p > q):
            bad.append(f"{x} == {y} but one sorts before the other")
        if p != q and (p < q) == (p > q):
            bad.append(f"{x} != {y} but neither (or both) of < and > hold")
    return bool(bad), "; ".join(bad) or "probe pairs differing in one attribute are consistent"


REPLAY = {"C02.CPV": replay_cpv, "C02.atom": replay_atom, "C02.Revision": replay_revision}
