"""C09 -- dependency strings round-trip and USE evaluation preserves meaning (DESIGN.md section 4, C09)."""
import itertools
import random
import z3
from pyvc.api import Task, call, Interp, LoopSpec
from pyvc.interp import StarArgs
from pyvc.models import Model, ModelHost
from pyvc.sym import (KInt, KBool, KRef, KSeq, KSet, KStr, SBool, SInt, SRef, SSeq, SObj, MutSet, EngineValue, And, Or, Not, Implies, OutOfSubset, fresh_name)
from pyvc import theory

PROPERTY = "C09"
BOOL_FILE = "src/pkgcore/restrictions/boolean.py"
PKG_FILE = "src/pkgcore/restrictions/packages.py"
ATOM_FILE = "src/pkgcore/ebuild/atom.py"
COND_FILE = "src/pkgcore/ebuild/conditionals.py"
ND = KRef("node")

MANIFEST = {
    "text": "Unbounded proof (any number of members, members abstract with the contract below as their own specification) that "
            "boolean.base.evaluate_conditionals, for all-of, any-of, exactly-one-of and at-most-one-of groups under an all-of-like, "
            "any-of-like or other parent, Conditional.evaluate_conditionals (plain and tristate mode) and atom.evaluate_conditionals "
            "satisfy one contract: a node whose members were all removed by disabled conditionals contributes nothing; otherwise the "
            "nodes it hands to its parent, combined with the parent's connective, are satisfied by exactly the token sets that satisfy "
            "the node read under the flag set.  The ghost state is the pair (length, number of satisfied elements) of each list the "
            "code builds.  DepSet.parse / stringify_boolean (token loop with two stacks) are a bounded stand-in: every string of <= 6 "
            "tokens over {a, b, ||, (, ), x?, !y?} is parsed, accepted exactly when a reference grammar accepts it, re-rendered and "
            "re-parsed to an equal structure, and evaluated under every flag subset and compared, on every token set, with a reference "
            "reading; the same for seeded random nested strings and corruptions of them.",
    "note": "Trusted: the reference reading (disabled conditionals and groups emptied by them vanish; an emptied any-of therefore "
            "counts as satisfied wherever an all-of context encloses it), ContainmentMatch.match for the single-flag conditions, "
            "node constructors store their members; pyvc encoder.  Not claimed: transitive_use_atom conversion, SRC_URI renames "
            "beyond the round trip enumeration.",
}
ASSUMPTIONS = [
    "a group whose members are all removed by disabled conditionals vanishes from its parent (neutral element); at the top level and inside all-of this is 'counts as satisfied'",
    "force_collapse=True is only passed by DepSet.evaluate_depset, i.e. for an all-of-like node under an all-of-like parent",
    "restriction nodes inside a DepSet are not negated",
]


class Agg(ModelHost, EngineValue):
    """ghost view of a python list of evaluated nodes: its length and how many of its elements are satisfied"""
    star_marker = True  # f(*ghost) hands the ghost list over as one StarArgs marker

    def __init__(self, ex, name, n=None, ones=None):
        self.ex = ex
        self.n = n if n is not None else KInt.fresh(name + "_len")
        self.ones = ones if ones is not None else KInt.fresh(name + "_satisfied")
        if n is None:
            ex.assume(And(self.n >= 0, self.ones >= 0, self.ones <= self.n))

    def add(self, j, t):
        if self.ex.guards:  # inside a merged `if`: the ghost list is not guard-aware, explore the branches separately
            from pyvc.explore import NeedFork
            raise NeedFork("ghost list mutation inside a merged if")
        self.n, self.ones = self.n + j, self.ones + t

    def getattr(self, it, name):
        if name == "append":
            def append(it_, x):
                self.add(1, meaning_int(it_, x))
            return Model(append, "list.append")
        if name == "extend":
            def extend(it_, other):
                if not isinstance(other, Agg):
                    raise OutOfSubset("extend with a non-ghost list")
                self.add(other.n, other.ones)
            return Model(extend, "list.extend")
        raise OutOfSubset(f"list.{name} on ghost list")

    def len(self, it):
        return self.n

    def truth_term(self, it):
        return (self.n > 0).t


class Node(EngineValue):
    """a freshly constructed group node: class and whether it is satisfied"""

    def __init__(self, cls, sat):
        self.cls, self.sat = cls, sat


def conn(kind, n, ones):
    """meaning of a group of kind over n elements of which `ones` are satisfied"""
    if kind == "and":
        return ones == n
    if kind == "or":
        return ones > 0
    if kind == "one":
        return ones == 1
    return ones <= 1


def meaning_int(it, x):
    if isinstance(x, Node):
        return SInt(z3.If(x.sat.t, 1, 0)) if isinstance(x.sat, SBool) else (1 if x.sat else 0)
    if isinstance(x, SRef):
        return SInt(z3.If(VV(x.t), 1, 0))
    raise OutOfSubset(f"meaning of {type(x).__name__}")


def classes():
    from pkgcore.restrictions import boolean
    from pkgcore.ebuild.conditionals import DepSet
    return {"and": boolean.AndRestriction, "or": boolean.OrRestriction, "one": boolean.JustOneRestriction, "atmost": boolean.AtMostOneOfRestriction, "depset": DepSet}


def kind_of_cls(cls):
    from pkgcore.restrictions import boolean
    if issubclass(cls, boolean.AndRestriction):
        return "and"
    if issubclass(cls, boolean.OrRestriction):
        return "or"
    if issubclass(cls, boolean.JustOneRestriction):
        return "one"
    return "atmost"


# spec values of an abstract member under the fixed flag set and token set
HAS = theory_ufun = None


def _ufuns():
    global HASEVAL, VN, VV
    HASEVAL = theory.ufun("member_is_group_or_conditional", ND.sort, z3.BoolSort())
    VN = theory.ufun("member_vanishes", ND.sort, z3.BoolSort())
    VV = theory.ufun("member_satisfied", ND.sort, z3.BoolSort())


def member_contract(ex, c, parent_kind, seq):
    """the contract itself, used for the members: effect of c.evaluate_conditionals(parent_cls, seq, ...) on the ghost list"""
    j, t = KInt.fresh("appended"), KInt.fresh("appended_satisfied")
    vn, vv = SBool(VN(c)), SBool(VV(c))
    ex.assume(And(j >= 0, t >= 0, t <= j, (j == 0) == vn))
    if parent_kind == "and":
        ex.assume(Implies(Not(vn), (t == j) == vv))
    elif parent_kind == "or":
        ex.assume(Implies(Not(vn), (t > 0) == vv))
    else:
        ex.assume(Implies(Not(vn), And(j == 1, (t == 1) == vv)))
    seq.add(j, t)


def check_contract(ex, P, parent_kind, before, after, vanishes, value):
    """the same contract as an obligation on the function under proof"""
    j, t = after.n - before[0], after.ones - before[1]
    ex.oblige(f"{P}.ensures.vanishes_iff_all_members_vanished", (j == 0) == vanishes)
    if parent_kind == "and":
        ok = Implies(Not(vanishes), And(j >= 1, (t == j) == value))
    elif parent_kind == "or":
        ok = Implies(Not(vanishes), And(j >= 1, (t > 0) == value))
    else:
        ok = Implies(Not(vanishes), And(j == 1, (t == 1) == value))
    ex.oblige(f"{P}.ensures.handed_to_parent_means_the_node_under_the_flags", ok)
    ex.oblige(f"{P}.ensures.ghost_list_stays_consistent", And(t >= 0, t <= j))


def counts(name, members):
    """NN(k) / TT(k): members among the first k that do not vanish / that do not vanish and are satisfied"""
    NN = theory.ufun("NN_" + name, z3.IntSort(), z3.IntSort())
    TT = theory.ufun("TT_" + name, z3.IntSort(), z3.IntSort())
    theory._add_axiom((name, "base"), z3.And(NN(0) == 0, TT(0) == 0))

    def unfold(k):
        kt = k.t if isinstance(k, SInt) else z3.IntVal(k)
        c = members.t[kt]
        theory._add_axiom((name, "unfold", z3.simplify(kt).get_id()), z3.Implies(z3.And(kt >= 0, kt < z3.Length(members.t)), z3.And(
            NN(kt + 1) == NN(kt) + z3.If(VN(c), 0, 1),
            TT(kt + 1) == TT(kt) + z3.If(z3.And(z3.Not(VN(c)), VV(c)), 1, 0),
            TT(kt) >= 0, TT(kt) <= NN(kt), NN(kt) <= kt)))
    return NN, TT, unfold


def install_members(it, ex):
    """members are opaque: leaves (no evaluate_conditionals attribute) or nodes obeying the contract"""
    def get_eval(it_, o):
        if not ex.branch(SBool(HASEVAL(o.t))):
            ex.assume(SBool(z3.Not(VN(o.t))))  # a leaf never vanishes
            return None

        def f(it__, parent_cls, seq, enabled, tristate=None):
            if not isinstance(seq, Agg):
                raise OutOfSubset("member called with a non-ghost list")
            member_contract(ex, o.t, kind_of_cls(parent_cls), seq)
        return Model(f, "member.evaluate_conditionals")
    it.ref_attrs = {("node", "evaluate_conditionals"): get_eval}
    for cls in set(classes().values()):
        def ctor(it_, *a, _c=cls):
            if len(a) == 1 and isinstance(a[0], StarArgs) and isinstance(a[0].seq, Agg):
                g = a[0].seq
                return Node(_c, conn(kind_of_cls(_c), g.n, g.ones))
            raise OutOfSubset("group constructor on something else than the ghost list")
        it.models[cls] = ctor


def t_group(ex):
    _ufuns()
    C = classes()
    self_name = ("and", "or", "one", "atmost")[ex.choose(4)]
    force = False
    parent_name = ("and", "or", "one", "depset")[ex.choose(4)]
    if self_name == "and" and parent_name == "depset":
        force = bool(ex.choose(2))
    P = f"C09.boolean.evaluate_conditionals[{self_name} under {parent_name}{', force_collapse' if force else ''}]"
    members = KSeq(ND, "tuple").fresh("members")
    NN, TT, unfold = counts("m", members)
    sk = kind_of_cls(C[self_name])

    def inv(L, k):
        unfold(k)
        kt = k.t if isinstance(k, SInt) else z3.IntVal(k)
        l = L.l
        base = And(l.n >= 0, l.ones >= 0, l.ones <= l.n)
        if sk == "and":
            return And(base, (l.n == 0) == SBool(NN(kt) == 0), (l.ones == l.n) == SBool(TT(kt) == NN(kt)))
        if sk == "or":
            return And(base, (l.n == 0) == SBool(NN(kt) == 0), (l.ones > 0) == SBool(TT(kt) > 0))
        return And(base, SBool(l.n.t == NN(kt)) if isinstance(l.n, SInt) else SBool(NN(kt) == l.n), SBool(TT(kt) == (l.ones.t if isinstance(l.ones, SInt) else l.ones)))

    it = Interp(ex, label=P, loops={("base.evaluate_conditionals", 0): LoopSpec(inv, mutates=["l"], havoc={"l": lambda it_: Agg(ex, "l")})})
    install_members(it, ex)
    # `l = []` in the body is the ghost list
    it.list_literal = lambda it_: Agg(ex, "l", 0, 0)
    me = SObj(C[self_name], {"restrictions": members, "negate": False})
    seq = Agg(ex, "parent_seq")
    before = (seq.n, seq.ones)
    enabled = MutSet(KSet(KStr).fresh("enabled"), frozen=True)
    fn = it.target(BOOL_FILE, "base.evaluate_conditionals")
    out = call(it, fn, me, C[parent_name], seq, enabled, None, force) if force else call(it, fn, me, C[parent_name], seq, enabled)
    ex.oblige(f"{P}.raises.nothing", not out.raised, kind="exceptional-postcondition")
    if out.raised:
        return
    n = z3.Length(members.t)
    nn, tt = SInt(NN(n)), SInt(TT(n))
    check_contract(ex, P, kind_of_cls(C[parent_name]), before, seq, nn == 0, conn(sk, nn, tt))


def t_conditional(ex):
    _ufuns()
    from pkgcore.restrictions import packages, boolean
    C = classes()
    tristate = bool(ex.choose(2))
    parent_name = ("and", "or", "one", "depset")[ex.choose(4)]
    negate = bool(ex.choose(2))
    P = f"C09.Conditional.evaluate_conditionals[{'tristate, ' if tristate else ''}{'!' if negate else ''}flag? under {parent_name}]"
    it = Interp(ex, label=P)
    install_members(it, ex)
    payload = KSeq(ND, "tuple").fresh("payload")
    enabled = MutSet(KSet(KStr).fresh("enabled"), frozen=True)
    locked = MutSet(KSet(KStr).fresh("tristate_locked"), frozen=True)
    flag_on = enabled.val.contains("flag")
    # the payload read as an all-of group: abstract (its evaluation is the group contract proved above)
    pn, pv = KBool.fresh("payload_vanishes"), KBool.fresh("payload_satisfied")
    ex.assume(Implies(SBool(z3.Length(payload.t) == 0), pn))

    class Restriction(ModelHost):
        def getattr(self, it_, name):
            if name == "vals":
                return frozenset({"flag"})
            if name == "negate":
                return negate
            if name == "match":
                return Model(lambda it__, en: flag_on != negate if negate else flag_on, "ContainmentMatch.match")
            raise OutOfSubset(name)

    class AndOfPayload(ModelHost):
        def getattr(self, it_, name):
            if name == "evaluate_conditionals":
                def f(it__, parent_cls, seq, en, tri=None):
                    pk = kind_of_cls(parent_cls)
                    j, t = KInt.fresh("appended"), KInt.fresh("appended_satisfied")
                    ex.assume(And(j >= 0, t >= 0, t <= j, (j == 0) == pn))
                    if pk == "and":
                        ex.assume(Implies(Not(pn), (t == j) == pv))
                    elif pk == "or":
                        ex.assume(Implies(Not(pn), (t > 0) == pv))
                    else:
                        ex.assume(Implies(Not(pn), And(j == 1, (t == 1) == pv)))
                    ex.oblige(f"{P}.payload_evaluated_in_the_callers_mode", (tri is None) == (not tristate) and en is enabled, kind="callee-precondition")
                    seq.add(j, t)
                return Model(f, "AndRestriction.evaluate_conditionals")
            raise OutOfSubset(name)

    def and_ctor(it_, *a):
        ok = len(a) == 1 and isinstance(a[0], StarArgs) and a[0].seq is payload
        ex.oblige(f"{P}.payload_wrapped_as_all_of_group", ok, kind="callee-precondition")
        return AndOfPayload()
    it.models[boolean.AndRestriction] = and_ctor
    me = SObj(packages.Conditional, {"restriction": Restriction(), "payload": payload, "attr": "use", "negate": False})
    seq = Agg(ex, "parent_seq")
    before = (seq.n, seq.ones)
    fn = it.target(PKG_FILE, "Conditional.evaluate_conditionals")
    out = call(it, fn, me, C[parent_name], seq, enabled, locked) if tristate else call(it, fn, me, C[parent_name], seq, enabled)
    ex.oblige(f"{P}.raises.nothing", not out.raised, kind="exceptional-postcondition")
    if out.raised:
        return
    if tristate:
        # docstring of evaluate_depset: a conditional whose flag is not locked is enabled regardless of its negation
        is_on = Not(And(locked.val.contains("flag"), flag_on == negate))
    else:
        is_on = flag_on != negate if negate else flag_on
        is_on = is_on if isinstance(is_on, SBool) else SBool(z3.BoolVal(bool(is_on)))
    check_contract(ex, P, kind_of_cls(C[parent_name]), before, seq, Or(Not(is_on), pn), pv)


def t_atom(ex):
    _ufuns()
    from pkgcore.ebuild.atom import atom
    C = classes()
    parent_name = ("and", "or", "one")[ex.choose(3)]
    P = f"C09.atom.evaluate_conditionals[under {parent_name}]"
    it = Interp(ex, label=P)
    leaf = ND.fresh("the_atom")
    seq = Agg(ex, "parent_seq")
    before = (seq.n, seq.ones)
    out = call(it, it.target(ATOM_FILE, "atom.evaluate_conditionals"), leaf, C[parent_name], seq, MutSet(KSet(KStr).fresh("enabled"), frozen=True))
    ex.oblige(f"{P}.raises.nothing", not out.raised, kind="exceptional-postcondition")
    if not out.raised:
        check_contract(ex, P, kind_of_cls(C[parent_name]), before, seq, SBool(z3.BoolVal(False)), SBool(VV(leaf.t)))


# ------------------------------------------------------------------ bounded stand-in: parse / str / evaluate ----
TOK = ["a", "b", "||", "(", ")", "x?", "!y?"]
TOK2 = ["a", "!b", "^^", "??", "(", ")", "x?"]  # REQUIRED_USE operators


def ref_parse(tokens):
    """reference grammar: items := (atom | '(' items+ ')' | '||' '(' items+ ')' | flag? '(' items+ ')')*; returns a tree or None"""
    pos = 0

    def items(top):
        nonlocal pos
        out = []
        while pos < len(tokens):
            t = tokens[pos]
            if t == ")":
                if top:
                    return None
                return out
            if t == "(":
                pos += 1
                sub = group()
                if sub is None:
                    return None
                out.append(("and", sub))
            elif t == "||" or t.endswith("?"):
                if t in ("?", "!?"):
                    return None   # a conditional marker without a flag name: an operator left dangling
                if pos + 1 >= len(tokens) or tokens[pos + 1] != "(":
                    return None
                pos += 2
                sub = group()
                if sub is None:
                    return None
                out.append(("or", sub) if t == "||" else ("cond", t, sub))
            elif "|" in t:
                return None
            else:
                out.append(("atom", t))
                pos += 1
        return out if top else None

    def group():
        nonlocal pos
        sub = items(False)
        if sub is None or not sub or pos >= len(tokens) or tokens[pos] != ")":
            return None
        pos += 1
        return sub
    return items(True)


def ref_members(tree, flags, toks):
    """effective members (booleans) a list of items contributes under the flag set"""
    out = []
    for n in tree:
        if n[0] == "atom":
            out.append(n[1] in toks)
        elif n[0] == "cond":
            f = n[1][:-1]
            on = (f[1:] not in flags) if f[0] == "!" else (f in flags)
            if on:
                m = ref_members(n[2], flags, toks)
                if m:
                    out.append(all(m))
        else:
            m = ref_members(n[1], flags, toks)
            if m:
                out.append(all(m) if n[0] == "and" else any(m))
    return out


def node_members(nodes, flags, toks):
    """effective members of a list of real nodes under the flag set (the reading of the parsed structure)"""
    from pkgcore.restrictions import boolean, packages
    out = []
    for n in nodes:
        if isinstance(n, packages.Conditional):
            f = next(iter(n.restriction.vals))
            if (f in flags) != n.restriction.negate:
                m = node_members(n.payload, flags, toks)
                if m:
                    out.append(all(m))
        elif isinstance(n, boolean.base) and not hasattr(n, "cpvstr"):
            m = node_members(n.restrictions, flags, toks)
            if m:
                out.append(_conn(n, m))
        else:
            out.append(_leaf(n, toks))
    return out


def _leaf(n, toks):
    from pkgcore.restrictions import values
    if isinstance(n, values.ContainmentMatch):
        return (next(iter(n.vals)) in toks) != n.negate
    return str(n) in toks


def _conn(n, m):
    from pkgcore.restrictions import boolean
    if isinstance(n, boolean.OrRestriction):
        return any(m)
    if isinstance(n, boolean.JustOneRestriction):
        return sum(m) == 1
    if isinstance(n, boolean.AtMostOneOfRestriction):
        return sum(m) <= 1
    return all(m)


def real_sat(node, toks):
    from pkgcore.restrictions import boolean
    if isinstance(node, boolean.base) and not hasattr(node, "cpvstr"):
        return _conn(node, [real_sat(c, toks) for c in node.restrictions])
    return _leaf(node, toks)


def _unused_real_sat(node, toks):
    from pkgcore.restrictions import boolean
    if isinstance(node, boolean.OrRestriction):
        return any(real_sat(c, toks) for c in node.restrictions)
    if isinstance(node, boolean.AndRestriction) and hasattr(node, "restrictions") and not hasattr(node, "cpvstr"):
        return all(real_sat(c, toks) for c in node.restrictions)
    return str(node) in toks


class _Tok(str):
    """leaf element class for the enumeration (DepSet wants a class)"""
    __slots__ = ()


def _has_cond(d):
    from pkgcore.restrictions import packages, boolean
    def rec(n):
        if isinstance(n, packages.Conditional):
            return True
        return any(rec(c) for c in getattr(n, "restrictions", ())) if isinstance(n, boolean.base) else False
    return any(rec(n) for n in d.restrictions)


def _req_node(x):
    from pkgcore.restrictions import values
    return values.ContainmentMatch(x[1:], negate=True) if x[0] == "!" else values.ContainmentMatch(x)


def _parse(s, required_use):
    from pkgcore.ebuild.conditionals import DepSet
    from pkgcore.restrictions import values, boolean
    if not required_use:
        return DepSet.parse(s, _Tok)
    return DepSet.parse(s, values.ContainmentMatch, element_func=_req_node,
                        operators={"||": boolean.OrRestriction, "": boolean.AndRestriction, "^^": boolean.JustOneRestriction, "??": boolean.AtMostOneOfRestriction})


def _one(tokens, fails, label, required_use=False):
    from pkgcore.ebuild.errors import DepsetParseError
    s = " ".join(tokens)
    tree = ref_parse([("||" if t in ("^^", "??") else t) for t in tokens])
    try:
        d = _parse(s, required_use)
    except DepsetParseError:
        d = None
    except Exception as e:
        if len(fails) < 4:
            fails.append({"model": {"dep_str": s}, "detail": f"DepSet.parse({s!r}) raised {type(e).__name__}: {e} (neither accepted nor rejected with DepsetParseError)"})
        return 1
    if (d is None) != (tree is None):
        if len(fails) < 4:
            fails.append({"model": {"dep_str": s}, "detail": f"DepSet.parse({s!r}) {'rejects' if d is None else 'accepts'} a string the grammar {'accepts' if tree is not None else 'rejects (unbalanced parentheses or dangling operator)'}"})
        return 1
    if d is None:
        return 1
    n = 1
    text = str(d)
    try:
        d2 = _parse(text, required_use)
        same = d2 == d and str(d2) == text
    except Exception as e:
        same = False
    if not same and len(fails) < 4:
        fails.append({"model": {"dep_str": s}, "detail": f"{s!r} renders as {text!r}, which does not parse back to an equal structure"})
    for k, touched in [(k_, t_) for t_ in (False, True) for k_ in range(3)]:
        if touched and k == 0:
            d.node_conds     # what consumers of the structure read between evaluations (the per-leaf conditions); evaluation afterwards is the same evaluation
        for flags in itertools.combinations(("x", "y"), k):
            ev = d.evaluate_depset(list(flags))
            if _has_cond(ev):
                if len(fails) < 4:
                    fails.append({"model": {"dep_str": s, "flags": list(flags), "after_reading_node_conds": touched},
                                  "detail": f"{s!r} evaluated under {list(flags)}{' (after its node_conds was read)' if touched else ''} still contains a conditional: {ev}"})
                continue
            for tk in range(3):
                for toks in itertools.combinations(("a", "b"), tk):
                    n += 1
                    want = all(node_members(d.restrictions, set(flags), set(toks)))
                    got = all(real_sat(r, set(toks)) for r in ev.restrictions)
                    if want != got and len(fails) < 4:
                        fails.append({"model": {"dep_str": s, "flags": list(flags), "tokens": list(toks)},
                                      "detail": f"{s!r} evaluated under flags {list(flags)} gives {str(ev)!r}, which is {'satisfied' if got else 'not satisfied'} by {set(toks) or '{}'} "
                                                f"while the original read under those flags is {'satisfied' if want else 'not satisfied'}"})
    return n


def gen_tree(r, depth):
    out = []
    for _ in range(r.choice((1, 1, 2, 3))):
        c = r.random()
        if depth == 0 or c < .4:
            out.append(r.choice(("a", "b")))
        else:
            head = r.choice(("(", "|| (", "x? (", "!y? (", "y? (", "!x? ("))
            out.extend(head.split())
            out.extend(gen_tree(r, depth - 1))
            out.append(")")
    return out


def enum_depstrings(seed):
    import os
    thorough = os.environ.get("VERIF_TIER") == "thorough"
    fails, cases, strings = [], 0, 0
    N = 7 if thorough else 6
    for n in range(0, N + 1):
        for tokens in itertools.product(TOK, repeat=n):
            strings += 1
            cases += _one(list(tokens), fails, "exhaustive")
    for n in range(0, N + 1):
        for tokens in itertools.product(TOK2, repeat=n):
            if "^^" in tokens or "??" in tokens:
                strings += 1
                cases += _one(list(tokens), fails, "exhaustive", required_use=True)
    # conditionals inside exactly-one / at-most-one groups (longer than the exhaustive bound reaches), also below any-of and inside one another
    for text in ("^^ ( x? ( a ) b )", "?? ( a !y? ( b ) )", "|| ( a ^^ ( b x? ( a ) ) )", "^^ ( x? ( a ) y? ( b ) )", "?? ( x? ( a b ) )", "x? ( ^^ ( a b ) )", "^^ ( a !x? ( !b ) )",
                 "?? ( x? ( a ) b ) x? ( a )", "^^ ( ( x? ( a ) ) b )", "?? ( ^^ ( y? ( a ) b ) a )", "^^ ( x? ( y? ( a ) ) b )", "|| ( ?? ( !x? ( a ) b ) !b )"):
        strings += 1
        cases += _one(text.split(), fails, "fixed", required_use=True)
    # a conditional marker that names no flag, alone and in the middle of well-formed text
    for text in ("? ( a )", "!? ( a )", "a ? ( b )", "|| ( a ? ( b ) )", "x? ( ? ( a ) )", "a !? ( b ) b", "( ? ( a ) )"):
        strings += 1
        cases += _one(text.split(), fails, "fixed")
        strings += 1
        cases += _one(text.split(), fails, "fixed", required_use=True)
    r = random.Random(seed)
    for _ in range(20000 if thorough else 4000):
        t = gen_tree(r, 3)
        if r.random() < .4 and t:
            i = r.randrange(len(t))
            op = r.choice(("drop", "dup", "swap"))
            if op == "drop":
                del t[i]
            elif op == "dup":
                t.insert(i, t[i])
            else:
                t[i] = r.choice(TOK)
        strings += 1
        cases += _one(t, fails, "random")
    return {"name": "C09.DepSet.parse_str_evaluate.bounded_enumeration",
            "bound": f"every string of <= {N} tokens over {TOK}, every such string over {TOK2} (REQUIRED_USE operators) containing ^^ or ??, 12 fixed strings with conditionals inside ^^ / ?? groups, 7 strings with a conditional marker that names no flag, plus seeded random nested strings (depth <= 3) with single-token corruptions: accept/reject against the grammar, "
                     "str/parse round trip, evaluate_depset under every subset of {x, y} compared on every subset of {a, b}",
            "cases": cases, "failures": fails}


def tasks():
    return [
        Task("C09.boolean.evaluate_conditionals", t_group, [(BOOL_FILE, "base.evaluate_conditionals")], fallback={"unroll": 3}),
        Task("C09.Conditional.evaluate_conditionals", t_conditional, [(PKG_FILE, "Conditional.evaluate_conditionals")], fallback={"unroll": 3}),
        Task("C09.atom.evaluate_conditionals", t_atom, [(ATOM_FILE, "atom.evaluate_conditionals")]),
        Task("C09.DepSet", None, [(COND_FILE, "DepSet.parse"), (COND_FILE, "DepSet.evaluate_depset"), (COND_FILE, "stringify_boolean")], enumerate=enum_depstrings),
    ]


REPLAY = {}
