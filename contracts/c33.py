"""C33 -- install helpers create exactly the requested image entries (DESIGN.md section 4, C33)."""
import os
import random
import stat
import types
from collections import deque
from pyvc.api import Task

PROPERTY = "C33"
IPC = "src/pkgcore/ebuild/ebd_ipc.py"
MISC = "src/pkgcore/ebuild/misc.py"
LEVEL = "other"
EXPLANATION = ("bounded stand-in only: the install helpers do their work in generator coroutines driven by send() (files / directories / symlinks installers) and through "
               "real filesystem calls whose effect is the property; coroutines driven by send() are outside the self-built generator's subset, and the placement rules "
               "are per-helper string conventions rather than one contract.  The real helpers are run through IpcCommand.__call__ on scratch images and every image "
               "snapshot is compared with a reference placement model transcribed from PMS 12.3.")

MANIFEST = {
    "text": "Bounded stand-in: seeded request sequences (doins [-r], doexe, dobin, dosbin, dolib.so, dolib.a, dodoc [-r], doman incl. language "
            "suffixes and -i18n, domo, dohtml [-a -A -f -p -r], dodir, keepdir, dosym [-r], dohard) with the options the bash wrappers pass (--dest, --insoptions, "
            "--diroptions), for EAPI 6 and 8, on source trees with files, nested directories and symlinks, and images that already hold "
            "a file, a dangling symlink or a symlink at a destination: after every request the image snapshot (entry types, modes, data, "
            "link targets, hardlink groups) must equal the previous snapshot plus exactly the entries a reference placement model "
            "prescribes; forbidden requests (directory without -r, link name missing, man page without a section, dosym -r before EAPI 8 "
            "or with a relative source) must be rejected leaving the image unchanged; dosym -r links must resolve to the requested "
            "absolute path for 400 random path pairs.",
    "note": "Trusted: the reference placement model (PMS 12.3.3 install helpers, transcribed), the option mapping of the bash wrappers; "
            "modes are compared under umask 022, ownership is not compared (the run is root).",
}
ASSUMPTIONS = ["INSOPTIONS=-m0644, EXEOPTIONS=-m0755, DIROPTIONS=-m0755, DESTTREE=/usr, INSDESTTREE / EXEDESTTREE as given per request (the defaults of PMS)"]


class _Obs:
    def warn(self, m):
        pass

    info = write = warn

    def flush(self):
        pass


class _Chan:
    def __init__(self, fields):
        self.lines, self.replies = deque(fields), []

    def read(self, lines=1):
        return self.lines.popleft() + "\n"

    def write(self, data, **k):
        self.replies.append(str(data))


def snapshot(root):
    out = {}
    for dp, dn, fn in os.walk(root):
        for n in dn + fn:
            p = os.path.join(dp, n)
            st = os.lstat(p)
            rel = os.path.relpath(p, root)
            if stat.S_ISLNK(st.st_mode):
                out[rel] = ("sym", os.readlink(p))
            elif stat.S_ISDIR(st.st_mode):
                out[rel] = ("dir", stat.S_IMODE(st.st_mode))
            else:
                out[rel] = ("file", stat.S_IMODE(st.st_mode), open(p, "rb").read(), st.st_ino)
    return out


def strip_ino(s):
    return {k: (v[:3] if v[0] == "file" else v) for k, v in s.items()}


def with_parents(entries, have):
    """add the missing parent directories (mode 0755) of the given image-relative paths"""
    out = dict(entries)
    for rel in list(entries):
        d = os.path.dirname(rel)
        while d and d not in have and d not in out:
            out[d] = ("dir", 0o755)
            d = os.path.dirname(d)
    return out


def enum_helpers(seed):
    import shutil
    import tempfile
    from pkgcore.ebuild import ebd_ipc as I
    from pkgcore.ebuild.misc import get_relative_dosym_target
    from pkgcore.test.misc import FakePkg
    old_umask = os.umask(0o022)
    scratch = tempfile.mkdtemp(prefix="c33.", dir=os.environ.get("PYVC_SCRATCH", "/var/tmp"))
    fails, cases = [], 0

    def note(model, detail):
        if len(fails) < 6:
            fails.append({"model": model, "detail": detail})
    try:
        work = os.path.join(scratch, "work")
        os.makedirs(os.path.join(work, "tree/sub"))
        src = {"a.txt": "A", "b.conf": "B", "tool": "#!/bin/sh\n", "libx.so": "ELF", "liby.a": "AR", "page.1": "man1", "page.de.1": "mann de", "page.3": "lib", "nosection": "x", "de.mo": "MO",
               "tree/t1": "T1", "tree/sub/t2": "T2", "README": "R", "index.html": "<html>", "style.css": "css", "notes.txt": "N", "data.xml": "<x/>", "hdir/in.html": "<i>", "hdir/deep/pic.png": "PNG", "hdir/skip.txt": "S", "hdir/deep/code.c": "C"}
        os.makedirs(os.path.join(work, "hdir/deep"))
        for n, d in src.items():
            open(os.path.join(work, n), "w").write(d)
        os.chmod(os.path.join(work, "tool"), 0o700)
        os.symlink("a.txt", os.path.join(work, "alink"))
        HELPERS = {"doins": I.Doins, "doexe": I.Doexe, "dobin": I.Dobin, "dosbin": I.Dosbin, "dolib.so": I.Dolib_so, "dolib.a": I.Dolib_a, "dodoc": I.Dodoc, "doman": I.Doman, "domo": I.Domo,
                   "dodir": I.Dodir, "keepdir": I.Keepdir, "dosym": I.Dosym, "dohard": I.Dohard, "dohtml": I.Dohtml}
        # a top-level directory of the build host that no request puts into the image
        HOSTDIR = next("/" + n for n in sorted(os.listdir("/")) if n[0] != "." and os.path.isdir("/" + n) and not os.path.islink("/" + n) and n not in ("usr", "etc", "var", "opt"))
        for eapi in ("6", "8"):
            pkg = FakePkg("cat/pkg-1", eapi=eapi, slot="2")
            PF = "pkg-1"
            # (helper, options string, args, expected new entries relative to the image or None for "must be rejected")
            F = lambda name, mode: ("file", mode, src[name].encode())
            REQS = [
                ("doins", "--dest=/usr/share/x --insoptions=-m0644 --diroptions=-m0755", ["a.txt", "b.conf"], {"usr/share/x/a.txt": F("a.txt", 0o644), "usr/share/x/b.conf": F("b.conf", 0o644)}),
                ("doins", "--dest=/etc --insoptions='-m0600' --diroptions=-m0755", ["b.conf"], {"etc/b.conf": F("b.conf", 0o600)}),
                ("doins", "--dest=/usr/share/x --insoptions=-m0644 --diroptions=-m0755", ["tree"], None),
                ("doins", "--dest=/usr/share/y --insoptions=-m0644 --diroptions=-m0755", ["-r", "tree", "a.txt"], {"usr/share/y/tree": ("dir", 0o755), "usr/share/y/tree/t1": F("tree/t1", 0o644), "usr/share/y/tree/sub": ("dir", 0o755),
                                                                                                            "usr/share/y/tree/sub/t2": F("tree/sub/t2", 0o644), "usr/share/y/a.txt": F("a.txt", 0o644)}),
                ("doins", "--dest=/usr/share/x --insoptions=-m0644 --diroptions=-m0755", ["alink"], {"usr/share/x/alink": ("sym", "a.txt")}),
                ("doexe", "--dest=/usr/libexec --insoptions=-m0755", ["tool"], {"usr/libexec/tool": F("tool", 0o755)}),
                ("dobin", "--dest=/usr/bin", ["tool"], {"usr/bin/tool": F("tool", 0o755)}),
                ("dosbin", "--dest=/usr/sbin", ["tool"], {"usr/sbin/tool": F("tool", 0o755)}),
                ("dolib.so", "--dest=/usr/lib --insoptions=-m0755", ["libx.so"], {"usr/lib/libx.so": F("libx.so", 0o755)}),
                ("dolib.a", "--dest=/usr/lib --insoptions=-m0644", ["liby.a"], {"usr/lib/liby.a": F("liby.a", 0o644)}),
                ("dodoc", f"--dest=/usr/share/doc/{PF}/", ["README", "a.txt"], {f"usr/share/doc/{PF}/README": F("README", 0o644), f"usr/share/doc/{PF}/a.txt": F("a.txt", 0o644)}),
                ("dodoc", f"--dest=/usr/share/doc/{PF}/", ["tree"], None),
                ("dodoc", f"--dest=/usr/share/doc/{PF}/html", ["-r", "tree"], {f"usr/share/doc/{PF}/html/tree": ("dir", 0o755), f"usr/share/doc/{PF}/html/tree/t1": F("tree/t1", 0o644),
                                                                                 f"usr/share/doc/{PF}/html/tree/sub": ("dir", 0o755), f"usr/share/doc/{PF}/html/tree/sub/t2": F("tree/sub/t2", 0o644)}),
                ("doman", "--dest=/usr/share/man", ["page.1", "page.3"], {"usr/share/man/man1/page.1": F("page.1", 0o644), "usr/share/man/man3/page.3": F("page.3", 0o644)}),
                ("doman", "--dest=/usr/share/man", ["page.de.1"], {"usr/share/man/de/man1/page.1": F("page.de.1", 0o644)}),
                ("doman", "--dest=/usr/share/man", ["-i18n=fr", "page.1"], {"usr/share/man/fr/man1/page.1": F("page.1", 0o644)}),
                # PMS: from EAPI 4 the -i18n option takes precedence over a language code in the file name (which is then kept in the name)
                ("doman", "--dest=/usr/share/man", ["-i18n=fr", "page.de.1", "page.3"], {"usr/share/man/fr/man1/page.de.1": F("page.de.1", 0o644), "usr/share/man/fr/man3/page.3": F("page.3", 0o644)}),
                ("doman", "--dest=/usr/share/man", ["page.de.1", "page.1"], {"usr/share/man/de/man1/page.1": F("page.de.1", 0o644), "usr/share/man/man1/page.1": F("page.1", 0o644)}),
                ("doman", "--dest=/usr/share/man", ["nosection"], None),
                ("domo", "--dest=/usr/share/locale", ["de.mo"], {"usr/share/locale/de/LC_MESSAGES/pkg.mo": F("de.mo", 0o644)}),
                ("dodir", "--diroptions=-m0755", ["/var/lib/pkg", "/opt/p/q"], {"var/lib/pkg": ("dir", 0o755), "opt/p/q": ("dir", 0o755)}),
                ("dodir", "--diroptions=-m0700", ["/var/private"], {"var/private": ("dir", 0o700)}),
                ("keepdir", "--diroptions=-m0755", ["/var/empty"], {"var/empty": ("dir", 0o755), "var/empty/.keep_cat_pkg-2": ("file", 0o644, b"")}),
                # dohtml: only files with an allowed extension (default list, -a replaces it, -A adds to it) or named by -f; what is not allowed is passed over
                ("dohtml", f"--dest=/usr/share/doc/{PF}/html", ["index.html", "notes.txt", "style.css"], {f"usr/share/doc/{PF}/html/index.html": F("index.html", 0o644), f"usr/share/doc/{PF}/html/style.css": F("style.css", 0o644)}),
                ("dohtml", f"--dest=/usr/share/doc/{PF}/h2", ["-a", "txt", "index.html", "notes.txt"], {f"usr/share/doc/{PF}/h2/notes.txt": F("notes.txt", 0o644)}),
                ("dohtml", f"--dest=/usr/share/doc/{PF}/h3", ["-A", "txt", "index.html", "notes.txt", "data.xml"], {f"usr/share/doc/{PF}/h3/index.html": F("index.html", 0o644), f"usr/share/doc/{PF}/h3/notes.txt": F("notes.txt", 0o644)}),
                ("dohtml", f"--dest=/usr/share/doc/{PF}/h4", ["index.html", "data.xml", "notes.txt"], {f"usr/share/doc/{PF}/h4/index.html": F("index.html", 0o644)}),
                ("dohtml", f"--dest=/usr/share/doc/{PF}/h5", ["-f", "README", "style.css", "README", "a.txt"], {f"usr/share/doc/{PF}/h5/style.css": F("style.css", 0o644), f"usr/share/doc/{PF}/h5/README": F("README", 0o644)}),
                ("dohtml", f"--dest=/usr/share/doc/{PF}/h6", ["-p", "sub", "index.html"], {f"usr/share/doc/{PF}/h6/sub/index.html": F("index.html", 0o644)}),
                ("dohtml", f"--dest=/usr/share/doc/{PF}/h7", ["-r", "hdir"], {f"usr/share/doc/{PF}/h7/hdir": ("dir", 0o755), f"usr/share/doc/{PF}/h7/hdir/in.html": F("hdir/in.html", 0o644),
                                                                        f"usr/share/doc/{PF}/h7/hdir/deep": ("dir", 0o755), f"usr/share/doc/{PF}/h7/hdir/deep/pic.png": F("hdir/deep/pic.png", 0o644)}),
                ("dosym", "", ["../share/x/a.txt", "/usr/bin/a-link"], {"usr/bin/a-link": ("sym", "../share/x/a.txt")}),
                ("dosym", "", ["/usr/share/x/a.txt", "/usr/bin/abs-link"], {"usr/bin/abs-link": ("sym", "/usr/share/x/a.txt")}),
                ("dosym", "", ["target", "/usr/share/dir-missing-name/"], None),
                ("dosym", "", ["-r", "/usr/share/x/a.txt", "/usr/lib/deep/rel-link"], {"usr/lib/deep/rel-link": ("sym", "../../share/x/a.txt")} if eapi == "8" else None),
                ("dosym", "", ["-r", "share/x/a.txt", "/usr/lib/rel2"], None),
                # directories that (in the rounds that run every request in order) exist already, asked for again with other modes: like `install -d -m...`,
                # the requested mode is what the directory has afterwards
                ("dodir", "--diroptions=-m0750", ["/var/lib/pkg"], {"var/lib/pkg": ("dir", 0o750)}),
                ("keepdir", "--diroptions=-m0700", ["/var/empty"], {"var/empty": ("dir", 0o700), "var/empty/.keep_cat_pkg-2": ("file", 0o644, b"")}),
                ("doins", "--dest=/usr/share/y --insoptions=-m0644 --diroptions=-m0711", ["-r", "tree"], {"usr/share/y/tree": ("dir", 0o711), "usr/share/y/tree/t1": F("tree/t1", 0o644), "usr/share/y/tree/sub": ("dir", 0o711),
                                                                                                       "usr/share/y/tree/sub/t2": F("tree/sub/t2", 0o644)}),
                # a directory operand ending in a '.' component (like cp -r tree/. dest): the directory's contents go straight into the destination
                ("doins", "--dest=/usr/share/z --insoptions=-m0644 --diroptions=-m0755", ["-r", "tree/."], {"usr/share/z/t1": F("tree/t1", 0o644), "usr/share/z/sub": ("dir", 0o755), "usr/share/z/sub/t2": F("tree/sub/t2", 0o644)}),
                ("dodoc", f"--dest=/usr/share/doc/{PF}/dot", ["-r", "./tree/./"], {f"usr/share/doc/{PF}/dot/t1": F("tree/t1", 0o644), f"usr/share/doc/{PF}/dot/sub": ("dir", 0o755), f"usr/share/doc/{PF}/dot/sub/t2": F("tree/sub/t2", 0o644)}),
                # a link name that is a directory on the build host but not in the image: what counts is the image (the link is created there)
                ("dosym", "", ["a.txt", HOSTDIR], {HOSTDIR.lstrip("/"): ("sym", "a.txt")}),
            ]
            for round_ in range(14):
                rnd = random.Random(seed * 100 + round_ + (7 if eapi == "8" else 0))
                ED = os.path.join(scratch, f"img-{eapi}-{round_}")
                os.makedirs(ED)
                op = types.SimpleNamespace(pkg=pkg, ED=ED + "/", observer=_Obs(), env={}, userpriv=False, domain=None)
                helpers = {n: c(op) for n, c in HELPERS.items()}
                # entries already in the image at some destinations
                DESTS = ["usr/share/x/a.txt", "usr/bin/tool", "etc/b.conf", "usr/lib/libx.so", "usr/bin/a-link", "usr/bin/abs-link"]
                # rounds 1..3: every destination is already taken, by a dangling symlink / a file / a live symlink, and every request runs once
                fixed_how = {1: "dangling", 2: "file", 3: "symlink"}.get(round_)
                pre = list(DESTS) if fixed_how else rnd.sample(DESTS[:5], 2)
                for rel in pre:
                    p = os.path.join(ED, rel)
                    os.makedirs(os.path.dirname(p), exist_ok=True)
                    how = fixed_how or rnd.choice(("file", "dangling", "symlink"))
                    if how == "file":
                        open(p, "w").write("previous")
                    elif how == "dangling":
                        os.symlink("../nowhere/at-all", p)
                    else:
                        open(p + ".real", "w").write("link target data")
                        os.symlink(os.path.basename(p) + ".real", p)
                seq = list(REQS) if round_ <= 3 else rnd.sample(REQS, 8)  # rounds 0..3: every request once, whatever the seed
                for hname, opts, args, expect in seq:
                    cases += 1
                    before = snapshot(ED)
                    ch = _Chan(["true", work, "install", opts, "".join(a + "\0" for a in args)])
                    model = {"eapi": eapi, "helper": hname, "options": opts, "args": args, "already_in_image": {k: before[k][:2] if before[k][0] != "file" else ("file", oct(before[k][1])) for k in sorted(before) if k in (pre + [q + ".real" for q in pre])}}
                    try:
                        helpers[hname](ch)
                    except Exception as e:
                        note(model, f"EAPI {eapi} {hname} {opts} {args}: raised {type(e).__name__}: {e}")
                        continue
                    after = snapshot(ED)
                    ok = len(ch.replies) == 1 and ch.replies[0].split("\x07")[0] == "0"
                    if expect is None:
                        changed = sorted(k for k in set(before) | set(after) if strip_ino(before).get(k) != strip_ino(after).get(k))
                        # a rejected request may have created (empty) destination directories, nothing else
                        harmful = [k for k in changed if not (k not in before and after[k][0] == "dir")]
                        if ok or harmful:
                            note(model, f"EAPI {eapi} {hname} {args} must be rejected without installing anything; reply {ch.replies}, changed entries {changed}")
                        continue
                    if not ok:
                        note(model, f"EAPI {eapi} {hname} {opts} {args} was answered {ch.replies}, expected success")
                        continue
                    want = dict(strip_ino(before))
                    want.update(with_parents(expect, want))
                    got = strip_ino(after)
                    if got != want:
                        diff = {k: (got.get(k), want.get(k)) for k in sorted(set(got) | set(want)) if got.get(k) != want.get(k)}
                        note(model, f"EAPI {eapi} {hname} {opts} {args} over {model['already_in_image']}: image differs from the prescribed one at (found, prescribed): " + str({k: v for k, v in list(diff.items())[:4]}))
                # dohard: same inode
                open(os.path.join(ED, "hard-src"), "w").write("H")
                ch = _Chan(["true", work, "install", "", "/hard-src\0/usr/hard-dst\0"])
                cases += 1
                try:
                    helpers["dohard"](ch)
                    s = snapshot(ED)
                    if s.get("usr/hard-dst", (None,))[0] != "file" or s["usr/hard-dst"][3] != s["hard-src"][3]:
                        note({"helper": "dohard"}, f"dohard /hard-src /usr/hard-dst: destination {s.get('usr/hard-dst')} does not share the source's inode")
                except Exception as e:
                    note({"helper": "dohard"}, f"dohard raised {type(e).__name__}: {e}")
                shutil.rmtree(ED, ignore_errors=True)
        # the helpers whose bash wrappers pass no --insoptions (dodoc, doman, domo, doinfo install with -m0644 by themselves), with every helper
        # of the build constructed as the daemon does, under a build umask other than 022: the prescribed mode does not come from the umask
        for um in (0o077, 0o027, 0o002):
            ED = os.path.join(scratch, f"img-umask-{um:o}")
            os.makedirs(ED)
            os.umask(um)
            try:
                op = types.SimpleNamespace(pkg=pkg, ED=ED + "/", observer=_Obs(), env={}, userpriv=False, domain=None)
                # constructed in the order pkgcore.ebuild.ebd builds its helper table (keepdir last)
                daemon_order = ("doins", "dodoc", "dohtml", "dodir", "doexe", "dobin", "dosbin", "dolib.so", "dolib.a", "doman", "domo", "dosym", "dohard", "keepdir")
                helpers = {n: HELPERS[n](op) for n in daemon_order}
                for hname, opts, args, rel in (("dodoc", f"--dest=/usr/share/doc/{PF}/", ["README"], f"usr/share/doc/{PF}/README"), ("doman", "--dest=/usr/share/man", ["page.1"], "usr/share/man/man1/page.1"),
                                               ("domo", "--dest=/usr/share/locale", ["de.mo"], "usr/share/locale/de/LC_MESSAGES/pkg.mo")):
                    cases += 1
                    ch = _Chan(["true", work, "install", opts, "".join(a + "\0" for a in args)])
                    try:
                        helpers[hname](ch)
                        mode = os.stat(os.path.join(ED, rel)).st_mode & 0o7777
                        if mode != 0o644:
                            note({"helper": hname, "umask": oct(um), "args": args}, f"{hname} {args} under umask {um:03o} (all helpers constructed, as the daemon does): {rel} has mode {mode:04o}, the helper installs with -m0644")
                    except Exception as e:
                        note({"helper": hname, "umask": oct(um)}, f"{hname} {args} under umask {um:03o} raised {type(e).__name__}: {e}")
            finally:
                os.umask(0o022)
            shutil.rmtree(ED, ignore_errors=True)
        # dosym -r: the relative link resolves to the requested absolute target
        rnd = random.Random(seed)
        comps = ["usr", "lib", "share", "x", "y.d", "a-b", "bin", "deep", "z"]
        for _ in range(400):
            cases += 1
            source = "/" + "/".join(rnd.choice(comps) for _ in range(rnd.choice((1, 2, 3, 4))))
            link = "/" + "/".join(rnd.choice(comps) for _ in range(rnd.choice((1, 2, 3, 4))))
            if rnd.random() < .2:
                source += "/"
            rel = get_relative_dosym_target(source, link)
            resolved = os.path.normpath(os.path.join(os.path.dirname(link), rel))
            if os.path.isabs(rel) or resolved != os.path.normpath(source):
                note({"source": source, "link": link, "relative": rel}, f"dosym -r {source} {link}: the link would hold {rel!r}, which resolves to {resolved}, not to {os.path.normpath(source)}")
    finally:
        os.umask(old_umask)
        shutil.rmtree(scratch, ignore_errors=True)
    return {"name": "C33.install_helpers.bounded_enumeration", "bound": "EAPI 6 and 8 x 14 seeded images (2 of 5 destinations pre-populated with a file, a dangling symlink or a symlink) x 8 of 26 helper requests each, "
            "image snapshot after every request against the reference placement model; dohard inode sharing; 400 random dosym -r path pairs", "cases": cases, "failures": fails}


def t_dosym_run(ex):
    """Dosym.run(args): what dosym rejects and what it hands on.  A link name ending in '/' is rejected; a link name that is a directory (and no
    symbolic link) IN THE IMAGE is rejected -- the only paths whose kind is asked lie under ED; -r is rejected before EAPI 8 and with a source
    that is not absolute; otherwise the request goes on to _Symlink.run exactly once, with the link name unchanged and the source unchanged
    (without -r) or made relative by get_relative_dosym_target(source, link name) (with -r).  For every source and link-name string."""
    import types
    import z3
    from pyvc.api import call, Interp
    from pyvc.models import Model
    from pyvc.sym import KStr, KBool, SBool, SStr, SObj, And, Or, Not
    from pyvc import theory
    import pkgcore.ebuild.ebd_ipc as I
    P = "C33.Dosym.run"
    source, target = KStr.fresh("source"), KStr.fresh("link_name")
    relative, allowed = bool(ex.choose(2)), bool(ex.choose(2))
    ex.inputs.update({"source": source, "link_name": target, "-r": relative, "EAPI allows -r": allowed})
    ED = "/var/tmp/portage/image/"
    ISDIR, ISLINK = theory.ufun("is_dir", z3.StringSort(), z3.BoolSort()), theory.ufun("is_link", z3.StringSort(), z3.BoolSort())
    REL = theory.ufun("relative_dosym_target", z3.StringSort(), z3.StringSort(), z3.StringSort())
    S_ = lambda v: v.t if isinstance(v, SStr) else z3.StringVal(v)
    asked, handed = [], []

    def m_kind(fn):
        def f(it_, p_):
            asked.append(p_)
            return SBool(fn(S_(p_)))
        return f
    args = SObj(types.SimpleNamespace, {"source": source, "target": target})
    me = SObj(I.Dosym, {"op": types.SimpleNamespace(ED=ED), "opts": types.SimpleNamespace(relative=relative), "dosym_relative": allowed, "eapi": "the-eapi"})

    def m_super_run(it_, self_, a):
        handed.append((a.fields["source"], a.fields["target"]))
        return None
    it = Interp(ex, label=P, models={
        I.os.path.isdir: Model(m_kind(ISDIR), "os.path.isdir"), I.os.path.islink: Model(m_kind(ISLINK), "os.path.islink"),
        I.os.path.isabs: Model(lambda it_, p_: SBool(z3.PrefixOf(z3.StringVal("/"), S_(p_))), "os.path.isabs", pure=True),
        I.pjoin: Model(lambda it_, a, b: SStr(z3.Concat(S_(a), S_(b))) if isinstance(a, str) and a.endswith("/") else (_ for _ in ()).throw(AssertionError("pjoin model: first part must end in /")), "pjoin", pure=True),
        I.get_relative_dosym_target: Model(lambda it_, s_, t_: SStr(REL(S_(s_), S_(t_))), "get_relative_dosym_target", pure=True),
        I._Symlink.run: Model(m_super_run, "_Symlink.run"),
    })
    out = call(it, it.target(IPC, "Dosym.run"), me, args)
    under_ed = all(ex.must(SBool(z3.PrefixOf(z3.StringVal(ED), S_(p_)))) for p_ in asked)
    ex.oblige(f"{P}.ensures.only_paths_under_the_image_are_asked_for_their_kind", under_ed, kind="frame")
    trailing = z3.SuffixOf(z3.StringVal("/"), target.t)
    if out.raised:
        ex.cover("rejects")
        ex.oblige(f"{P}.raises.the_command_error_only", out.exc.cls is I.IpcCommandError, kind="exceptional-postcondition")
        ex.oblige(f"{P}.raises.nothing_was_handed_on", handed == [], kind="exceptional-postcondition")
        reasons = [SBool(trailing)]
        if asked:
            reasons.append(And(SBool(ISDIR(S_(asked[0]))), Not(SBool(ISLINK(S_(asked[0]))))))
        if relative:
            reasons.append(not allowed)
            reasons.append(Not(SBool(z3.PrefixOf(z3.StringVal("/"), source.t))))
        ex.oblige(f"{P}.raises.only_for_a_trailing_slash_an_image_directory_or_a_forbidden_-r", Or(*reasons), kind="exceptional-postcondition")
        return
    ex.cover("hands on")
    ex.oblige(f"{P}.ensures.handed_on_exactly_once", len(handed) == 1)
    ex.oblige(f"{P}.ensures.no_trailing_slash", Not(SBool(trailing)))
    ex.oblige(f"{P}.ensures.the_image_was_asked_and_holds_no_directory_there", len(asked) >= 1 and Or(Not(SBool(ISDIR(S_(asked[0])))), SBool(ISLINK(S_(asked[0])))))
    if relative:
        ex.oblige(f"{P}.ensures.-r_only_where_the_EAPI_allows_it_and_the_source_is_absolute", And(allowed, SBool(z3.PrefixOf(z3.StringVal("/"), source.t))))
    if len(handed) == 1:
        src_, tgt_ = handed[0]
        ex.oblige(f"{P}.ensures.the_link_name_goes_on_unchanged", SBool(S_(tgt_) == target.t))
        ex.oblige(f"{P}.ensures.the_source_goes_on_unchanged_or_made_relative_to_the_link_name", SBool(S_(src_) == (REL(source.t, target.t) if relative else source.t)))


def tasks():
    return [Task("C33.install_helpers", None, [(IPC, "_InstallWrapper._install"), (IPC, "Doins._install_targets"), (IPC, "Doman._install_targets"), (IPC, "Dosym.run"), (IPC, "_Symlink.run"), (MISC, "get_relative_dosym_target")], enumerate=enum_helpers),
            Task("C33.Dosym.run", t_dosym_run, [(IPC, "Dosym.run")])]


REPLAY = {}
