"""C38 -- package-list rewriting touches only the lines it must (DESIGN.md section 4, C38)."""
import itertools
import random
import re
import z3
from pyvc.api import Task, call, Interp
from pyvc.models import Model, ModelHost
from pyvc.sym import KStr, KInt, SBool, SInt, SStr, SObj, And, Or, Not, Implies, OutOfSubset

PROPERTY = "C38"
PL = "src/pkgcore/bugzilla/pkglist.py"

MANIFEST = {
    "text": "Proof, for a line of arbitrary content, that PackageList._parse records raw and eol with raw + eol == line, whatever the comment search and tokenisation find (so rendering the parsed entries reproduces "
            "the text, given str.splitlines(keepends=True) is a partition of the text).  expand, on lists of up to two package lines "
            "plus blank / comment lines with up to two arbitrary keywords each: a line whose keywords do not change is kept as the "
            "very same entry object, nothing changing returns the very same list, '*' is replaced by the suggestion (or '-' for none), "
            "'^' by the previous line's final keywords, and the two documented errors are raised exactly in their situations (bounded "
            "in the number of lines and keywords).  with_keywords (regular-expression tokenising) and whole-text round trips are a "
            "bounded stand-in: exhaustive lines over a small alphabet plus random lists with comments, blank lines, CRLF endings, "
            "irregular spacing and sentinels under random suggestion functions.",
    "note": "Trusted: str.splitlines(keepends=True) partitions the text; re (comment and token patterns) as Python implements it; "
            "parse_atom / atom (C03); pyvc encoder.",
}
ASSUMPTIONS = ["''.join(text.splitlines(keepends=True)) == text", "tokens of a package list hold no whitespace and no '#' preceded by whitespace"]


def t_parse_line(ex):
    import pkgcore.bugzilla.pkglist as P_
    P = "C38.PackageList._parse"
    it = Interp(ex, label=P)
    line = KStr.fresh("line")
    has_comment = bool(ex.choose(2))
    blank = bool(ex.choose(2))

    class Text(ModelHost):
        def getattr(self, it_, name):
            if name == "splitlines":
                return Model(lambda it__, keepends=False: [line], "str.splitlines")
            raise OutOfSubset(name)
    ms, me_ = KInt.fresh("comment_match_start"), KInt.fresh("comment_match_end")

    class Match(ModelHost):
        def getattr(self, it_, name):
            if name == "start":
                return Model(lambda it__: ms, "match.start")
            if name == "end":
                return Model(lambda it__: me_, "match.end")
            raise OutOfSubset(name)

        def truth_term(self, it_):
            return True

    class CommentRe(ModelHost):
        def getattr(self, it_, name):
            if name == "search":
                def search(it__, body):
                    if not has_comment:
                        return None
                    ex.assume(And(ms >= 0, ms < me_, me_ <= body.length()))
                    return Match()
                return Model(search, "re.search")
            raise OutOfSubset(name)
    glob = it.target(PL, "PackageList._parse")
    # the module-level pattern's search is replaced by an abstract one: any match position inside the line
    cre = CommentRe()
    it.models[P_._COMMENT_RE.search] = lambda it_, body: cre.getattr(it_, "search").fn(it_, body)
    it.split_hook = lambda it_, s, sep, maxsplit: ([] if blank else ["cat/pkg", KStr.fresh("kw")]) if sep is None else None
    it.models[P_.parse_atom] = lambda it_, tok: "THE-ATOM"
    me = SObj(P_.PackageList, {"text": Text(), "bug_id": None})
    out = call(it, glob, me)
    ex.oblige(f"{P}.raises.nothing", not out.raised, kind="exceptional-postcondition")
    if out.raised:
        return
    from pyvc import models
    ents = models.iter_concrete(it, out.value)
    ex.oblige(f"{P}.ensures.one_entry_per_line", len(ents) == 1)
    if len(ents) != 1:
        return
    e = ents[0]
    f = e.fields if isinstance(e, SObj) else {k: getattr(e, k) for k in ("raw", "eol", "lineno", "pkg", "comment")}
    raw, eol = f["raw"], f["eol"]
    rt = raw.t if isinstance(raw, SStr) else z3.StringVal(raw)
    et = eol.t if isinstance(eol, SStr) else z3.StringVal(eol)
    tag = f"{'comment' if has_comment else 'no comment'}, {'blank' if blank else 'package line'}"
    ex.oblige(f"{P}.ensures.raw_plus_eol_is_the_line[{tag}]", SBool(z3.Concat(rt, et) == line.t))
    if has_comment:
        c = f["comment"]
        ct = c.t if isinstance(c, SStr) else z3.StringVal(c)
        ex.oblige(f"{P}.ensures.comment_is_the_tail_of_the_line_from_the_hash_on[{tag}]", SBool(z3.And(z3.SuffixOf(ct, rt), z3.Length(ct) == z3.Length(rt) - (me_.t - 1))))
    ex.oblige(f"{P}.ensures.blank_lines_have_no_package[{tag}]", (f["pkg"] is None) == blank)


def t_expand(ex):
    import pkgcore.bugzilla.pkglist as P_
    from pkgcore.bugzilla.errors import PackageListError
    P = "C38.PackageList.expand"
    it = Interp(ex, label=P)
    shape = ((1,), (2,), (1, 1), (0, 1), (1, 0), (2, 1), ("blank", 1), (1, "blank", 1))[ex.choose(8)]
    sugg = (("amd64", "x86"), ())[ex.choose(2)]
    KIND = ("*", "^", "plain")
    entries, kinds = [], []
    for li, n in enumerate(shape):
        if n == "blank":
            entries.append(SObj(P_.PackageListEntry, dict(lineno=li + 1, raw="# note", pkg=None, keywords=(), comment="# note", eol="\n")))
            kinds.append(None)
            continue
        ks, kk = [], []
        for j in range(n):
            k = KIND[ex.choose(3)]
            kk.append(k)
            ks.append("*" if k == "*" else "^" if k == "^" else f"arch{li}{j}")
        entries.append(SObj(P_.PackageListEntry, dict(lineno=li + 1, raw=f"cat/pkg{li} " + " ".join(ks), pkg=f"ATOM{li}", keywords=tuple(ks), comment="", eol="\n")))
        kinds.append(kk)
    rewritten = []

    def m_with(it_, self_, kws):
        f_ = self_.fields
        new = SObj(P_.PackageListEntry, dict(lineno=f_["lineno"], raw="REWRITTEN " + " ".join(kws), pkg=f_["pkg"], keywords=tuple(kws), comment=f_["comment"], eol=f_["eol"]))
        rewritten.append((self_, tuple(kws), new))
        return new
    it.models[P_.PackageListEntry.with_keywords] = m_with
    made = []
    it.models[P_.PackageList] = lambda it_, text, **k: (made.append(text), ("NEW-LIST", text))[1]
    me = SObj(P_.PackageList, {"entries": tuple(entries), "bug_id": None, "text": "ORIGINAL"})
    asked = []
    suggest = Model(lambda it_, pkg: (asked.append(pkg), sugg)[1], "suggest")
    out = call(it, it.target(PL, "PackageList.expand"), me, suggest)
    # reference
    want, prev, err = [], None, None
    for e, kk in zip(entries, kinds):
        if kk is None:
            want.append(None)
            continue
        kws = []
        for k, name in zip(kk, e.fields["keywords"]):
            if k == "*":
                kws += list(sugg) or ["-"]
            elif k == "^":
                if prev is None:
                    err = "no line above"
                    break
                if not prev and len(e.fields["keywords"]) > 1:
                    err = "copies an empty line"
                    break
                kws += list(prev)
            else:
                kws.append(name)
        if err:
            break
        prev = tuple(kws)
        want.append(prev)
    tag = f"{shape}, {[k for k in kinds]}, suggest={list(sugg)}"
    if err:
        ex.oblige(f"{P}.raises.PackageListError_exactly_for_a_caret_with_nothing_to_copy[{tag}]", out.raised_cls(PackageListError), kind="exceptional-postcondition")
        return
    ex.oblige(f"{P}.raises.nothing[{tag}]", not out.raised, kind="exceptional-postcondition")
    if out.raised:
        return
    changed = [(e, w) for e, w in zip(entries, want) if w is not None and w != e.fields["keywords"]]
    ex.oblige(f"{P}.ensures.exactly_the_lines_whose_keywords_change_are_rewritten_with_the_expanded_keywords[{tag}]", [(r[0], r[1]) for r in rewritten] == changed)
    if not changed:
        ex.oblige(f"{P}.ensures.nothing_to_rewrite_returns_the_very_same_list[{tag}]", out.value is me)
    elif len(rewritten) == len(changed):
        parts = []
        ri = 0
        for e, w in zip(entries, want):
            if w is not None and w != e.fields["keywords"]:
                parts.append(rewritten[ri][2].fields["raw"] + e.fields["eol"])
                ri += 1
            else:
                parts.append(e.fields["raw"] + e.fields["eol"])
        from pyvc.sym import concrete_of
        got_text = [concrete_of(m) if not isinstance(m, str) else m for m in made]
        ex.oblige(f"{P}.ensures.untouched_lines_are_rendered_byte_identical_in_place[{tag}]", got_text == ["".join(parts)] and isinstance(out.value, tuple) and out.value[0] == "NEW-LIST")


# ------------------------------------------------------------------ bounded stand-in ----
def ref_rewrite(raw, keywords):
    """spec of with_keywords on one line: keep spec spelling, the spacing around the keyword text, comment; replace the keyword text"""
    m = re.search(r"(?:^|\s)#", raw)
    cut = len(raw) if not m else m.end() - 1
    body, comment = raw[:cut], raw[cut:]
    toks = list(re.finditer(r"\S+", body))
    if not toks:
        return raw
    if len(toks) > 1:
        head, tail = body[:toks[1].start()], body[toks[-1].end():]
    else:
        head, tail = body[:toks[0].end()] + (" " if keywords else ""), body[toks[0].end():]
    return head + " ".join(keywords) + tail + comment


def enum_lists(seed):
    from pkgcore.bugzilla.pkglist import PackageList, PackageListEntry
    from pkgcore.ebuild.atom import atom
    fails, cases = [], 0
    rnd = random.Random(seed)
    # (names in which a hyphen is followed by a digit without that being a version: valid unversioned specs)
    specs = ["cat/pkg", "cat/pkg-1.2", "=dev-lang/foo-2-r1", "x/y:3", "media-fonts/font-adobe-100dpi", "cat/foo-2bar", "media-fonts/font-adobe-100dpi-1.0"]

    def note(model, detail):
        if len(fails) < 5:
            fails.append({"model": model, "detail": detail})
    # exhaustive single lines: spacing / comment / sentinel shapes
    pieces = ["", " ", "  ", "\t"]
    # a '#' glued to a token is part of the keyword; comment texts that also occur inside such a keyword
    kwsets = [[], ["*"], ["amd64", "*"], ["^"], ["~x86"], ["-"], ["amd64#x86", "*"], ["a#", "#b#"], ["x#note"]]
    comments = ["", "# note", "#", " # two  spaces ", "\t#tab", "# trailing  ", "#x86", "#note"]
    eols = ["", "\n", "\r\n"]
    for lead, spec, g1, kws, g2, com, eol in itertools.product(["", " "], specs[:2], pieces[1:], kwsets, pieces, comments, eols[:2]):
        if com.startswith("#") and not g2:
            continue   # a '#' glued to a token is part of the token, not a comment
        raw = lead + spec + (g1 + (" ".join(kws)) if kws else "") + g2 + com
        text = raw + eol
        cases += 1
        pl = PackageList(text)
        try:
            ents = pl.entries
        except Exception as e:
            note({"text": text}, f"parsing {text!r} raised {type(e).__name__}: {e}")
            continue
        if "".join(e.raw + e.eol for e in ents) != text:
            note({"text": text}, f"rendering the parsed entries of {text!r} gives {''.join(e.raw + e.eol for e in ents)!r}")
        for new in ([], ["alpha", "hppa"], ["-"]):
            for e in ents:
                if e.pkg is None:
                    continue
                got = e.with_keywords(new)
                want = ref_rewrite(e.raw, new)
                if got.raw != want or got.eol != e.eol or got.pkg != e.pkg or tuple(got.keywords) != tuple(new):
                    note({"line": e.raw, "keywords": new}, f"with_keywords({new}) on {e.raw!r} gives {got.raw!r}; only the keyword text may change: {want!r}")
                else:
                    # the rewritten line parses back to the same spec, the new keywords and the same comment
                    back = PackageList(got.raw + got.eol).entries[0]
                    if back.pkg != e.pkg or list(back.keywords) != list(new) or back.comment != e.comment:
                        note({"line": e.raw, "keywords": new}, f"{e.raw!r} rewritten to {got.raw!r} parses back as keywords {list(back.keywords)} comment {back.comment!r} (wanted {new}, {e.comment!r})")
    # random whole lists with expand
    for _ in range(1500):
        n = rnd.choice((1, 2, 3, 5))
        lines, has_pkg_above = [], False
        for i in range(n):
            r = rnd.random()
            eol = rnd.choice(["\n", "\n", "\r\n"]) if i < n - 1 or rnd.random() < .7 else ""
            if r < .15:
                lines.append(rnd.choice(["", "   ", "# just a comment", "\t# c"]) + eol)
                continue
            kws = rnd.choice([[], ["*"], ["amd64"], ["~x86", "*"], ["^"], ["arm", "^"], ["-"], ["arm#x", "*"], ["why#why", "^"]])
            if "^" in kws and not has_pkg_above:
                kws = ["*"]
            has_pkg_above = True
            gap = rnd.choice([" ", "  ", "\t"])
            lines.append(rnd.choice(["", " "]) + rnd.choice(specs) + (gap + gap.join(kws) if kws else "") + rnd.choice(["", " ", "  # why", "\t#x ", " # a # b"]) + eol)
        text = "".join(lines)
        sug = {s: tuple(rnd.sample(["alpha", "hppa", "ia64"], rnd.choice((0, 1, 2)))) for s in specs}
        cases += 1
        pl = PackageList(text)
        try:
            if str(pl) != text or "".join(e.raw + e.eol for e in pl.entries) != text:
                note({"text": text}, f"parse/render of {text!r} does not reproduce the text")
                continue
            new = pl.expand(lambda a: sug.get(str(a), sug.get(str(a).lstrip("="), ())))
        except Exception as e:
            if "copies an empty line" in str(e) or "no line above" in str(e):
                continue
            note({"text": text}, f"{type(e).__name__}: {e} on {text!r}")
            continue
        old_lines, new_lines = text.splitlines(keepends=True), str(new).splitlines(keepends=True)
        if len(old_lines) != len(new_lines):
            note({"text": text, "expanded": str(new)}, f"expand changed the number of lines of {text!r}: {str(new)!r}")
            continue
        prev = None
        for e, ol, nl in zip(pl.entries, old_lines, new_lines):
            if e.pkg is None:
                if ol != nl:
                    note({"text": text, "line": ol}, f"expand changed a line without a package: {ol!r} -> {nl!r}")
                continue
            kws = []
            for k in e.keywords:
                if k == "*":
                    kws += list(sug.get(str(e.pkg), sug.get(str(e.pkg).lstrip("="), ()))) or ["-"]
                elif k == "^":
                    kws += list(prev)
                else:
                    kws.append(k)
            prev = tuple(kws)
            want = ol if tuple(kws) == tuple(e.keywords) else ref_rewrite(e.raw, kws) + e.eol
            if nl != want:
                note({"text": text, "line": ol, "suggestions": {k: list(v) for k, v in sug.items()}}, f"expand of line {ol!r} gives {nl!r}; expected {want!r} (spec, spacing, comment and line ending kept, keywords {kws})")
    # build -> parse
    for _ in range(300):
        ents = [(atom(rnd.choice(["cat/pkg", "=cat/pkg-1", "x/y:3", "media-fonts/font-adobe-100dpi", "cat/foo-2bar"])), rnd.sample(["amd64", "~x86", "*", "^"], rnd.choice((0, 1, 2)))) for _ in range(rnd.choice((1, 2, 4)))]
        cases += 1
        try:
            pl = PackageList.build(ents)
            got = [(e.pkg, list(e.keywords)) for e in pl.entries if e.pkg is not None]
        except Exception as e:
            note({"entries": [(str(a), k) for a, k in ents]}, f"build({[(str(a), k) for a, k in ents]}) and parsing its text back raised {type(e).__name__}: {e}")
            continue
        if got != [(a, list(k)) for a, k in ents]:
            note({"entries": [(str(a), k) for a, k in ents]}, f"build({[(str(a), k) for a, k in ents]}) parses back to {[(str(a), k) for a, k in got]}")
    return {"name": "C38.package_lists.bounded_enumeration", "bound": "every single line from 2 leads x 2 specs x 3 gaps x 6 keyword sets x 4 trailing gaps x 6 comments x 2 line endings (parse/render, with_keywords "
            "for 3 keyword lists, re-parse); 1500 seeded random lists of 1..5 lines (comments, blank lines, CRLF, tabs, sentinels) expanded under random suggestion functions; 300 build/parse round trips", "cases": cases, "failures": fails}


def tasks():
    return [
        Task("C38._parse", t_parse_line, [(PL, "PackageList._parse")]),
        Task("C38.expand", t_expand, [(PL, "PackageList.expand")], bounded={"package lines": 2, "keywords per line": 2, "note": "every sentinel / plain combination, suggestion given or empty"}, enumerate=enum_lists),
    ]


REPLAY = {}
