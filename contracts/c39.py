"""C39 -- bug update list changes compose like sequential application; wire payloads
carry exactly the fields that were set.  (DESIGN.md section 4, C39)"""
import z3
from pyvc.api import Task, call, Interp
from pyvc.sym import KRef, KSeq, KSet, KStr, SSet, SBool, And, Or, Not, MutSet, SObj, Implies
from pyvc import models

PROPERTY = "C39"
FILE = "src/pkgcore/bugzilla/changes.py"
E = KRef("Elem")  # values of a list field: only equality is used by the code

MANIFEST = {
    "text": "Unbounded proof, for all list changes and all lists (element sort uninterpreted, lengths unbounded), that "
            "ListChange.__or__ either raises BugzillaUsageError or yields a change whose application equals applying the two in "
            "sequence; and that ListChange.to_wire / BugUpdate.to_wire put a key in the payload iff the field is set, with the "
            "field's value.  37+12 obligations over the functions re-extracted from changes.py on every run.",
    "note": "Trusted: Bugzilla's list-update semantics as transcribed into the spec function apply(); lists compared as sets; "
            "callee payloads (FlagChange/NewComment.to_wire, str(PackageList), date.isoformat) are abstract in BugUpdate.to_wire; "
            "the pyvc encoder and its builtin models.",
}

ASSUMPTIONS = [
    "Bugzilla list-update semantics (spec function apply): set -> the list becomes exactly the given values; "
    "otherwise (L + add) - remove.  Transcribed from the property statement / Bugzilla REST documentation.",
    "list fields are compared as sets of values (order and duplicates are not part of the property)",
]


def mk_change(it, ex, name, elem=E):
    """An arbitrary ListChange accepted by its own __post_init__ (type invariant from the code)."""
    from pkgcore.bugzilla.changes import ListChange
    add, remove = KSeq(elem).fresh(name + "_add"), KSeq(elem).fresh(name + "_remove")
    replace = None if ex.choose(2) == 0 else KSeq(elem).fresh(name + "_replace")
    out = call(it, ListChange, add=add, remove=remove, replace=replace)
    if out.raised:
        ex.prune("rejected by __post_init__")
    ex.inputs[name] = {"add": add, "remove": remove, "replace": replace}
    return out.value


def apply(c, L):
    """spec: the list (as a set) after Bugzilla applies change c to L."""
    f = c.fields
    if f["replace"] is not None:
        return models.set_term(None, f["replace"]) if not isinstance(f["replace"], tuple) or f["replace"] else SSet(z3.EmptySet(L.kind.elem.sort), L.kind)
    add = models.set_term(None, f["add"], like=L)
    rem = models.set_term(None, f["remove"], like=L)
    r = L if add is None else L.union(add)
    return r if rem is None else r.difference(rem)


def t_or(ex):
    from pkgcore.bugzilla.errors import BugzillaUsageError
    it = Interp(ex, label="C39.ListChange.__or__")
    fn = it.target(FILE, "ListChange.__or__")
    a = mk_change(it, ex, "a")
    b = mk_change(it, ex, "b")
    L = KSet(E).fresh("L")
    ex.inputs["L"] = L
    ex.cover("inputs")
    out = call(it, fn, a, b)
    if out.raised:
        ex.oblige("C39.ListChange.__or__.raises.only_usage_error", out.raised_cls(BugzillaUsageError), kind="exceptional-postcondition")
        return
    r = out.value
    ex.oblige("C39.ListChange.__or__.ensures.result_is_ListChange", isinstance(r, SObj) and r.cls.__name__ == "ListChange")
    ex.oblige("C39.ListChange.__or__.ensures.sequential_composition",
              apply(r, L) == apply(b, apply(a, L)), kind="ensures")


def t_lc_wire(ex):
    """ListChange.to_wire: 'set' iff replace given; else 'add'/'remove' iff non-empty; values are the str() of the field."""
    it = Interp(ex, label="C39.ListChange.to_wire")
    fn = it.target(FILE, "ListChange.to_wire")
    c = mk_change(it, ex, "c")  # str(x) of an element is the uninterpreted str_of_Elem(x)
    out = call(it, fn, c)
    ex.oblige("C39.ListChange.to_wire.raises.nothing", not out.raised, kind="exceptional-postcondition")
    if out.raised:
        return
    w = out.value
    f = c.fields
    ex.oblige("C39.ListChange.to_wire.ensures.is_dict", isinstance(w, dict))
    if not isinstance(w, dict):
        return
    keys = set(w)
    ex.oblige("C39.ListChange.to_wire.ensures.only_known_keys", keys <= {"set", "add", "remove"})
    if f["replace"] is not None:
        ex.oblige("C39.ListChange.to_wire.ensures.set_exactly", keys == {"set"})
        if "set" in w:
            ex.oblige("C39.ListChange.to_wire.ensures.set_values", _same_items(it, w["set"], f["replace"]))
        return
    for key, fld in (("add", "add"), ("remove", "remove")):
        nonempty = f[fld].length() > 0
        ex.oblige(f"C39.ListChange.to_wire.ensures.{key}_present_iff_nonempty",
                  nonempty if key in w else Not(nonempty))
        if key in w:
            ex.oblige(f"C39.ListChange.to_wire.ensures.{key}_values", _same_items(it, w[key], f[fld]))


def _same_items(it, got, want):
    """same length and got[j] == str(want[j]) at every index."""
    from pyvc.sym import SSeq, I
    from pyvc import theory
    if not isinstance(got, SSeq):
        return False
    str_of = theory.ufun(f"str_of_{want.kind.elem.name}", want.kind.elem.sort, z3.StringSort())
    j = z3.Int("j!same")
    return SBool(z3.And(z3.Length(got.t) == z3.Length(want.t),
                        z3.ForAll([j], z3.Implies(z3.And(j >= 0, j < z3.Length(want.t)), got.t[j] == str_of(want.t[j])))))


OPT_STR = ("status", "resolution", "summary", "assigned_to", "whiteboard", "runtime_testing_required")
LISTS = ("cc", "keywords", "blocks", "depends_on", "see_also", "groups")
WIRE_KEY = {"package_list": "cf_stabilisation_atoms", "runtime_testing_required": "cf_runtime_testing_required"}


def t_bu_wire(ex):
    """BugUpdate.to_wire: a key is in the payload iff its field was set; callee payloads
    (ListChange/FlagChange/NewComment.to_wire, str(PackageList), date.isoformat) are abstract:
    the caller is checked against their contracts, not their bodies."""
    from pyvc.sym import Opt, Maybe, KInt, KBool, SStr, SRef, concrete_of
    from pyvc.models import Model
    from pyvc import theory
    from pkgcore.bugzilla.changes import BugUpdate
    from pkgcore.bugzilla.errors import BugzillaUsageError
    it = Interp(ex, label="C39.BugUpdate.to_wire")
    fn = it.target(FILE, "BugUpdate.to_wire")
    Wire = KRef("WirePayload")

    def wire_of(kind):
        f = theory.ufun(f"wire_of_{kind}", KRef(kind).sort, Wire.sort)
        return lambda it_, ref: Model(lambda it__, _f=f, _r=ref: Wire.wrap(_f(_r.t)), f"{kind}.to_wire")

    iso = theory.ufun("isoformat", KRef("Date").sort, z3.StringSort())
    it.ref_attrs = {("ListChange", "to_wire"): wire_of("ListChange"), ("FlagChange", "to_wire"): wire_of("FlagChange"),
                    ("NewComment", "to_wire"): wire_of("NewComment"),
                    ("Date", "isoformat"): lambda it_, ref: Model(lambda it__, _r=ref: SStr(iso(_r.t)), "date.isoformat")}
    nonempty = theory.ufun("ListChange_bool", KRef("ListChange").sort, z3.BoolSort())
    it.ref_truth = lambda it_, ref: nonempty(ref.t) if ref.kind.name == "ListChange" else True

    def opt(name, kind):
        return Opt(z3.Bool(f"{name}_is_none"), kind.fresh(name))

    fields = {n: opt(n, KStr) for n in OPT_STR}
    fields["dupe_of"] = opt("dupe_of", KInt)
    fields["deadline"] = opt("deadline", KRef("Date"))
    fields["comment"] = opt("comment", KRef("NewComment"))
    fields["package_list"] = opt("package_list", KRef("PackageList"))
    # list changes are records of the real class with arbitrary add / remove / replace values: both `bool(change)` and direct
    # attribute access run the real code; only ListChange.to_wire is replaced by its contract (an opaque payload per change)
    from pkgcore.bugzilla.changes import ListChange
    lc_wire = {}
    for n in LISTS:
        fields[n] = SObj(ListChange, {"add": KSeq(KStr).fresh(f"{n}_add"), "remove": KSeq(KStr).fresh(f"{n}_remove"),
                                      "replace": Opt(z3.Bool(f"{n}_replace_is_none"), KSeq(KStr).fresh(f"{n}_replace"))})
        lc_wire[id(fields[n])] = Wire.fresh(f"wire_of_{n}")
    it.models[ListChange.to_wire] = lambda it_, self_: lc_wire[id(self_)]
    fields["flags"] = KSeq(KRef("FlagChange")).fresh("flags")
    upd = SObj(BugUpdate, fields)
    ids = KSeq(KInt, "list").fresh("ids")
    ex.inputs.update({"ids": ids, **{k: v for k, v in fields.items() if k in OPT_STR or k == "dupe_of"}})
    out = call(it, fn, upd, ids)
    P = "C39.BugUpdate.to_wire"
    if out.raised:
        ex.oblige(f"{P}.raises.usage_error_iff_no_ids", And(out.raised_cls(BugzillaUsageError), ids.length() == 0), kind="exceptional-postcondition")
        return
    ex.cover("normal-return")
    ex.oblige(f"{P}.ensures.ids_nonempty_on_return", ids.length() > 0)
    w = out.value
    ex.oblige(f"{P}.ensures.is_dict", isinstance(w, dict))
    expected = {"ids"} | {WIRE_KEY.get(n, n) for n in fields}
    ex.oblige(f"{P}.ensures.only_known_keys", set(w) <= expected)

    def present(key):
        if key not in w:
            return False
        return SBool(w[key].present) if isinstance(w[key], Maybe) else True

    def value(key):
        return w[key].val if isinstance(w[key], Maybe) else w[key]

    ex.oblige(f"{P}.ensures.ids_always_sent", And(present("ids"), models.eq(it, value("ids"), ids) if "ids" in w else False))
    for n, v in fields.items():
        key = WIRE_KEY.get(n, n)
        if isinstance(v, Opt):
            is_set = Not(SBool(v.isnone))
        elif n in LISTS:
            # "set": something to add, something to remove, or a replacement list given -- an empty one too (it clears the field)
            is_set = Or(v.fields["add"].length() > 0, v.fields["remove"].length() > 0, Not(SBool(v.fields["replace"].isnone)))
        else:
            is_set = v.length() > 0
        p = present(key)
        ex.oblige(f"{P}.ensures.{key}_present_iff_set", (p == is_set) if isinstance(p, SBool) else (is_set if p else Not(is_set)))
        if key not in w:
            continue
        got = value(key)
        if n in OPT_STR or n == "dupe_of":
            ex.oblige(f"{P}.ensures.{key}_value", Implies(is_set, models.eq(it, got, v.val)))
        elif n == "deadline":
            ex.oblige(f"{P}.ensures.{key}_value", Implies(is_set, models.eq(it, got, SStr(iso(v.val.t)))))
        elif n in LISTS:
            ex.oblige(f"{P}.ensures.{key}_value", Implies(is_set, models.eq(it, got, lc_wire[id(v)])))
        elif n == "comment":
            f = theory.ufun("wire_of_NewComment", KRef("NewComment").sort, Wire.sort)
            ex.oblige(f"{P}.ensures.{key}_value", Implies(is_set, models.eq(it, got, Wire.wrap(f(v.val.t)))))


# ------------------------------------------------------------------ bounded stand-in: real changes over strings and bug ids ----
def enum_compose(seed):
    """every pair of list changes over a string alphabet and over an integer (bug id) alphabet, on every initial list: a | b is refused or
    its wire form, applied the way Bugzilla does ((L + add) - remove, or set), equals applying a's and then b's; a change naming a
    value both to add and to remove is refused by the constructor"""
    import itertools
    from pkgcore.bugzilla.changes import ListChange, BugUpdate
    from pkgcore.bugzilla.errors import BugzillaUsageError
    fails, cases = [], 0

    def apply_wire(w, L):
        L = list(L)
        if "set" in w:
            return sorted(set(w["set"]))
        for x in w.get("add", []):
            if x not in L:
                L.append(x)
        return sorted(set(x for x in L if x not in w.get("remove", [])))
    for alpha in (("a", "b", "c"), (1, 2, 3)):
        subsets = [c for n in range(3) for c in itertools.combinations(alpha, n)]
        changes = []
        for sub in subsets:
            changes += [("add", sub), ("remove", sub), ("set", sub)]
        for a2, r2 in itertools.product(subsets[:4], repeat=2):
            if a2 and r2:
                changes.append(("both", (a2, r2)))

        def build(kind, v):
            if kind == "add":
                return ListChange.adding(*v)
            if kind == "remove":
                return ListChange.removing(*v)
            if kind == "set":
                return ListChange.setting(*v)
            return ListChange(add=v[0], remove=v[1])
        built = []
        for kind, v in changes:
            cases += 1
            try:
                c = build(kind, v)
            except BugzillaUsageError:
                c = None
            overlap = kind == "both" and set(v[0]) & set(v[1])
            if (c is None) != bool(overlap) and len(fails) < 4:
                fails.append({"model": {"change": [kind, list(map(list, v)) if kind == "both" else list(v)]},
                              "detail": f"ListChange {kind} {v}: {'refused' if c is None else 'accepted'}; a change must be refused exactly when it names a value both to add and to remove"})
            if c is not None:
                built.append(((kind, v), c))
        lists = [list(c) for n in range(len(alpha) + 1) for c in itertools.combinations(alpha, n)]
        for (na, a), (nb, b) in itertools.product(built, repeat=2):
            try:
                ab = a | b
            except BugzillaUsageError:
                ab = None
            for L in lists:
                cases += 1
                Ls = [str(x) for x in L]
                want = apply_wire(b.to_wire(), apply_wire(a.to_wire(), Ls))
                if ab is None:
                    continue
                got = apply_wire(ab.to_wire(), Ls)
                if got != want and len(fails) < 4:
                    fails.append({"model": {"a": [na[0], repr(na[1])], "b": [nb[0], repr(nb[1])], "list": L},
                                  "detail": f"{na} | {nb} renders {ab.to_wire()}: on {Ls} that gives {got}, applying the two in sequence gives {want}"})
        # the update payload names exactly the list fields that are set (an explicit empty set too)
        for (na, a) in built:
            cases += 1
            w = BugUpdate(cc=a).to_wire([1])
            is_set = bool(a.add or a.remove or a.replace is not None)
            if ("cc" in w) != is_set and len(fails) < 4:
                fails.append({"model": {"cc": [na[0], repr(na[1])]}, "detail": f"BugUpdate(cc={na}).to_wire: 'cc' {'present' if 'cc' in w else 'missing'}, the field is {'set' if is_set else 'not set'}"})
    return {"name": "C39.list_changes.bounded_enumeration", "bound": "every add / remove / set / add+remove change of <= 2 values over {a, b, c} and over {1, 2, 3}, every ordered pair of them on every initial list, "
            "through the real constructors, __or__, to_wire and BugUpdate.to_wire", "cases": cases, "failures": fails}


def tasks():
    fns = [(FILE, "ListChange.__or__"), (FILE, "ListChange.__post_init__")]
    return [
        Task("C39.ListChange.__or__", t_or, fns),
        Task("C39.ListChange.to_wire", t_lc_wire, [(FILE, "ListChange.to_wire")], enumerate=enum_compose),
        Task("C39.BugUpdate.to_wire", t_bu_wire, [(FILE, "BugUpdate.to_wire")]),
    ]


# ---------------------------------------------------------------- replay ----
def _mk(d):
    from pkgcore.bugzilla.changes import ListChange
    return ListChange(add=tuple(d["add"]), remove=tuple(d["remove"]), replace=None if d["replace"] is None else tuple(d["replace"]))


def _apply(c, L):
    if c.replace is not None:
        return set(c.replace)
    return (set(L) | set(c.add)) - set(c.remove)


def replay_or(model):
    from pkgcore.bugzilla.errors import BugzillaUsageError
    a, b = _mk(model["a"]), _mk(model["b"])
    L = set(x for x in model["L"]["__set__"] if not str(x).startswith("<"))
    try:
        r = a | b
    except BugzillaUsageError:
        return False, "combination refused"
    got, want = _apply(r, L), _apply(b, _apply(a, L))
    return got != want, f"a={a!r} b={b!r} L={sorted(L)}: a|b={r!r} applies to {sorted(got)}, sequential application gives {sorted(want)}"


def replay_bu_wire(model):
    """Rebuild a BugUpdate with the model's simple fields (others left at their defaults) and
    compare the payload's keys with the fields that are set."""
    import dataclasses
    from pkgcore.bugzilla.changes import BugUpdate
    from pkgcore.bugzilla.errors import BugzillaUsageError
    obj = object.__new__(BugUpdate)
    for f in dataclasses.fields(BugUpdate):
        object.__setattr__(obj, f.name, model[f.name] if f.name in model else f.default)
    try:
        w = obj.to_wire(model["ids"])
    except BugzillaUsageError as e:
        return bool(model["ids"]), f"raised {e!r} for ids={model['ids']}"
    bad = []
    if not model["ids"]:
        bad.append("no ids but a payload was returned")
    for n in OPT_STR + ("dupe_of",):
        key = WIRE_KEY.get(n, n)
        if (key in w) != (model.get(n) is not None):
            bad.append(f"field {n}={model.get(n)!r} but key {key!r} {'present' if key in w else 'absent'}")
        elif key in w and w[key] != model[n]:
            bad.append(f"field {n}={model[n]!r} sent as {w[key]!r}")
    return bool(bad), "; ".join(bad) or f"payload keys {sorted(w)} agree with the set fields"


REPLAY = {"C39.ListChange.__or__.ensures.sequential_composition": replay_or,
          "C39.BugUpdate.to_wire": replay_bu_wire}
